(* RegistryProofs.v — theorems about the Registry model (property C17). *)
From Coq Require Import NArith List Bool Lia Permutation.
From KV Require Import Registry.
From KV.gen Require Import RegFacts.
Import ListNotations.
Open Scope N_scope.

(* ====================================================================================== *)
(* lists                                                                                  *)
(* ====================================================================================== *)

Lemma mem_In : forall b l, mem b l = true <-> In b l.
Proof.
  unfold mem. intros. rewrite existsb_exists. split.
  - intros [x [Hx He]]. apply N.eqb_eq in He. subst. assumption.
  - intros H. exists b. split. assumption. apply N.eqb_refl.
Qed.

Lemma mem_nIn : forall b l, mem b l = false <-> ~ In b l.
Proof.
  intros. rewrite <- mem_In. destruct (mem b l); split; congruence.
Qed.

Lemma In_rem : forall x b l, In x (rem b l) <-> In x l /\ x <> b.
Proof.
  unfold rem. intros. rewrite filter_In. rewrite negb_true_iff, N.eqb_neq. tauto.
Qed.

Lemma NoDup_filter : forall {A} (f : A -> bool) l, NoDup l -> NoDup (filter f l).
Proof.
  induction l; simpl; intros. constructor.
  inversion H; subst. destruct (f a).
  - constructor. rewrite filter_In. tauto. auto.
  - auto.
Qed.

Lemma NoDup_rem : forall b l, NoDup l -> NoDup (rem b l).
Proof. intros. apply NoDup_filter. assumption. Qed.

Lemma is_nil_true : forall {A} (l : list A), is_nil l = true <-> l = [].
Proof. destruct l; simpl; split; congruence. Qed.

Lemma is_nil_false : forall {A} (l : list A), is_nil l = false <-> l <> [].
Proof. destruct l; simpl; split; congruence. Qed.

Lemma NoDup_app_iff : forall {A} (l1 l2 : list A),
  NoDup (l1 ++ l2) <-> NoDup l1 /\ NoDup l2 /\ (forall x, In x l1 -> ~ In x l2).
Proof.
  induction l1; simpl; intros.
  - split. intros. repeat split; auto. constructor. intros [_ [H _]]. assumption.
  - split.
    + intros H. inversion H; subst. apply IHl1 in H3. destruct H3 as [H1 [H2' H3]].
      rewrite in_app_iff in H2. repeat split; auto.
      * constructor; tauto.
      * intros x [Hx | Hx]. subst. tauto. auto.
    + intros [H1 [H2 H3]]. inversion H1; subst. constructor.
      * rewrite in_app_iff. intros [Hc | Hc]. tauto. apply (H3 a); auto.
      * apply IHl1. repeat split; auto.
Qed.

Lemma map_filter_In : forall {A B} (g : A -> B) (f : A -> bool) l y,
  In y (map g (filter f l)) -> In y (map g l).
Proof.
  intros. apply in_map_iff in H. destruct H as [x [Hx Hi]]. apply filter_In in Hi.
  apply in_map_iff. exists x. tauto.
Qed.

Lemma NoDup_map_filter : forall {A B} (g : A -> B) (f : A -> bool) l,
  NoDup (map g l) -> NoDup (map g (filter f l)).
Proof.
  induction l; simpl; intros. constructor.
  inversion H; subst. destruct (f a); simpl.
  - constructor. intro Hc. apply H2. eapply map_filter_In. eassumption. auto.
  - auto.
Qed.

(* ====================================================================================== *)
(* the lock                                                                               *)
(* ====================================================================================== *)

Definition lock_wf (l : lock) : Prop :=
  NoDup (lock_ids l) /\
  (l_wact l = true -> l_wq l <> [] /\ l_rd l = []) /\
  (l_wact l = false -> l_wq l <> [] -> l_rd l <> []) /\
  (l_rq l <> [] -> l_wq l <> []).

Lemma lock0_wf : lock_wf lock0.
Proof.
  unfold lock_wf, lock0, lock_ids; simpl. repeat split; try congruence. constructor.
Qed.

Lemma acquire_ids : forall ro b l x,
  In x (lock_ids (acquire ro b l)) <-> x = b \/ In x (lock_ids l).
Proof.
  intros. unfold acquire, acquire_r, acquire_w, lock_ids.
  destruct ro; destruct (l_wq l) eqn:E; simpl; repeat (rewrite in_app_iff; simpl); try rewrite E;
    simpl; repeat (rewrite in_app_iff; simpl); intuition.
Qed.

Lemma NoDup_single : forall (b : N), NoDup [b].
Proof. intros. constructor. simpl; tauto. constructor. Qed.

Ltac lockset :=
  repeat match goal with
  | |- NoDup (_ ++ _) => apply NoDup_app_iff; repeat split
  | |- NoDup [_] => apply NoDup_single
  | |- NoDup [] => constructor
  | |- NoDup (_ :: _) => constructor
  | H : NoDup (_ :: _) |- _ => inversion H; clear H; subst
  end.

Lemma perm_snoc_left : forall (b : N) q r, Permutation (b :: q ++ r) ((q ++ [b]) ++ r).
Proof. intros. rewrite <- app_assoc. simpl. apply Permutation_middle. Qed.

Lemma perm_snoc_mid : forall (b : N) q r1 r2, Permutation (b :: q ++ r1 ++ r2) (q ++ (r1 ++ [b]) ++ r2).
Proof.
  intros. rewrite <- app_assoc. simpl. rewrite app_assoc. rewrite (app_assoc q r1 (b :: r2)).
  apply Permutation_middle.
Qed.

Lemma perm_snoc_right : forall (b : N) q r1 r2, Permutation (b :: q ++ r1 ++ r2) (q ++ r1 ++ r2 ++ [b]).
Proof. intros. rewrite !app_assoc. apply Permutation_cons_append. Qed.

Lemma acquire_perm : forall ro b l, Permutation (b :: lock_ids l) (lock_ids (acquire ro b l)).
Proof.
  intros. unfold acquire, acquire_r, acquire_w, lock_ids.
  destruct ro; destruct (l_wq l) as [|h t] eqn:E; simpl l_wq; simpl l_rd; simpl l_rq.
  - apply (perm_snoc_mid b []).
  - apply (perm_snoc_right b (h :: t)).
  - simpl. apply Permutation_refl.
  - apply (perm_snoc_left b (h :: t)).
Qed.

Lemma acquire_wf : forall ro b l, lock_wf l -> ~ In b (lock_ids l) -> lock_wf (acquire ro b l).
Proof.
  intros ro b l [Hnd [Ha [Hb Hc]]] Hn. split.
  - eapply Permutation_NoDup. apply acquire_perm. constructor; assumption.
  - unfold acquire, acquire_r, acquire_w.
    destruct ro; destruct (l_wq l) as [|h t] eqn:E; simpl l_wq; simpl l_rd; simpl l_rq; simpl l_wact.
    + split; [| split].
      * intros Hw. destruct (Ha Hw). congruence.
      * intros _ Hq. congruence.
      * intro Hq. apply Hc in Hq. congruence.
    + split; [| split].
      * exact Ha.
      * exact Hb.
      * intros _. congruence.
    + split; [| split].
      * intro Hw. apply is_nil_true in Hw. split. congruence. assumption.
      * intros Hw _. apply is_nil_false in Hw. assumption.
      * intros _. congruence.
    + split; [| split].
      * intro Hw. destruct (Ha Hw). split; [destruct (h :: t); simpl; congruence | assumption].
      * intros Hw _. apply Hb. exact Hw. congruence.
      * intros _. destruct (h :: t); simpl; congruence.
Qed.

Lemma acquire_hold_mono : forall ro b l x, lock_wf l -> In x (holders l) -> In x (holders (acquire ro b l)).
Proof.
  intros ro b l x [_ [Ha _]] H. unfold holders, acquire, acquire_r, acquire_w in *.
  destruct ro; destruct (l_wq l) eqn:E; simpl.
  - destruct (l_wact l) eqn:W. destruct (Ha eq_refl). congruence. apply in_app_iff. tauto.
  - exact H.
  - destruct (l_wact l) eqn:W. destruct (Ha eq_refl). congruence.
    destruct (l_rd l); simpl in *. tauto. exact H.
  - destruct (l_wact l); simpl in *; exact H.
Qed.

Lemma acquire_hold_new : forall ro b l x, lock_wf l ->
  In x (holders (acquire ro b l)) -> x = b \/ In x (holders l).
Proof.
  intros ro b l x [_ [Ha _]]. unfold holders, acquire, acquire_r, acquire_w.
  destruct ro; destruct (l_wq l) eqn:E; simpl.
  - destruct (l_wact l); simpl. tauto. rewrite in_app_iff. simpl. intuition.
  - tauto.
  - destruct (l_wact l) eqn:W. destruct (Ha eq_refl). congruence.
    destruct (l_rd l); simpl; intuition.
  - destruct (l_wact l); simpl; tauto.
Qed.

Lemma release_nonholder : forall b l, ~ In b (holders l) -> release b l = l.
Proof.
  intros b l H. unfold release, holders in *. destruct (l_wact l).
  - destruct (l_wq l) as [|h t]; auto. simpl in H. destruct (N.eqb_spec h b); auto. subst. tauto.
  - apply mem_nIn in H. rewrite H. reflexivity.
Qed.

Lemma release_ids : forall b l x, lock_wf l -> In b (holders l) ->
  (In x (lock_ids (release b l)) <-> In x (lock_ids l) /\ x <> b).
Proof.
  intros b l x [Hnd [Ha [Hb Hc]]] H. unfold release, holders, lock_ids in *.
  destruct (l_wact l) eqn:W.
  - destruct (Ha eq_refl) as [Hq Hr]. destruct (l_wq l) as [|h t]; [congruence|].
    simpl in H. destruct H as [H | []]. subst h. rewrite N.eqb_refl. simpl.
    rewrite Hr in *. simpl in *. inversion Hnd; subst.
    rewrite !in_app_iff in *. simpl. split.
    + intros Hx. split. tauto. intro; subst. tauto.
    + intros [[Hx | Hx] Hn]. congruence. tauto.
  - rewrite (proj2 (mem_In b (l_rd l)) H). simpl. rewrite !in_app_iff. rewrite In_rem.
    split.
    + intros [Hx | [[Hx Hn] | Hx]]; split; auto; intro; subst.
      * apply NoDup_app_iff in Hnd. destruct Hnd as [_ [_ H3]]. apply (H3 b Hx). apply in_app_iff. tauto.
      * apply NoDup_app_iff in Hnd. destruct Hnd as [_ [H2 _]].
        apply NoDup_app_iff in H2. destruct H2 as [_ [_ H3]]. apply (H3 b H Hx).
    + tauto.
Qed.

Lemma release_wf : forall b l, lock_wf l -> lock_wf (release b l).
Proof.
  intros b l Hwf. destruct (in_dec N.eq_dec b (holders l)) as [H | H];
    [| rewrite release_nonholder; auto].
  destruct Hwf as [Hnd [Ha [Hb Hc]]]. unfold release, holders, lock_wf, lock_ids in *.
  destruct (l_wact l) eqn:W.
  - destruct (Ha eq_refl) as [Hq Hr]. destruct (l_wq l) as [|h t]; [congruence|].
    simpl in H. destruct H as [H | []]. subst h. rewrite N.eqb_refl.
    simpl l_wq; simpl l_rd; simpl l_rq; simpl l_wact.
    rewrite Hr in *. simpl in Hnd. inversion Hnd; subst. rewrite app_nil_r.
    split; [| split; [| split]].
    + exact H2.
    + intro H. apply andb_true_iff in H. destruct H as [H H']. apply negb_true_iff, is_nil_false in H.
      apply is_nil_true in H'. tauto.
    + intros Hf Hq'. apply andb_false_iff in Hf. destruct Hf as [Hf | Hf].
      * apply negb_false_iff, is_nil_true in Hf. congruence.
      * apply is_nil_false in Hf. exact Hf.
    + intros Hx. congruence.
  - rewrite (proj2 (mem_In b (l_rd l)) H).
    simpl l_wq; simpl l_rd; simpl l_rq; simpl l_wact.
    split; [| split; [| split]].
    + apply NoDup_app_iff in Hnd. destruct Hnd as [H1 [H2 H3]].
      apply NoDup_app_iff in H2. destruct H2 as [H4 [H5 H6]].
      apply NoDup_app_iff. repeat split; auto.
      * apply NoDup_app_iff. repeat split; auto. apply NoDup_rem; auto.
        intros x Hx. apply In_rem in Hx. apply H6. tauto.
      * intros x Hx Hy. apply (H3 x Hx). rewrite in_app_iff in *. rewrite In_rem in Hy. tauto.
    + intro H0. apply andb_true_iff in H0. destruct H0 as [H0 H0'].
      apply negb_true_iff, is_nil_false in H0. apply is_nil_true in H0'. tauto.
    + intros Hf Hq. apply andb_false_iff in Hf. destruct Hf as [Hf | Hf].
      * apply negb_false_iff, is_nil_true in Hf. congruence.
      * apply is_nil_false in Hf. exact Hf.
    + exact Hc.
Qed.

Lemma release_hold_keep : forall b l x, lock_wf l -> In x (holders l) -> x <> b ->
  In x (holders (release b l)).
Proof.
  intros b l x Hwf Hx Hn. destruct (in_dec N.eq_dec b (holders l)) as [H | H];
    [| rewrite release_nonholder; auto].
  destruct Hwf as [Hnd [Ha [Hb Hc]]]. unfold release, holders in *.
  destruct (l_wact l) eqn:W.
  - destruct (l_wq l) as [|h t]; simpl in *. tauto. destruct H as [H|[]]. destruct Hx as [Hx|[]]. congruence.
  - rewrite (proj2 (mem_In b (l_rd l)) H). simpl.
    assert (Hr : In x (rem b (l_rd l))) by (apply In_rem; tauto).
    destruct (rem b (l_rd l)) eqn:E. destruct Hr.
    rewrite andb_false_r. rewrite <- E. apply In_rem. tauto.
Qed.

(* nobody holds it => nobody waits either *)
Lemma lock_free : forall l, lock_wf l -> holders l = [] -> lock_ids l = [].
Proof.
  intros l [_ [Ha [Hb Hc]]] H. unfold holders, lock_ids in *. destruct (l_wact l) eqn:W.
  - destruct (Ha eq_refl) as [Hq _]. destruct (l_wq l); simpl in *; congruence.
  - rewrite H in *. destruct (l_wq l) eqn:E.
    + destruct (l_rq l) eqn:F; auto. exfalso. apply Hc; congruence.
    + exfalso. apply (Hb eq_refl); congruence.
Qed.

Lemma acquire_free : forall ro b l, lock_wf l -> lock_ids l = [] -> In b (holders (acquire ro b l)).
Proof.
  intros ro b l [_ [Ha _]] H. unfold lock_ids in H. apply app_eq_nil in H. destruct H as [H1 H2].
  apply app_eq_nil in H2. destruct H2 as [H2 H3].
  unfold acquire, acquire_r, acquire_w, holders. rewrite H1, H2. destruct ro; simpl.
  - destruct (l_wact l) eqn:W; simpl. destruct (Ha eq_refl). congruence. tauto.
  - tauto.
Qed.

(* ====================================================================================== *)
(* objects                                                                                *)
(* ====================================================================================== *)

Definition acts (l : list obj) : list N := map o_b (filter o_active l).
Definition act_ids (s : state) : list N := acts (objs s).
Definition obj_ids (s : state) : list N := map o_b (objs s).
Definition pend_ids (s : state) : list N := map p_b (pends s).
Definition reg_bs (s : state) : list N := map r_b (reg s).
Definition reg_ids (s : state) : list N := map r_id (reg s).

Lemma is_active_In : forall b s, is_active b s = true <-> In b (act_ids s).
Proof.
  intros. unfold is_active, act_ids, acts. rewrite existsb_exists, in_map_iff. split.
  - intros [o [Ho Hc]]. apply andb_true_iff in Hc. destruct Hc as [Hc1 Hc2].
    apply N.eqb_eq in Hc1. exists o. rewrite filter_In. tauto.
  - intros [o [Ho Hc]]. apply filter_In in Hc. exists o. rewrite Ho, N.eqb_refl. simpl. tauto.
Qed.

Lemma is_active_nIn : forall b s, is_active b s = false <-> ~ In b (act_ids s).
Proof. intros. rewrite <- is_active_In. destruct (is_active b s); split; congruence. Qed.

Lemma ids_upd : forall b f l, (forall o, o_b (f o) = o_b o) -> map o_b (upd_obj b f l) = map o_b l.
Proof.
  intros. unfold upd_obj. rewrite map_map. apply map_ext. intro o.
  destruct (o_b o =? b); auto.
Qed.

Lemma acts_upd_same : forall b f l, (forall o, o_b (f o) = o_b o) ->
  (forall o, o_active (f o) = o_active o) -> acts (upd_obj b f l) = acts l.
Proof.
  intros b f l H1 H2. unfold acts, upd_obj. induction l; simpl; auto.
  destruct (o_b a =? b).
  - rewrite H2. destruct (o_active a); simpl; rewrite ?H1; congruence.
  - destruct (o_active a); simpl; congruence.
Qed.

Lemma acts_deact : forall b l x, In x (acts (upd_obj b deact l)) <-> In x (acts l) /\ x <> b.
Proof.
  intros b l x. unfold acts, upd_obj. induction l; simpl. tauto.
  destruct (N.eqb_spec (o_b a) b).
  - simpl. destruct (o_active a); simpl; rewrite IHl; intuition; subst; congruence.
  - destruct (o_active a); simpl; rewrite IHl; intuition; subst; congruence.
Qed.

Lemma acts_app : forall l o, acts (l ++ [o]) = acts l ++ (if o_active o then [o_b o] else []).
Proof.
  intros. unfold acts. rewrite filter_app, map_app. simpl. destruct (o_active o); reflexivity.
Qed.

Lemma acts_sub : forall l x, In x (acts l) -> In x (map o_b l).
Proof. intros. eapply map_filter_In. exact H. Qed.

Lemma get_obj_some : forall b s o, get_obj b s = Some o -> In o (objs s) /\ o_b o = b.
Proof.
  unfold get_obj. intros. apply find_some in H. destruct H as [H1 H2]. apply N.eqb_eq in H2. tauto.
Qed.

Lemma get_obj_active : forall b s o, NoDup (obj_ids s) -> get_obj b s = Some o ->
  is_active b s = o_active o.
Proof.
  unfold get_obj, is_active, obj_ids. intros b s o. induction (objs s) as [|a l IH]; simpl; intros Hn H.
  discriminate. inversion Hn; subst.
  destruct (N.eqb_spec (o_b a) b).
  - inversion H; subst. simpl. destruct (o_active o) eqn:A; auto.
    simpl. apply not_true_is_false. intro Hc. apply existsb_exists in Hc.
    destruct Hc as [o' [Ho' Hc]]. apply andb_true_iff in Hc. destruct Hc as [Hc _].
    apply N.eqb_eq in Hc. apply H2. rewrite <- Hc. apply in_map. assumption.
  - simpl. apply IH; auto.
Qed.

Lemma get_obj_none : forall b s, get_obj b s = None -> is_active b s = false.
Proof.
  unfold get_obj, is_active. intros. apply not_true_is_false. intro Hc.
  apply existsb_exists in Hc. destruct Hc as [o [Ho Hc]]. apply andb_true_iff in Hc.
  destruct Hc as [Hc _]. eapply find_none in H. 2: exact Ho. congruence.
Qed.

(* ====================================================================================== *)
(* the invariant                                                                          *)
(* ====================================================================================== *)

Record inv0 (s : state) : Prop := mkInv0 {
  i_wf : lock_wf (lk s);
  i_objnd : NoDup (obj_ids s);
  i_objlt : forall b, In b (obj_ids s) -> b < next_b s;
  i_act : forall b, In b (lock_ids (lk s)) <-> In b (act_ids s);
  i_pnd : NoDup (pend_ids s);
  i_rbnd : NoDup (reg_bs s);
  i_rind : NoDup (reg_ids s);
  i_rid : forall r, In r (reg s) -> r_id r <= next_id s;
  i_robj : forall b, In b (reg_bs s) -> In b (obj_ids s);
  i_plock : forall b, In b (pend_ids s) -> In b (lock_ids (lk s));
  i_disj : forall b, In b (pend_ids s) -> ~ In b (reg_bs s);
  i_wait : forall b, In b (lock_ids (lk s)) -> ~ In b (holders (lk s)) -> In b (pend_ids s);
  i_hand : forall c id b, In (c, (id, b)) (handles s) ->
             id <= next_id s /\ b < next_b s /\ ~ In b (pend_ids s) /\
             (forall r, In r (reg s) -> (r_id r = id <-> r_b r = b))
}.

(* every transaction that is in the lock (holding or queued) belongs to somebody: a caller that
   still waits for it, or the registry *)
Definition orphan_free (s : state) : Prop :=
  forall b, In b (lock_ids (lk s)) -> In b (pend_ids s) \/ In b (reg_bs s).

Definition inv (s : state) : Prop := inv0 s /\ orphan_free s.

(* no creating goroutine holds the lock without having handed over *)
Definition settled (s : state) : Prop := forall b, In b (pend_ids s) -> ~ In b (holders (lk s)).

Definition Inv (s : state) : Prop := inv s /\ settled s.

Lemma holders_sub : forall l x, In x (holders l) -> In x (lock_ids l).
Proof.
  unfold holders, lock_ids. intros l x. destruct (l_wact l).
  - destruct (l_wq l); simpl; intros []; subst; simpl; tauto.
  - intro. rewrite !in_app_iff. tauto.
Qed.

Lemma init_Inv : Inv init.
Proof.
  split; [split|].
  - constructor; simpl; try (constructor; fail); try tauto. apply lock0_wf.
  - intros b H. destruct H.
  - intros b H. destruct H.
Qed.

(* a registered transaction that is active holds the lock *)
Lemma reg_active_holds : forall s b, inv0 s -> In b (reg_bs s) -> In b (act_ids s) -> In b (holders (lk s)).
Proof.
  intros s b I Hr Ha. destruct (in_dec N.eq_dec b (holders (lk s))); auto.
  exfalso. apply (i_disj s I b); auto. apply (i_wait s I b); auto. apply (i_act s I b). assumption.
Qed.

(* ====================================================================================== *)
(* primitives preserve the invariant                                                      *)
(* ====================================================================================== *)

Lemma finish_inactive : forall b s, is_active b s = false -> finish_obj b s = s.
Proof. intros. unfold finish_obj. rewrite H. reflexivity. Qed.

Lemma finish_inv0 : forall s b, inv0 s ->
  (is_active b s = true -> In b (holders (lk s))) -> ~ In b (pend_ids s) ->
  inv0 (finish_obj b s).
Proof.
  intros s b I Hh Hp. unfold finish_obj. destruct (is_active b s) eqn:A; auto.
  specialize (Hh eq_refl). destruct I.
  constructor; simpl; auto.
  - apply release_wf; auto.
  - unfold obj_ids in *. simpl. rewrite ids_upd; auto.
  - unfold obj_ids in *. simpl. rewrite ids_upd; auto.
  - intros x. unfold act_ids. simpl. rewrite release_ids; auto. rewrite acts_deact.
    rewrite i_act0. unfold act_ids. tauto.
  - unfold obj_ids in *. simpl. rewrite ids_upd; auto.
  - intros x Hx. apply release_ids; auto. split; auto. intro; subst. tauto.
  - intros x Hx Hn. apply release_ids in Hx; auto. destruct Hx as [Hx Hne].
    apply i_wait0; auto. intro Hc. apply Hn. apply release_hold_keep; auto.
Qed.

Lemma finish_orphan : forall s b, inv0 s ->
  (is_active b s = true -> In b (holders (lk s))) ->
  (forall x, In x (lock_ids (lk s)) -> x <> b -> In x (pend_ids s) \/ In x (reg_bs s)) ->
  orphan_free (finish_obj b s).
Proof.
  intros s b I Hh Ho. unfold finish_obj. destruct (is_active b s) eqn:A.
  - specialize (Hh eq_refl). intros x Hx. simpl in Hx. apply release_ids in Hx; auto.
    2: apply (i_wf s I). destruct Hx. apply Ho; auto.
  - intros x Hx. destruct (N.eq_dec x b).
    + subst. apply (i_act s I) in Hx. apply is_active_In in Hx. congruence.
    + apply Ho; auto.
Qed.

Lemma finish_inv : forall s b, inv s ->
  (is_active b s = true -> In b (reg_bs s)) -> inv (finish_obj b s).
Proof.
  intros s b [I O] Hr. split.
  - apply finish_inv0; auto.
    + intro A. apply reg_active_holds; auto. apply is_active_In. assumption.
    + intro Hp. destruct (is_active b s) eqn:A.
      * apply (i_disj s I b); auto.
      * apply (i_plock s I) in Hp. apply (i_act s I) in Hp. apply is_active_In in Hp. congruence.
  - apply finish_orphan; auto.
    intro A. apply reg_active_holds; auto. apply is_active_In. assumption.
Qed.

Lemma finish_lock_other : forall s b x, inv0 s -> (is_active b s = true -> In b (holders (lk s))) ->
  In x (holders (lk s)) -> x <> b -> In x (holders (lk (finish_obj b s))).
Proof.
  intros. unfold finish_obj. destruct (is_active b s); auto. simpl.
  apply release_hold_keep; auto. apply (i_wf s H).
Qed.

(* --- pending list --- *)

Lemma drop_pend_ids : forall b l x, In x (map p_b (drop_pend b l)) <-> In x (map p_b l) /\ x <> b.
Proof.
  intros. unfold drop_pend. rewrite !in_map_iff. split.
  - intros [p [Hp Hi]]. apply filter_In in Hi. destruct Hi as [Hi Hn].
    apply negb_true_iff, N.eqb_neq in Hn. split. exists p; tauto. congruence.
  - intros [[p [Hp Hi]] Hn]. exists p. split; auto. apply filter_In. split; auto.
    apply negb_true_iff, N.eqb_neq. congruence.
Qed.

Lemma drop_inv0 : forall s b, inv0 s -> In b (holders (lk s)) ->
  inv0 (set_pends s (drop_pend b (pends s))).
Proof.
  intros s b I Hh. destruct I. constructor; simpl; auto.
  - unfold pend_ids. simpl. unfold drop_pend. apply NoDup_map_filter. assumption.
  - intros x Hx. apply drop_pend_ids in Hx. apply i_plock0. tauto.
  - intros x Hx. apply drop_pend_ids in Hx. apply i_disj0. tauto.
  - intros x Hx Hn. unfold pend_ids. simpl. apply drop_pend_ids. split. apply i_wait0; auto.
    intro; subst. tauto.
  - intros c id b' Hc. destruct (i_hand0 c id b' Hc) as [H1 [H2 [H3 H4]]].
    split; auto. split; auto. split; auto. intro Hx. apply drop_pend_ids in Hx. tauto.
Qed.

Lemma zombie_inv : forall s b, inv s -> In b (pend_ids s) -> In b (holders (lk s)) ->
  inv (finish_obj b (set_pends s (drop_pend b (pends s)))).
Proof.
  intros s b [I O] Hp Hh.
  assert (I1 := drop_inv0 s b I Hh).
  split.
  - apply finish_inv0; auto.
    unfold pend_ids. simpl. intro Hx. apply drop_pend_ids in Hx. tauto.
  - apply finish_orphan; auto. simpl. intros x Hx Hn. destruct (O x Hx) as [H | H].
    + left. unfold pend_ids. simpl. apply drop_pend_ids. tauto.
    + right. assumption.
Qed.

(* --- registration of a granted Begin --- *)

Lemma set_handle_In : forall c h l x, In x (set_handle c h l) -> x = (c, h) \/ In x l.
Proof.
  unfold set_handle. intros. destruct H. left; congruence. apply filter_In in H. tauto.
Qed.

Lemma register_inv : forall cfg s p, inv s -> In p (pends s) -> In (p_b p) (holders (lk s)) ->
  inv (register cfg p (set_pends s (drop_pend (p_b p) (pends s)))).
Proof.
  intros cfg s p [I O] Hp Hh.
  assert (Hpb : In (p_b p) (pend_ids s)) by (apply in_map; assumption).
  destruct I. split.
  - constructor; simpl; auto.
    + unfold pend_ids. simpl. apply NoDup_map_filter. assumption.
    + unfold reg_bs. simpl. rewrite map_app. simpl. apply NoDup_app_iff. repeat split; auto.
      apply NoDup_single. intros x Hx [Hy | []]. subst. apply (i_disj0 (p_b p)); auto.
    + unfold reg_ids. simpl. rewrite map_app. simpl. apply NoDup_app_iff. repeat split; auto.
      apply NoDup_single. intros x Hx [Hy | []]. subst.
      apply in_map_iff in Hx. destruct Hx as [r [Hr Hi]]. apply i_rid0 in Hi. lia.
    + intros r Hr. apply in_app_iff in Hr. destruct Hr as [Hr | [Hr | []]].
      apply i_rid0 in Hr. lia. subst. simpl. lia.
    + intros b Hb. unfold reg_bs in Hb. simpl in Hb. rewrite map_app in Hb. apply in_app_iff in Hb.
      destruct Hb as [Hb | [Hb | []]]. auto. subst.
      apply acts_sub. apply i_act0. apply i_plock0. assumption.
    + intros x Hx. apply drop_pend_ids in Hx. apply i_plock0. tauto.
    + intros x Hx. apply drop_pend_ids in Hx. destruct Hx as [Hx Hn]. unfold reg_bs. simpl.
      rewrite map_app, in_app_iff. simpl. intros [Hc | [Hc | []]]. apply (i_disj0 x); auto. congruence.
    + intros x Hx Hn. unfold pend_ids. simpl. apply drop_pend_ids. split. apply i_wait0; auto.
      intro; subst. tauto.
    + intros c id b Hc. apply set_handle_In in Hc. destruct Hc as [Hc | Hc].
      * inversion Hc; subst. split. lia. split.
        apply i_objlt0. apply acts_sub. apply i_act0. apply i_plock0. assumption.
        split. intro Hx. apply drop_pend_ids in Hx. tauto.
        intros r Hr. apply in_app_iff in Hr. destruct Hr as [Hr | [Hr | []]].
        { split; intro He. apply i_rid0 in Hr. lia.
          exfalso. apply (i_disj0 (p_b p)); auto. rewrite <- He. apply in_map. assumption. }
        { subst. simpl. tauto. }
      * destruct (i_hand0 c id b Hc) as [H1 [H2 [H3 H4]]]. split. lia. split. auto. split.
        intro Hx. apply drop_pend_ids in Hx. tauto.
        intros r Hr. apply in_app_iff in Hr. destruct Hr as [Hr | [Hr | []]]. auto.
        subst. simpl. split; intro He. lia. subst. tauto.
  - intros x Hx. simpl in Hx. destruct (O x Hx) as [H | H].
    + destruct (N.eq_dec x (p_b p)).
      * subst. right. unfold reg_bs. simpl. rewrite map_app, in_app_iff. simpl. tauto.
      * left. unfold pend_ids. simpl. apply drop_pend_ids. tauto.
    + right. unfold reg_bs. simpl. rewrite map_app, in_app_iff. tauto.
Qed.

(* the new holder is still a holder after registration (lock untouched) *)

(* --- removal from the registry --- *)

Lemma reg_remove_inv : forall s id, inv s ->
  (forall r, In r (reg s) -> r_id r = id -> is_active (r_b r) s = false) ->
  inv (reg_remove id s).
Proof.
  intros s id [I O] Hr. destruct I. split.
  - constructor; simpl; auto.
    + unfold reg_bs. simpl. apply NoDup_map_filter. assumption.
    + unfold reg_ids. simpl. apply NoDup_map_filter. assumption.
    + intros r Hi. apply filter_In in Hi. apply i_rid0. tauto.
    + intros b Hb. apply i_robj0. eapply map_filter_In. exact Hb.
    + intros b Hb Hc. apply (i_disj0 b Hb). eapply map_filter_In. exact Hc.
    + intros c i b Hc. destruct (i_hand0 c i b Hc) as [H1 [H2 [H3 H4]]].
      split; auto. split; auto. split; auto.
      intros r Hi. apply filter_In in Hi. apply H4. tauto.
  - intros x Hx. simpl in Hx. destruct (O x Hx) as [H | H]. tauto.
    right. unfold reg_bs in *. simpl. apply in_map_iff in H. destruct H as [r [Hb Hi]].
    apply in_map_iff. exists r. split; auto. apply filter_In. split; auto.
    apply negb_true_iff, N.eqb_neq. intro He. specialize (Hr r Hi He). subst.
    apply i_act0 in Hx. apply is_active_In in Hx. congruence.
Qed.

(* --- a new Begin --- *)

Lemma begin_core_inv : forall cfg c ro d s, inv s -> inv (begin_core cfg c ro d s).
Proof.
  intros cfg c ro d s [I O]. destruct I.
  assert (Hfresh : ~ In (next_b s) (obj_ids s)) by (intro Hx; apply i_objlt0 in Hx; lia).
  assert (Hfl : ~ In (next_b s) (lock_ids (lk s))).
  { intro Hx. apply Hfresh. apply acts_sub. apply i_act0. assumption. }
  split.
  - constructor; simpl; auto.
    + apply acquire_wf; auto.
    + unfold obj_ids. simpl. rewrite map_app. simpl. apply NoDup_app_iff. repeat split; auto.
      apply NoDup_single. intros x Hx [Hy | []]. subst. tauto.
    + intros b Hb. unfold obj_ids in Hb. simpl in Hb. rewrite map_app, in_app_iff in Hb. simpl in Hb.
      destruct Hb as [Hb | [Hb | []]]. apply i_objlt0 in Hb. lia. subst. lia.
    + intros b. rewrite acquire_ids. unfold act_ids. simpl. rewrite acts_app. simpl.
      rewrite in_app_iff. simpl. rewrite i_act0. unfold act_ids. intuition.
    + unfold pend_ids. simpl. rewrite map_app. simpl. apply NoDup_app_iff. repeat split; auto.
      apply NoDup_single. intros x Hx [Hy | []]. subst. apply Hfl. apply i_plock0. assumption.
    + intros b Hb. apply i_robj0 in Hb. unfold obj_ids. simpl. rewrite map_app, in_app_iff. tauto.
    + intros b Hb. unfold pend_ids in Hb. simpl in Hb. rewrite map_app, in_app_iff in Hb. simpl in Hb.
      apply acquire_ids. destruct Hb as [Hb | [Hb | []]]. right. auto. left. congruence.
    + intros b Hb. unfold pend_ids in Hb. simpl in Hb. rewrite map_app, in_app_iff in Hb. simpl in Hb.
      destruct Hb as [Hb | [Hb | []]]. auto. subst. intro Hc. apply Hfresh. auto.
    + intros b Hb Hn. unfold pend_ids. simpl. rewrite map_app, in_app_iff. simpl.
      apply acquire_ids in Hb. destruct Hb as [Hb | Hb]. right. left. congruence.
      left. apply i_wait0; auto. intro Hc. apply Hn. apply acquire_hold_mono; auto.
    + intros c' id b Hc. destruct (i_hand0 c' id b Hc) as [H1 [H2 [H3 H4]]]. split. auto. split. lia.
      split; auto. unfold pend_ids. simpl. rewrite map_app, in_app_iff. simpl. intros [Hx | [Hx | []]].
      tauto. lia.
  - intros x Hx. simpl in Hx. apply acquire_ids in Hx. unfold pend_ids. simpl.
    rewrite map_app, in_app_iff. simpl. destruct Hx as [Hx | Hx]. left. right. left. congruence.
    destruct (O x Hx); tauto.
Qed.

(* --- changes that the invariant does not look at --- *)

Definition same_shape (s s' : state) : Prop :=
  lk s' = lk s /\ obj_ids s' = obj_ids s /\ act_ids s' = act_ids s /\ pend_ids s' = pend_ids s /\
  reg s' = reg s /\ next_id s' = next_id s /\ next_b s' = next_b s /\ handles s' = handles s.

Lemma shape_inv : forall s s', same_shape s s' -> inv s -> inv s'.
Proof.
  intros s s' [E1 [E2 [E3 [E4 [E5 [E6 [E7 E8]]]]]]] [I O]. destruct I. split.
  - constructor; unfold reg_bs, reg_ids in *; rewrite ?E1, ?E2, ?E3, ?E4, ?E5, ?E6, ?E7, ?E8; auto.
  - intros b. unfold orphan_free, reg_bs in *. rewrite E1, E4, E5. apply O.
Qed.

Lemma shape_settled : forall s s', same_shape s s' -> settled s -> settled s'.
Proof.
  intros s s' [E1 [_ [_ [E4 _]]]] H b. rewrite E1, E4. apply H.
Qed.

Lemma shape_Inv : forall s s', same_shape s s' -> Inv s -> Inv s'.
Proof. intros s s' E [I S]. split. eapply shape_inv; eauto. eapply shape_settled; eauto. Qed.

Lemma shape_refl : forall s, same_shape s s.
Proof. intros. repeat split. Qed.

Lemma shape_upd : forall s b f, (forall o, o_b (f o) = o_b o) -> (forall o, o_active (f o) = o_active o) ->
  same_shape s (set_objs s (upd_obj b f (objs s))).
Proof.
  intros. unfold same_shape, obj_ids, act_ids, pend_ids. simpl.
  rewrite ids_upd, acts_upd_same; auto. repeat split.
Qed.

Lemma expire_ids : forall t l, map p_b (map (expire t) l) = map p_b l.
Proof.
  intros. rewrite map_map. apply map_ext. intro p. unfold expire.
  destruct (negb (p_aband p) && (p_deadline p <=? t)); reflexivity.
Qed.

(* ====================================================================================== *)
(* settle                                                                                 *)
(* ====================================================================================== *)

Lemma is_holder_In : forall b l, is_holder b l = true <-> In b (holders l).
Proof. intros. apply mem_In. Qed.

Lemma settle_inv : forall cfg fuel s, inv s -> inv (fst (settle cfg fuel s)).
Proof.
  induction fuel; simpl; intros s I. assumption.
  destruct (find (fun p => is_holder (p_b p) (lk s)) (pends s)) as [p|] eqn:F; simpl; auto.
  apply find_some in F. destruct F as [Hp Hh]. apply is_holder_In in Hh.
  destruct (p_aband p).
  - apply IHfuel. apply zombie_inv; auto. apply in_map. assumption.
  - simpl. apply IHfuel. apply register_inv; auto.
Qed.

Lemma filter_len : forall {A} (f : A -> bool) l, (length (filter f l) <= length l)%nat.
Proof. induction l; simpl; auto. destruct (f a); simpl; lia. Qed.

Lemma drop_pend_length : forall p l, In p l -> (length (drop_pend (p_b p) l) < length l)%nat.
Proof.
  induction l; simpl; intros. destruct H.
  destruct (N.eqb_spec (p_b a) (p_b p)); simpl.
  - unfold drop_pend. pose proof (filter_len (fun p0 => negb (p_b p0 =? p_b p)) l). lia.
  - destruct H. subst. congruence. apply IHl in H. lia.
Qed.

Lemma finish_pends : forall b s, pends (finish_obj b s) = pends s.
Proof. intros. unfold finish_obj. destruct (is_active b s); reflexivity. Qed.

Lemma settle_settled : forall cfg fuel s, (length (pends s) <= fuel)%nat ->
  settled (fst (settle cfg fuel s)).
Proof.
  induction fuel; simpl; intros s L.
  - destruct (pends s) eqn:E; simpl in L; try lia. intros b Hb. unfold pend_ids in Hb. rewrite E in Hb. destruct Hb.
  - destruct (find (fun p => is_holder (p_b p) (lk s)) (pends s)) as [p|] eqn:F; simpl.
    + apply find_some in F. destruct F as [Hp Hh].
      pose proof (drop_pend_length p (pends s) Hp).
      destruct (p_aband p); simpl; apply IHfuel.
      * rewrite finish_pends. simpl. lia.
      * simpl. lia.
    + intros b Hb Hc. apply in_map_iff in Hb. destruct Hb as [p [Hb Hp]].
      eapply find_none in F. 2: exact Hp. simpl in F. subst. apply is_holder_In in Hc. congruence.
Qed.

Lemma settle_all_Inv : forall cfg s, inv s -> Inv (fst (settle_all cfg s)).
Proof.
  intros. split. apply settle_inv; auto. apply settle_settled. unfold settle_all. lia.
Qed.

(* a settled state is a fixed point *)
Lemma settle_fix : forall cfg fuel s, settled s -> settle cfg fuel s = (s, []).
Proof.
  intros cfg fuel s S. destruct fuel; simpl; auto.
  destruct (find (fun p => is_holder (p_b p) (lk s)) (pends s)) as [p|] eqn:F; auto.
  apply find_some in F. destruct F as [Hp Hh]. apply is_holder_In in Hh.
  exfalso. apply (S (p_b p)); auto. apply in_map. assumption.
Qed.

(* ====================================================================================== *)
(* cleanup                                                                                *)
(* ====================================================================================== *)

Lemma finish_reg : forall b s, reg (finish_obj b s) = reg s.
Proof. intros. unfold finish_obj. destruct (is_active b s); reflexivity. Qed.

Lemma finish_deact : forall b s, is_active b (finish_obj b s) = false.
Proof.
  intros. unfold finish_obj. destruct (is_active b s) eqn:A; auto.
  apply is_active_nIn. unfold act_ids. simpl. rewrite acts_deact. tauto.
Qed.

Lemma finish_active_other : forall b x s, x <> b -> is_active x (finish_obj b s) = is_active x s.
Proof.
  intros. unfold finish_obj. destruct (is_active b s) eqn:A; auto.
  destruct (is_active x s) eqn:B.
  - apply is_active_In. apply is_active_In in B. unfold act_ids in *. simpl. apply acts_deact. tauto.
  - apply is_active_nIn. apply is_active_nIn in B. unfold act_ids in *. simpl. rewrite acts_deact. tauto.
Qed.

Lemma finish_active_mono : forall b x s, is_active x s = false -> is_active x (finish_obj b s) = false.
Proof.
  intros. destruct (N.eq_dec x b). subst. apply finish_deact. rewrite finish_active_other; auto.
Qed.

Lemma NoDup_map_inj : forall {A} (f : A -> N) l x y, NoDup (map f l) -> In x l -> In y l -> f x = f y -> x = y.
Proof.
  induction l; simpl; intros. destruct H0. inversion H; subst.
  destruct H0, H1; subst; auto.
  - exfalso. apply H5. rewrite H2. apply in_map. assumption.
  - exfalso. apply H5. rewrite <- H2. apply in_map. assumption.
Qed.

Lemma purge_inv : forall s r, inv s -> In r (reg s) -> inv (purge s r).
Proof.
  intros s r I Hr. unfold purge. apply reg_remove_inv.
  - apply finish_inv; auto. intros _. apply in_map. assumption.
  - intros r' Hr' He. rewrite finish_reg in Hr'.
    assert (r' = r). { eapply NoDup_map_inj. apply (i_rind s (proj1 I)). all: auto. }
    subst. apply finish_deact.
Qed.

Lemma purge_reg : forall s r, reg (purge s r) = filter (fun x => negb (r_id x =? r_id r)) (reg s).
Proof. intros. unfold purge, reg_remove. simpl. rewrite finish_reg. reflexivity. Qed.

Lemma fold_purge_inv : forall l s, inv s -> NoDup (map r_id l) -> incl l (reg s) ->
  inv (fold_left purge l s).
Proof.
  induction l; simpl; intros s I Hn Hi. assumption.
  inversion Hn; subst. apply IHl; auto.
  - apply purge_inv; auto. apply Hi. simpl. tauto.
  - intros x Hx. rewrite purge_reg. apply filter_In. split. apply Hi. simpl. tauto.
    apply negb_true_iff, N.eqb_neq. intro He. apply H1. rewrite <- He. apply in_map. assumption.
Qed.

Lemma stale_Inv : forall cfg s, inv s -> Inv (fst (stale cfg s)).
Proof.
  intros. unfold stale. apply settle_all_Inv. apply fold_purge_inv; auto.
  - apply NoDup_map_filter. apply (i_rind s (proj1 H)).
  - intros x Hx. apply filter_In in Hx. tauto.
Qed.

Lemma clean_conn_Inv : forall cfg c s, inv s -> Inv (fst (clean_conn cfg c s)).
Proof.
  intros. unfold clean_conn. apply settle_all_Inv. apply fold_purge_inv; auto.
  - apply NoDup_map_filter. apply (i_rind s (proj1 H)).
  - intros x Hx. apply filter_In in Hx. tauto.
Qed.

Lemma shutdown_Inv : forall cfg s, Inv s -> Inv (fst (shutdown cfg s)).
Proof.
  intros cfg s [I S]. unfold shutdown. destruct (shutdown_panics s); simpl. split; assumption.
  apply settle_all_Inv. apply fold_purge_inv.
  - eapply shape_inv. 2: exact I. repeat split.
  - simpl. apply (i_rind s (proj1 I)).
  - simpl. apply incl_refl.
Qed.

(* ====================================================================================== *)
(* operations on one transaction                                                          *)
(* ====================================================================================== *)

Lemma tx_get_shape : forall c b k s, same_shape s (fst (tx_get c b k s)).
Proof.
  intros. unfold tx_get. destruct (get_obj b s); simpl; try apply shape_refl.
  destruct (o_active o); simpl; try apply shape_refl.
  destruct (buf_get k (o_buf o)); simpl; apply shape_upd; auto.
Qed.

Lemma tx_write_shape : forall c b k v s, same_shape s (fst (tx_write c b k v s)).
Proof.
  intros. unfold tx_write. destruct (get_obj b s); simpl; try apply shape_refl.
  destruct (o_active o); simpl; try apply shape_refl.
  destruct (o_ro o); simpl; apply shape_upd; auto.
Qed.

(* whoever can name an active object finds it registered: handles are only given out on
   registration, and (hypothesis of the step relation) nobody removes a live entry *)
Lemma handle_active_reg : forall s c id b, inv s -> In (c, (id, b)) (handles s) ->
  is_active b s = true -> In b (reg_bs s).
Proof.
  intros s c id b [I O] Hc A. destruct (i_hand s I c id b Hc) as [_ [_ [Hp _]]].
  apply is_active_In in A. apply (i_act s I) in A. destruct (O b A); tauto.
Qed.

Lemma tx_commit_Inv : forall cfg c b s, Inv s -> (is_active b s = true -> In b (reg_bs s)) ->
  Inv (fst (tx_commit cfg c b s)).
Proof.
  intros cfg c b s [I S] Hr. unfold tx_commit.
  destruct (get_obj b s) as [o|] eqn:G; simpl; [| split; assumption].
  destruct (o_active o) eqn:A; simpl; [| split; assumption].
  apply settle_all_Inv. apply finish_inv.
  - eapply shape_inv. 2: exact I.
    destruct (negb (o_ro o) && negb (is_nil (o_buf o))); [destruct (fail_next s)|]; repeat split.
  - intro Ha. assert (is_active b s = true).
    { rewrite <- Ha. unfold is_active.
      destruct (negb (o_ro o) && negb (is_nil (o_buf o))); [destruct (fail_next s)|]; reflexivity. }
    apply Hr in H.
    destruct (negb (o_ro o) && negb (is_nil (o_buf o))); [destruct (fail_next s)|]; exact H.
Qed.

Lemma tx_rollback_Inv : forall cfg c b s, Inv s -> (is_active b s = true -> In b (reg_bs s)) ->
  Inv (fst (tx_rollback cfg c b s)).
Proof.
  intros cfg c b s [I S] Hr. unfold tx_rollback.
  destruct (is_active b s) eqn:A; simpl; [| split; assumption].
  apply settle_all_Inv. apply finish_inv.
  - eapply shape_inv. 2: exact I. apply shape_upd; auto.
  - intros _. simpl. apply Hr. reflexivity.
Qed.

(* ====================================================================================== *)
(* monotone facts about settle                                                            *)
(* ====================================================================================== *)

Lemma finish_next_id : forall b s, next_id (finish_obj b s) = next_id s.
Proof. intros. unfold finish_obj. destruct (is_active b s); reflexivity. Qed.

Lemma settle_active_mono : forall cfg fuel s x, is_active x s = false ->
  is_active x (fst (settle cfg fuel s)) = false.
Proof.
  induction fuel; simpl; intros; auto.
  destruct (find (fun p => is_holder (p_b p) (lk s)) (pends s)) as [p|]; simpl; auto.
  destruct (p_aband p); simpl; apply IHfuel.
  - apply finish_active_mono. exact H.
  - exact H.
Qed.

Lemma settle_reg_new : forall cfg fuel s r, In r (reg (fst (settle cfg fuel s))) ->
  In r (reg s) \/ next_id s < r_id r.
Proof.
  induction fuel; simpl; intros; auto.
  destruct (find (fun p => is_holder (p_b p) (lk s)) (pends s)) as [p|]; simpl in *; auto.
  destruct (p_aband p); simpl in *.
  - apply IHfuel in H. rewrite finish_reg, finish_next_id in H. simpl in H. exact H.
  - apply IHfuel in H. simpl in H. rewrite in_app_iff in H. simpl in H.
    destruct H as [[H | [H | []]] | H]; auto. subst. simpl. right. lia. right. lia.
Qed.

Lemma settle_db : forall cfg fuel s, db (fst (settle cfg fuel s)) = db s.
Proof.
  induction fuel; simpl; intros; auto.
  destruct (find (fun p => is_holder (p_b p) (lk s)) (pends s)) as [p|]; simpl; auto.
  destruct (p_aband p); simpl; rewrite IHfuel; auto.
  unfold finish_obj. destruct (is_active _ _); reflexivity.
Qed.

Lemma handle_of_In : forall c s id b, handle_of c s = Some (id, b) -> In (c, (id, b)) (handles s).
Proof.
  unfold handle_of. intros. destruct (find (fun x => fst x =? c) (handles s)) as [[c' h]|] eqn:F; [| discriminate].
  apply find_some in F. destruct F as [F1 F2]. simpl in F2. apply N.eqb_eq in F2. inversion H; subst. exact F1.
Qed.

Lemma registered_In : forall id s, registered id s = true -> exists r, In r (reg s) /\ r_id r = id.
Proof.
  unfold registered. intros. apply existsb_exists in H. destruct H as [r [Hr He]].
  apply N.eqb_eq in He. eauto.
Qed.

Lemma handle_reg_b : forall s c id b, inv s -> handle_of c s = Some (id, b) -> registered id s = true ->
  In b (reg_bs s).
Proof.
  intros s c id b [I O] Hh Hr. apply handle_of_In in Hh. apply registered_In in Hr.
  destruct Hr as [r [Hr He]]. destruct (i_hand s I c id b Hh) as [_ [_ [_ H4]]].
  rewrite <- (proj1 (H4 r Hr) He). apply in_map. assumption.
Qed.

(* ====================================================================================== *)
(* every event preserves the invariant                                                    *)
(* ====================================================================================== *)

(* the one thing an embedding server must not do: drop a live transaction from the registry
   (the service removes an entry only after Commit/Rollback) *)
Definition ev_ok (s : state) (e : event) : Prop :=
  match e with
  | ERemove c => match handle_of c s with Some (_, b) => is_active b s = false | None => True end
  | _ => True
  end.

Lemma reg_remove_settled : forall id s, settled s -> settled (reg_remove id s).
Proof. intros id s S b. apply S. Qed.

Lemma commit_deact : forall cfg c b s, NoDup (obj_ids s) ->
  is_active b (fst (tx_commit cfg c b s)) = false.
Proof.
  intros cfg c b s Hn. unfold tx_commit. destruct (get_obj b s) as [o|] eqn:G; simpl.
  - pose proof (get_obj_active b s o Hn G) as E. destruct (o_active o) eqn:A; simpl.
    + apply settle_active_mono. apply finish_deact.
    + exact E.
  - apply get_obj_none. assumption.
Qed.

Lemma rollback_deact : forall cfg c b s, is_active b (fst (tx_rollback cfg c b s)) = false.
Proof.
  intros. unfold tx_rollback. destruct (is_active b s) eqn:A; simpl; auto.
  apply settle_active_mono. apply finish_deact.
Qed.

(* after a step of the model that ran `settle_all`, entries with an old id are old entries *)
Lemma commit_reg_old : forall cfg c b s r, In r (reg (fst (tx_commit cfg c b s))) ->
  In r (reg s) \/ next_id s < r_id r.
Proof.
  intros cfg c b s r. unfold tx_commit. destruct (get_obj b s) as [o|]; simpl; auto.
  destruct (o_active o); simpl; auto. intro H. apply settle_reg_new in H.
  rewrite finish_reg, finish_next_id in H.
  destruct (negb (o_ro o) && negb (is_nil (o_buf o))); [destruct (fail_next s)|]; exact H.
Qed.

Lemma rollback_reg_old : forall cfg c b s r, In r (reg (fst (tx_rollback cfg c b s))) ->
  In r (reg s) \/ next_id s < r_id r.
Proof.
  intros cfg c b s r. unfold tx_rollback. destruct (is_active b s); simpl; auto.
  intro H. apply settle_reg_new in H. rewrite finish_reg, finish_next_id in H. exact H.
Qed.

Lemma svc_remove_Inv : forall s s' c id b,
  Inv s -> handle_of c s = Some (id, b) -> Inv s' ->
  is_active b s' = false ->
  (forall r, In r (reg s') -> In r (reg s) \/ next_id s < r_id r) ->
  Inv (reg_remove id s').
Proof.
  intros s s' c id b [[I O] S] Hh [I' S'] Hd Hold. split; [| apply reg_remove_settled; assumption].
  apply reg_remove_inv; auto. intros r Hr He.
  apply handle_of_In in Hh. destruct (i_hand s I c id b Hh) as [H1 [_ [_ H4]]].
  destruct (Hold r Hr) as [Ho | Hn].
  - rewrite (proj1 (H4 r Ho) He). exact Hd.
  - lia.
Qed.

(* a one-shot service call (BatchWrite) begins, uses and ends its own transaction inside the
   event: at rest it has changed nothing but the data and the injected-failure flag *)
Lemma oneshot_frame : forall cfg s c valid k v,
  let s' := fst (step cfg s (EOneShot c valid k v)) in
  lk s' = lk s /\ reg s' = reg s /\ objs s' = objs s /\ pends s' = pends s /\ handles s' = handles s /\
  next_id s' = next_id s /\ next_b s' = next_b s /\ now s' = now s /\ stopped s' = stopped s.
Proof.
  intros. subst s'. simpl.
  destruct (is_nil (lock_ids (lk s))); [destruct valid; [destruct (fail_next s)|]|]; simpl; repeat split.
Qed.

Lemma oneshot_shape : forall cfg s c valid k v, same_shape s (fst (step cfg s (EOneShot c valid k v))).
Proof.
  intros. destruct (oneshot_frame cfg s c valid k v) as [E1 [E2 [E3 [E4 [E5 [E6 [E7 _]]]]]]].
  unfold same_shape, obj_ids, act_ids, pend_ids. rewrite E1, E2, E3, E4, E5, E6, E7. repeat split.
Qed.

Theorem step_Inv : forall cfg s e, Inv s -> ev_ok s e -> Inv (fst (step cfg s e)).
Proof.
  intros cfg s e IS Hok. pose proof IS as [I S]. destruct e; simpl.
  - (* Begin *)
    unfold begin_tx. destruct (has_pending c s); simpl; auto.
    assert (I0 : Inv (fst (if c_svc cfg then stale cfg s else (s, [])))).
    { destruct (c_svc cfg); simpl; auto. apply stale_Inv; auto. }
    destruct (is_pending_b _ _); simpl; apply settle_all_Inv; apply begin_core_inv; apply I0.
  - (* Get *)
    unfold with_handle. destruct (handle_of c s) as [[id b]|]; simpl; auto.
    destruct (registered id s); simpl; auto.
    destruct (c_svc cfg); [destruct (k =? 0)|]; simpl; auto;
      eapply shape_Inv; try apply tx_get_shape; auto.
  - (* Put *)
    unfold with_handle. destruct (handle_of c s) as [[id b]|]; simpl; auto.
    destruct (registered id s); simpl; auto.
    destruct (c_svc cfg); [destruct (obj_ro b s); [| destruct (k =? 0)]|]; simpl; auto;
      eapply shape_Inv; try apply tx_write_shape; auto.
  - (* Delete *)
    unfold with_handle. destruct (handle_of c s) as [[id b]|]; simpl; auto.
    destruct (registered id s); simpl; auto.
    destruct (c_svc cfg); [destruct (obj_ro b s); [| destruct (k =? 0)]|]; simpl; auto;
      eapply shape_Inv; try apply tx_write_shape; auto.
  - (* Commit by handle *)
    unfold with_handle. destruct (handle_of c s) as [[id b]|] eqn:Hh; simpl; auto.
    destruct (registered id s) eqn:Hr; simpl; auto.
    assert (Hb : In b (reg_bs s)) by (eapply handle_reg_b; eauto).
    assert (IC : Inv (fst (tx_commit cfg c b s))) by (apply tx_commit_Inv; auto).
    destruct (c_svc cfg); simpl; auto.
    apply (svc_remove_Inv s _ c id b); auto.
    + apply commit_deact. apply (i_objnd s (proj1 I)).
    + intros r. apply commit_reg_old.
  - (* Rollback by handle *)
    unfold with_handle. destruct (handle_of c s) as [[id b]|] eqn:Hh; simpl; auto.
    destruct (registered id s) eqn:Hr; simpl; auto.
    assert (Hb : In b (reg_bs s)) by (eapply handle_reg_b; eauto).
    assert (IC : Inv (fst (tx_rollback cfg c b s))) by (apply tx_rollback_Inv; auto).
    destruct (c_svc cfg); simpl; auto.
    apply (svc_remove_Inv s _ c id b); auto.
    + apply rollback_deact.
    + intros r. apply rollback_reg_old.
  - (* object path *)
    destruct (handle_of c s) as [[id b]|]; simpl; auto. eapply shape_Inv; try apply tx_get_shape; auto.
  - destruct (handle_of c s) as [[id b]|]; simpl; auto. eapply shape_Inv; try apply tx_write_shape; auto.
  - destruct (handle_of c s) as [[id b]|]; simpl; auto. eapply shape_Inv; try apply tx_write_shape; auto.
  - destruct (handle_of c s) as [[id b]|] eqn:Hh; simpl; auto. apply tx_commit_Inv; auto.
    intro A. eapply handle_active_reg; eauto. apply handle_of_In. eassumption.
  - destruct (handle_of c s) as [[id b]|] eqn:Hh; simpl; auto. apply tx_rollback_Inv; auto.
    intro A. eapply handle_active_reg; eauto. apply handle_of_In. eassumption.
  - (* Remove *)
    simpl in Hok. destruct (handle_of c s) as [[id b]|] eqn:Hh; simpl; auto.
    split; [| apply reg_remove_settled; assumption].
    apply reg_remove_inv; auto. intros r Hr He.
    apply handle_of_In in Hh. destruct (i_hand s (proj1 I) c id b Hh) as [_ [_ [_ H4]]].
    rewrite (proj1 (H4 r Hr) He). exact Hok.
  - (* Tick *)
    eapply shape_Inv. 2: exact IS. unfold same_shape, obj_ids, act_ids, pend_ids. simpl.
    rewrite expire_ids. repeat split.
  - apply stale_Inv; auto.
  - apply clean_conn_Inv; auto.
  - apply shutdown_Inv; auto.
  - eapply shape_Inv. 2: exact IS. repeat split.
  - (* one-shot service call *)
    exact (shape_Inv _ _ (oneshot_shape cfg s c valid k v) IS).
Qed.

(* ====================================================================================== *)
(* reachable states                                                                       *)
(* ====================================================================================== *)

Inductive reachable (cfg : config) : state -> Prop :=
| reach_init : reachable cfg init
| reach_step : forall s e, reachable cfg s -> ev_ok s e -> reachable cfg (fst (step cfg s e)).

Lemma reachable_Inv : forall cfg s, reachable cfg s -> Inv s.
Proof. induction 1. apply init_Inv. apply step_Inv; assumption. Qed.

(* ---------- lock balance ---------- *)

(* who holds the lock = exactly the active transactions that are registered; who waits =
   exactly the Begins whose creating goroutine has not handed over *)
Theorem lock_balance : forall cfg s, reachable cfg s ->
  (forall b, In b (holders (lk s)) <-> In b (act_ids s) /\ In b (reg_bs s)) /\
  (forall b, In b (lock_ids (lk s)) /\ ~ In b (holders (lk s)) <-> In b (pend_ids s)).
Proof.
  intros cfg s R. destruct (reachable_Inv cfg s R) as [[I O] S]. split; intro b; split.
  - intro H. pose proof (holders_sub _ _ H) as Hl. split. apply (i_act s I). assumption.
    destruct (O b Hl); auto. exfalso. apply (S b); assumption.
  - intros [Ha Hr]. apply reg_active_holds; auto.
  - intros [Hl Hn]. apply (i_wait s I); assumption.
  - intro Hp. split. apply (i_plock s I). assumption. apply S. assumption.
Qed.

Example lock_balance_nonvacuous :
  let cfg := mkConfig 300 1300 900 10000 false true in
  let s := fst (run cfg init [EBegin 1 true 0; EBegin 2 false 500; EBegin 3 true 500]) in
  holders (lk s) = [0] /\ reg_bs s = [0] /\ pend_ids s = [1; 2] /\ lock_ids (lk s) = [1; 0; 2].
Proof. vm_compute. repeat split. Qed.

(* ---------- no leak ---------- *)

Definition all_finished (s : state) : Prop := forall r, In r (reg s) -> is_active (r_b r) s = false.

Lemma quiet_free : forall cfg s, reachable cfg s -> all_finished s ->
  lock_ids (lk s) = [] /\ pends s = [].
Proof.
  intros cfg s R F. destruct (reachable_Inv cfg s R) as [[I O] S].
  assert (H : holders (lk s) = []).
  { destruct (holders (lk s)) as [|b t] eqn:E; auto. exfalso.
    assert (Hb : In b (holders (lk s))) by (rewrite E; simpl; tauto).
    pose proof (holders_sub _ _ Hb) as Hl. destruct (O b Hl) as [Hp | Hr].
    - apply (S b); assumption.
    - apply in_map_iff in Hr. destruct Hr as [r [Hr Hi]]. apply F in Hi. rewrite Hr in Hi.
      apply (i_act s I) in Hl. apply is_active_In in Hl. congruence. }
  assert (L : lock_ids (lk s) = []) by (apply lock_free; auto; apply (i_wf s I)).
  split; auto.
  destruct (pends s) as [|p t] eqn:E; auto. exfalso.
  assert (Hp : In (p_b p) (pend_ids s)) by (unfold pend_ids; rewrite E; simpl; tauto).
  apply (i_plock s I) in Hp. rewrite L in Hp. destruct Hp.
Qed.

Lemma fold_purge_quiet : forall l s, (forall r, In r l -> is_active (r_b r) s = false) ->
  let s' := fold_left purge l s in
  lk s' = lk s /\ pends s' = pends s /\ objs s' = objs s /\ next_b s' = next_b s /\
  next_id s' = next_id s /\ incl (reg s') (reg s).
Proof.
  induction l; simpl; intros s F. repeat split; auto. apply incl_refl.
  assert (Ha : is_active (r_b a) s = false) by (apply F; tauto).
  assert (E : purge s a = reg_remove (r_id a) s) by (unfold purge; rewrite finish_inactive; auto).
  rewrite E.
  destruct (IHl (reg_remove (r_id a) s)) as [H1 [H2 [H3 [H4 [H5 H6]]]]].
  - intros r Hr. unfold is_active. simpl. apply F. tauto.
  - simpl in *. repeat split; auto. intros x Hx. apply H6 in Hx. apply filter_In in Hx. tauto.
Qed.

Lemma stale_quiet : forall cfg s, all_finished s -> pends s = [] ->
  let s' := fst (stale cfg s) in
  lk s' = lk s /\ pends s' = [] /\ objs s' = objs s /\ next_b s' = next_b s /\
  snd (stale cfg s) = [].
Proof.
  intros cfg s F P. unfold stale, settle_all.
  destruct (fold_purge_quiet (filter (is_stale cfg s) (reg s)) s) as [H1 [H2 [H3 [H4 [H5 H6]]]]].
  - intros r Hr. apply filter_In in Hr. apply F. tauto.
  - rewrite H2, P. simpl. rewrite H2, P. repeat split; auto.
Qed.

Lemma settle_one : forall cfg s p, pends s = [p] -> is_holder (p_b p) (lk s) = true ->
  p_aband p = false -> pends (fst (settle cfg 1 s)) = [].
Proof.
  intros. simpl. rewrite H. simpl. rewrite H0, H1. simpl. rewrite N.eqb_refl. reflexivity.
Qed.

(* once every transaction the registry knows has ended (by its client, or by any cleanup), the
   lock is free, nobody waits, and a fresh Begin of either kind is granted at once *)
Theorem no_leak : forall cfg s, reachable cfg s -> all_finished s ->
  lock_ids (lk s) = [] /\ pends s = [] /\
  forall c ro d, In (OBegin c ROk) (snd (step cfg s (EBegin c ro d))).
Proof.
  intros cfg s R F. destruct (quiet_free cfg s R F) as [L P]. split; auto. split; auto.
  intros c ro d. simpl. unfold begin_tx.
  assert (Hp : has_pending c s = false) by (unfold has_pending; rewrite P; reflexivity).
  rewrite Hp.
  set (r0 := if c_svc cfg then stale cfg s else (s, [])).
  assert (Q : lk (fst r0) = lk s /\ pends (fst r0) = [] /\ lock_wf (lk (fst r0))).
  { destruct (reachable_Inv cfg s R) as [[I O] S]. unfold r0. destruct (c_svc cfg); simpl.
    - destruct (stale_quiet cfg s F P) as [H1 [H2 _]]. rewrite H1. split; [|split]; auto. apply (i_wf s I).
    - split; [|split]; auto. apply (i_wf s I). }
  destruct Q as [Q1 [Q2 Q3]].
  assert (G : is_pending_b (next_b (fst r0)) (fst (settle_all cfg (begin_core cfg c ro d (fst r0)))) = false).
  { assert (Hh : is_holder (next_b (fst r0)) (acquire ro (next_b (fst r0)) (lk (fst r0))) = true).
    { apply is_holder_In. apply acquire_free; auto. rewrite Q1. exact L. }
    unfold settle_all, is_pending_b.
    assert (E : pends (begin_core cfg c ro d (fst r0)) =
                [mkPend (next_b (fst r0)) c (now (fst r0) + (if d =? 0 then c_btimeout cfg else N.min d (c_btimeout cfg))) false]).
    { unfold begin_core. simpl. rewrite Q2. reflexivity. }
    rewrite E. simpl length. erewrite settle_one; eauto. }
  rewrite G. simpl. apply in_app_iff. right. simpl. tauto.
Qed.

Example no_leak_nonvacuous :
  let cfg := mkConfig 300 1300 900 10000 true false in
  let s := fst (run cfg init [EBegin 1 false 0; EPut 1 1 5; EBegin 2 true 500; ECommit 1; ERollback 2]) in
  all_finished s /\ db s = [(1, 5)] /\ lock_state s = LFree.
Proof. vm_compute. split. intros r []. split; reflexivity. Qed.

(* ====================================================================================== *)
(* finish once                                                                            *)
(* ====================================================================================== *)

Lemma get_obj_inactive : forall b s, NoDup (obj_ids s) -> is_active b s = false ->
  match get_obj b s with Some o => o_active o = false | None => True end.
Proof.
  intros. destruct (get_obj b s) eqn:G; auto. rewrite <- (get_obj_active b s o H G). assumption.
Qed.

Lemma tx_get_closed : forall c b k s, NoDup (obj_ids s) -> is_active b s = false ->
  tx_get c b k s = (s, [OGet c RClosed None]).
Proof.
  intros. unfold tx_get. pose proof (get_obj_inactive b s H H0). destruct (get_obj b s); auto.
  rewrite H1. reflexivity.
Qed.

Lemma tx_write_closed : forall c b k v s, NoDup (obj_ids s) -> is_active b s = false ->
  tx_write c b k v s = (s, [ORes c RClosed]).
Proof.
  intros. unfold tx_write. pose proof (get_obj_inactive b s H H0). destruct (get_obj b s); auto.
  rewrite H1. reflexivity.
Qed.

Lemma tx_commit_closed : forall cfg c b s, NoDup (obj_ids s) -> is_active b s = false ->
  tx_commit cfg c b s = (s, [ORes c RClosed]).
Proof.
  intros. unfold tx_commit. pose proof (get_obj_inactive b s H H0). destruct (get_obj b s); auto.
  rewrite H1. reflexivity.
Qed.

Lemma tx_rollback_closed : forall cfg c b s, is_active b s = false ->
  tx_rollback cfg c b s = (s, [ORes c RClosed]).
Proof. intros. unfold tx_rollback. rewrite H. reflexivity. Qed.

(* the calls a client can make on its transaction *)
Definition tx_op (c : N) (e : event) : Prop :=
  match e with
  | EGet c' _ | EPut c' _ _ | EDel c' _ | ECommit c' | ERollback c'
  | EOGet c' _ | EOPut c' _ _ | EODel c' _ | EOCommit c' | EORollback c' => c' = c
  | _ => False
  end.

Definition finish_op (c : N) (e : event) : Prop :=
  match e with
  | ECommit c' | ERollback c' | EOCommit c' | EORollback c' => c' = c
  | _ => False
  end.

(* the answers that mean "this transaction is over": ErrTransactionClosed, "transaction not
   found"; through the service additionally its own argument checks, and a read whose closed
   error the service reports as "not found" *)
Definition refused (svc : bool) (o : out) : Prop :=
  match o with
  | ORes _ r => r = RClosed \/ r = RNotFound \/ (svc = true /\ (r = RReadOnly \/ r = RInvalid))
  | OGet _ r v => r = RClosed \/ r = RNotFound \/ (svc = true /\ (r = RInvalid \/ (r = ROk /\ v = None)))
  | _ => False
  end.

Definition untouched (s s' : state) : Prop :=
  db s' = db s /\ lk s' = lk s /\ objs s' = objs s /\ pends s' = pends s /\ now s' = now s.

Theorem ended_refused : forall cfg s c e id b,
  NoDup (obj_ids s) -> tx_op c e -> handle_of c s = Some (id, b) -> is_active b s = false ->
  (forall o, In o (snd (step cfg s e)) -> refused (c_svc cfg) o) /\ untouched s (fst (step cfg s e)).
Proof.
  intros cfg s c e id b Hn Hop Hh Ha.
  assert (U : untouched s s) by (repeat split).
  destruct e; simpl in Hop; try contradiction; subst; simpl; unfold with_handle; rewrite Hh.
  - (* Get *)
    destruct (registered id s); simpl.
    + destruct (c_svc cfg) eqn:V; [destruct (k =? 0)|]; simpl.
      * split; auto. intros o [Ho | []]. subst. simpl. tauto.
      * rewrite tx_get_closed; auto. simpl. split; auto. intros o [Ho | []]. subst. simpl. tauto.
      * rewrite tx_get_closed; auto. simpl. split; auto. intros o [Ho | []]. subst. simpl. tauto.
    + split; auto. intros o [Ho | []]. subst. simpl. tauto.
  - (* Put *)
    destruct (registered id s); simpl.
    + destruct (c_svc cfg) eqn:V; [destruct (obj_ro b s); [| destruct (k =? 0)]|]; simpl.
      * split; auto. intros o [Ho | []]. subst. simpl. tauto.
      * split; auto. intros o [Ho | []]. subst. simpl. tauto.
      * rewrite tx_write_closed; auto. simpl. split; auto. intros o [Ho | []]. subst. simpl. tauto.
      * rewrite tx_write_closed; auto. simpl. split; auto. intros o [Ho | []]. subst. simpl. tauto.
    + split; auto. intros o [Ho | []]. subst. simpl. tauto.
  - (* Delete *)
    destruct (registered id s); simpl.
    + destruct (c_svc cfg) eqn:V; [destruct (obj_ro b s); [| destruct (k =? 0)]|]; simpl.
      * split; auto. intros o [Ho | []]. subst. simpl. tauto.
      * split; auto. intros o [Ho | []]. subst. simpl. tauto.
      * rewrite tx_write_closed; auto. simpl. split; auto. intros o [Ho | []]. subst. simpl. tauto.
      * rewrite tx_write_closed; auto. simpl. split; auto. intros o [Ho | []]. subst. simpl. tauto.
    + split; auto. intros o [Ho | []]. subst. simpl. tauto.
  - (* Commit *)
    destruct (registered id s); simpl.
    + rewrite tx_commit_closed; auto. destruct (c_svc cfg); simpl; split; auto;
        intros o [Ho | []]; subst; simpl; tauto.
    + split; auto. intros o [Ho | []]. subst. simpl. tauto.
  - (* Rollback *)
    destruct (registered id s); simpl.
    + rewrite tx_rollback_closed; auto. destruct (c_svc cfg); simpl; split; auto;
        intros o [Ho | []]; subst; simpl; tauto.
    + split; auto. intros o [Ho | []]. subst. simpl. tauto.
  - rewrite tx_get_closed; auto. simpl. split; auto. intros o [Ho | []]. subst. simpl. tauto.
  - rewrite tx_write_closed; auto. simpl. split; auto. intros o [Ho | []]. subst. simpl. tauto.
  - rewrite tx_write_closed; auto. simpl. split; auto. intros o [Ho | []]. subst. simpl. tauto.
  - rewrite tx_commit_closed; auto. simpl. split; auto. intros o [Ho | []]. subst. simpl. tauto.
  - rewrite tx_rollback_closed; auto. simpl. split; auto. intros o [Ho | []]. subst. simpl. tauto.
Qed.

(* Commit / Rollback leave the transaction closed, whatever they answer *)
Theorem finish_closes : forall cfg s c e id b,
  Inv s -> handle_of c s = Some (id, b) -> finish_op c e ->
  is_active b (fst (step cfg s e)) = false.
Proof.
  intros cfg s c e id b [[I O] S] Hh Hop.
  assert (Hn : NoDup (obj_ids s)) by apply (i_objnd s I).
  assert (Hu : registered id s = false -> is_active b s = false).
  { intro Hr. destruct (is_active b s) eqn:A; auto. exfalso.
    pose proof (handle_active_reg s c id b (conj I O) (handle_of_In _ _ _ _ Hh) A) as Hb.
    apply in_map_iff in Hb. destruct Hb as [r [Hb Hi]].
    destruct (i_hand s I c id b (handle_of_In _ _ _ _ Hh)) as [_ [_ [_ H4]]].
    apply (H4 r Hi) in Hb. unfold registered in Hr.
    assert (existsb (fun r0 => r_id r0 =? id) (reg s) = true).
    { apply existsb_exists. exists r. split; auto. apply N.eqb_eq. assumption. }
    congruence. }
  destruct e; simpl in Hop; try contradiction; subst; simpl; unfold with_handle; rewrite Hh.
  - destruct (registered id s) eqn:Hr; simpl; auto.
    destruct (c_svc cfg); simpl; [change (is_active b (reg_remove id ?x)) with (is_active b x)|];
      apply commit_deact; auto.
  - destruct (registered id s) eqn:Hr; simpl; auto.
    destruct (c_svc cfg); simpl; apply rollback_deact.
  - apply commit_deact; auto.
  - apply rollback_deact.
Qed.

(* ---------- closed stays closed ---------- *)

Definition ended (x : N) (s : state) : Prop := is_active x s = false /\ x < next_b s.

Lemma settle_next_b : forall cfg fuel s, next_b (fst (settle cfg fuel s)) = next_b s.
Proof.
  induction fuel; simpl; intros; auto.
  destruct (find (fun p => is_holder (p_b p) (lk s)) (pends s)) as [p|]; simpl; auto.
  destruct (p_aband p); simpl; rewrite IHfuel; auto.
  unfold finish_obj. destruct (is_active _ _); reflexivity.
Qed.

Lemma settle_ended : forall cfg s x, ended x s -> ended x (fst (settle_all cfg s)).
Proof.
  intros cfg s x [A B]. unfold settle_all. split. apply settle_active_mono; auto.
  rewrite settle_next_b. assumption.
Qed.

Lemma finish_ended : forall b s x, ended x s -> ended x (finish_obj b s).
Proof.
  intros b s x [A B]. split. apply finish_active_mono; auto.
  unfold finish_obj. destruct (is_active b s); auto.
Qed.

Lemma fold_purge_ended : forall l s x, ended x s -> ended x (fold_left purge l s).
Proof.
  induction l; simpl; intros; auto. apply IHl. unfold purge.
  destruct (finish_ended (r_b a) s x H) as [A B]. split; auto.
Qed.

Lemma shape_ended : forall s s' x, same_shape s s' -> ended x s -> ended x s'.
Proof.
  intros s s' x [_ [_ [E3 [_ [_ [_ [E7 _]]]]]]] [A B]. split.
  - apply is_active_nIn. rewrite E3. apply is_active_nIn. assumption.
  - rewrite E7. assumption.
Qed.

Lemma stale_ended : forall cfg s x, ended x s -> ended x (fst (stale cfg s)).
Proof. intros. unfold stale. apply settle_ended. apply fold_purge_ended. assumption. Qed.

Lemma commit_ended : forall cfg c b s x, ended x s -> ended x (fst (tx_commit cfg c b s)).
Proof.
  intros. unfold tx_commit. destruct (get_obj b s); simpl; auto. destruct (o_active o); simpl; auto.
  apply settle_ended. apply finish_ended.
  destruct (negb (o_ro o) && negb (is_nil (o_buf o))); [destruct (fail_next s)|]; exact H.
Qed.

Lemma rollback_ended : forall cfg c b s x, ended x s -> ended x (fst (tx_rollback cfg c b s)).
Proof.
  intros. unfold tx_rollback. destruct (is_active b s); simpl; auto.
  apply settle_ended. apply finish_ended. eapply shape_ended. 2: exact H. apply shape_upd; auto.
Qed.

Theorem ended_forever : forall cfg s e x, ended x s -> ended x (fst (step cfg s e)).
Proof.
  intros cfg s e x H. destruct e; simpl.
  - unfold begin_tx. destruct (has_pending c s); simpl; auto.
    assert (H0 : ended x (fst (if c_svc cfg then stale cfg s else (s, [])))).
    { destruct (c_svc cfg); simpl; auto. apply stale_ended. assumption. }
    destruct (is_pending_b _ _); simpl; apply settle_ended; destruct H0 as [A B]; split.
    all: try (unfold begin_core; simpl; lia).
    all: apply is_active_nIn; unfold act_ids, begin_core; simpl; rewrite acts_app; simpl;
      rewrite in_app_iff; simpl; apply is_active_nIn in A; intros [Hc | [Hc | []]]; [tauto | lia].
  - unfold with_handle. destruct (handle_of c s) as [[id b]|]; simpl; auto.
    destruct (registered id s); simpl; auto.
    destruct (c_svc cfg); [destruct (k =? 0)|]; simpl; auto;
      eapply shape_ended; try apply tx_get_shape; auto.
  - unfold with_handle. destruct (handle_of c s) as [[id b]|]; simpl; auto.
    destruct (registered id s); simpl; auto.
    destruct (c_svc cfg); [destruct (obj_ro b s); [| destruct (k =? 0)]|]; simpl; auto;
      eapply shape_ended; try apply tx_write_shape; auto.
  - unfold with_handle. destruct (handle_of c s) as [[id b]|]; simpl; auto.
    destruct (registered id s); simpl; auto.
    destruct (c_svc cfg); [destruct (obj_ro b s); [| destruct (k =? 0)]|]; simpl; auto;
      eapply shape_ended; try apply tx_write_shape; auto.
  - unfold with_handle. destruct (handle_of c s) as [[id b]|]; simpl; auto.
    destruct (registered id s); simpl; auto.
    destruct (c_svc cfg); simpl; [change (ended x (reg_remove id ?y)) with (ended x y)|];
      apply commit_ended; auto.
  - unfold with_handle. destruct (handle_of c s) as [[id b]|]; simpl; auto.
    destruct (registered id s); simpl; auto.
    destruct (c_svc cfg); simpl; apply rollback_ended; auto.
  - destruct (handle_of c s) as [[id b]|]; simpl; auto. eapply shape_ended; try apply tx_get_shape; auto.
  - destruct (handle_of c s) as [[id b]|]; simpl; auto. eapply shape_ended; try apply tx_write_shape; auto.
  - destruct (handle_of c s) as [[id b]|]; simpl; auto. eapply shape_ended; try apply tx_write_shape; auto.
  - destruct (handle_of c s) as [[id b]|]; simpl; auto. apply commit_ended; auto.
  - destruct (handle_of c s) as [[id b]|]; simpl; auto. apply rollback_ended; auto.
  - destruct (handle_of c s) as [[id b]|]; simpl; auto.
  - exact H.
  - apply stale_ended; auto.
  - unfold clean_conn. apply settle_ended. apply fold_purge_ended. assumption.
  - unfold shutdown. destruct (shutdown_panics s); simpl; auto.
    apply settle_ended. apply fold_purge_ended. exact H.
  - exact H.
  - exact (shape_ended _ _ x (oneshot_shape cfg s c valid k v) H).
Qed.

Lemma finish_next_b : forall b s, next_b (finish_obj b s) = next_b s.
Proof. intros. unfold finish_obj. destruct (is_active b s); reflexivity. Qed.

Lemma commit_next_b : forall cfg c b s, next_b (fst (tx_commit cfg c b s)) = next_b s.
Proof.
  intros. unfold tx_commit. destruct (get_obj b s); simpl; auto. destruct (o_active o); simpl; auto.
  unfold settle_all. rewrite settle_next_b, finish_next_b.
  destruct (negb (o_ro o) && negb (is_nil (o_buf o))); [destruct (fail_next s)|]; reflexivity.
Qed.

Lemma rollback_next_b : forall cfg c b s, next_b (fst (tx_rollback cfg c b s)) = next_b s.
Proof.
  intros. unfold tx_rollback. destruct (is_active b s); simpl; auto.
  unfold settle_all. rewrite settle_next_b, finish_next_b. reflexivity.
Qed.

Lemma finish_op_next_b : forall cfg s c e, finish_op c e -> next_b (fst (step cfg s e)) = next_b s.
Proof.
  intros cfg s c e Hop. destruct e; simpl in Hop; try contradiction; subst; simpl; unfold with_handle.
  - destruct (handle_of c s) as [[id b]|]; simpl; auto. destruct (registered id s); simpl; auto.
    destruct (c_svc cfg); simpl; apply commit_next_b.
  - destruct (handle_of c s) as [[id b]|]; simpl; auto. destruct (registered id s); simpl; auto.
    destruct (c_svc cfg); simpl; apply rollback_next_b.
  - destruct (handle_of c s) as [[id b]|]; simpl; auto. apply commit_next_b.
  - destruct (handle_of c s) as [[id b]|]; simpl; auto. apply rollback_next_b.
Qed.

Fixpoint runs_ok (cfg : config) (s : state) (es : list event) : Prop :=
  match es with
  | [] => True
  | e :: t => ev_ok s e /\ runs_ok cfg (fst (step cfg s e)) t
  end.

Lemma reachable_run : forall cfg es s, reachable cfg s -> runs_ok cfg s es ->
  reachable cfg (fst (run cfg s es)).
Proof.
  induction es; simpl; intros; auto. destruct H0. apply IHes; auto. apply reach_step; auto.
Qed.

Lemma ended_run : forall cfg es s x, ended x s -> ended x (fst (run cfg s es)).
Proof.
  induction es; simpl; intros; auto. apply IHes. apply ended_forever. assumption.
Qed.

(* Commit and Rollback take effect at most once, and every later use of the transaction —
   after any further activity of anybody — is refused and changes nothing *)
Theorem finish_once : forall cfg s c id b e es e',
  reachable cfg s -> ev_ok s e ->
  handle_of c s = Some (id, b) -> finish_op c e ->
  let s1 := fst (step cfg s e) in
  runs_ok cfg s1 es ->
  let s2 := fst (run cfg s1 es) in
  handle_of c s2 = Some (id, b) ->          (* the client has not been given a new transaction *)
  tx_op c e' ->
  (forall o, In o (snd (step cfg s2 e')) -> refused (c_svc cfg) o) /\ untouched s2 (fst (step cfg s2 e')).
Proof.
  intros cfg s c id b e es e' R Hok Hh Hop s1 Hruns s2 Hh2 Hop'.
  pose proof (reachable_Inv cfg s R) as IS.
  assert (E1 : ended b s1).
  { split. eapply finish_closes; eauto. unfold s1. erewrite finish_op_next_b; eauto.
    destruct IS as [[I O] S]. destruct (i_hand s I c id b (handle_of_In _ _ _ _ Hh)) as [_ [H _]]. exact H. }
  assert (E2 : ended b s2) by (apply ended_run; assumption).
  assert (R2 : reachable cfg s2).
  { apply reachable_run; auto. apply reach_step; auto. }
  destruct (reachable_Inv cfg s2 R2) as [[I2 _] _].
  eapply ended_refused; eauto. apply (i_objnd s2 I2). apply E2.
Qed.

Example finish_once_nonvacuous :
  let cfg := mkConfig 300 1300 900 10000 false true in
  let r := run cfg init [EBegin 1 false 0; EPut 1 1 5; ECommit 1; EBegin 2 false 0; EPut 2 1 7;
                         ECommit 1; EOPut 1 1 9; ERollback 1; EOCommit 1; ECommit 2] in
  db (fst r) = [(1, 7)] /\
  snd r = [OBegin 1 ROk; ORes 1 ROk; ORes 1 ROk; OBegin 2 ROk; ORes 2 ROk;
           ORes 1 RClosed; ORes 1 RClosed; ORes 1 RClosed; ORes 1 RClosed; ORes 2 ROk].
Proof. vm_compute. split; reflexivity. Qed.

(* ====================================================================================== *)
(* abandoned transactions are rolled back by the cleanups                                 *)
(* ====================================================================================== *)

Lemma purge_active_mono : forall s a x, is_active x s = false -> is_active x (purge s a) = false.
Proof. intros. unfold purge. change (is_active x (reg_remove ?i ?y)) with (is_active x y). apply finish_active_mono. assumption. Qed.

Lemma fold_purge_active_mono : forall l s x, is_active x s = false -> is_active x (fold_left purge l s) = false.
Proof. induction l; simpl; intros; auto. apply IHl. apply purge_active_mono. assumption. Qed.

Lemma fold_purge_reg_incl : forall l s r, In r (reg (fold_left purge l s)) -> In r (reg s).
Proof.
  induction l; simpl; intros; auto. apply IHl in H. rewrite purge_reg in H. apply filter_In in H. tauto.
Qed.

Lemma fold_purge_next_id : forall l s, next_id (fold_left purge l s) = next_id s.
Proof.
  induction l; simpl; intros; auto. rewrite IHl. unfold purge. simpl. apply finish_next_id.
Qed.

Lemma fold_purge_effect : forall l s r, In r l ->
  is_active (r_b r) (fold_left purge l s) = false /\
  (forall r', In r' (reg (fold_left purge l s)) -> r_id r' <> r_id r).
Proof.
  induction l; simpl; intros s r Hr. destruct Hr.
  destruct Hr as [Hr | Hr].
  - subst. split.
    + apply fold_purge_active_mono. unfold purge.
      change (is_active (r_b r) (reg_remove ?i ?y)) with (is_active (r_b r) y). apply finish_deact.
    + intros r' Hr'. apply fold_purge_reg_incl in Hr'. rewrite purge_reg in Hr'.
      apply filter_In in Hr'. destruct Hr' as [_ Hn]. apply negb_true_iff, N.eqb_neq in Hn. exact Hn.
  - apply IHl. assumption.
Qed.

(* after a cleanup that selected r: its transaction is closed and its id is gone for good *)
Lemma cleanup_effect : forall cfg l s r, inv s -> In r l -> In r (reg s) ->
  let s' := fst (settle_all cfg (fold_left purge l s)) in
  is_active (r_b r) s' = false /\ registered (r_id r) s' = false.
Proof.
  intros cfg l s r [I O] Hl Hr s'. destruct (fold_purge_effect l s r Hl) as [A B]. split.
  - apply settle_active_mono. assumption.
  - unfold registered. apply not_true_is_false. intro Hc. apply existsb_exists in Hc.
    destruct Hc as [r' [Hr' He]]. apply N.eqb_eq in He. unfold s', settle_all in Hr'.
    apply settle_reg_new in Hr'. destruct Hr' as [Hr' | Hr'].
    + apply (B r' Hr'). assumption.
    + rewrite fold_purge_next_id in Hr'. apply (i_rid s I) in Hr. lia.
Qed.

(* CleanupStaleTransactions: lifetime or idle limit passed *)
Theorem stale_rolls_back : forall cfg s r o, reachable cfg s -> In r (reg s) ->
  get_obj (r_b r) s = Some o ->
  ((if o_ro o then c_ttl_ro cfg else c_ttl_rw cfg) < now s - o_created o \/ c_idle cfg < now s - o_last o) ->
  let s' := fst (step cfg s EStale) in
  is_active (r_b r) s' = false /\ registered (r_id r) s' = false.
Proof.
  intros cfg s r o R Hr Hg Ht. destruct (reachable_Inv cfg s R) as [I S]. simpl.
  unfold stale. apply cleanup_effect; auto. apply filter_In. split; auto.
  unfold is_stale. rewrite Hg. apply orb_true_iff. destruct Ht as [Ht | Ht]; [left | right]; apply N.ltb_lt; assumption.
Qed.

(* CleanupConnection *)
Theorem conn_cleanup_rolls_back : forall cfg s r c, reachable cfg s -> In r (reg s) ->
  r_conn r = conn_of cfg c ->
  let s' := fst (step cfg s (ECleanConn c)) in
  is_active (r_b r) s' = false /\ registered (r_id r) s' = false.
Proof.
  intros cfg s r c R Hr Hc. destruct (reachable_Inv cfg s R) as [I S]. simpl.
  unfold clean_conn. apply cleanup_effect; auto. apply filter_In. split; auto. apply N.eqb_eq. assumption.
Qed.

(* GracefulShutdown *)
Theorem shutdown_rolls_back : forall cfg s r, reachable cfg s -> In r (reg s) -> shutdown_panics s = false ->
  let s' := fst (step cfg s EShutdown) in
  is_active (r_b r) s' = false /\ registered (r_id r) s' = false.
Proof.
  intros cfg s r R Hr Hs. destruct (reachable_Inv cfg s R) as [I S]. simpl.
  unfold shutdown. rewrite Hs. simpl.
  apply (cleanup_effect cfg (reg s) (set_stopped s true) r); auto.
  eapply shape_inv. 2: exact I. repeat split.
Qed.

Example stale_rolls_back_nonvacuous :
  let cfg := mkConfig 300 1300 900 10000 false true in
  let r := run cfg init [EBegin 1 false 0; EPut 1 1 5; EBegin 2 false 0; ETick 400; EStale; EOGet 1 1; ECommit 2] in
  snd r = [OBegin 1 ROk; ORes 1 ROk; OBegin 2 RWait; OMaint ROk; OAsync 2 ROk; OGet 1 RClosed None; ORes 2 ROk]
  /\ db (fst r) = [].
Proof. vm_compute. split; reflexivity. Qed.

(* ====================================================================================== *)
(* a Begin that timed out leaves nothing behind                                           *)
(* ====================================================================================== *)

(* the transaction object b of a Begin whose caller gave up: still queued as a zombie, or gone
   without ever having been registered *)
Definition zombie_or_gone (b : N) (s : state) : Prop :=
  (exists p, In p (pends s) /\ p_b p = b /\ p_aband p = true) \/
  (~ In b (pend_ids s) /\ ~ In b (reg_bs s) /\ b < next_b s).

Lemma zg_same : forall b s s', pends s' = pends s -> incl (reg s') (reg s) -> next_b s <= next_b s' ->
  zombie_or_gone b s -> zombie_or_gone b s'.
Proof.
  intros b s s' E1 E2 E3 [[p [H1 [H2 H3]]] | [H1 [H2 H3]]].
  - left. exists p. rewrite E1. tauto.
  - right. unfold pend_ids, reg_bs in *. rewrite E1. split; auto. split. 2: lia.
    intro Hc. apply H2. apply in_map_iff in Hc. destruct Hc as [r [Hr Hi]]. apply in_map_iff.
    exists r. split; auto.
Qed.

Lemma zg_finish : forall b x s, zombie_or_gone b s -> zombie_or_gone b (finish_obj x s).
Proof.
  intros. eapply zg_same. 4: exact H. apply finish_pends. rewrite finish_reg. apply incl_refl.
  rewrite finish_next_b. lia.
Qed.

Lemma zg_purge : forall b s a, zombie_or_gone b s -> zombie_or_gone b (purge s a).
Proof.
  intros. unfold purge. eapply zg_same. 4: apply zg_finish; exact H.
  - reflexivity.
  - simpl. intros r Hr. apply filter_In in Hr. tauto.
  - simpl. lia.
Qed.

Lemma zg_fold_purge : forall l b s, zombie_or_gone b s -> zombie_or_gone b (fold_left purge l s).
Proof. induction l; simpl; intros; auto. apply IHl. apply zg_purge. assumption. Qed.

Lemma zg_settle : forall cfg fuel b s, inv s -> zombie_or_gone b s ->
  zombie_or_gone b (fst (settle cfg fuel s)).
Proof.
  induction fuel; simpl; intros b s I Z. assumption.
  destruct (find (fun p => is_holder (p_b p) (lk s)) (pends s)) as [q|] eqn:F; simpl; auto.
  apply find_some in F. destruct F as [Hq Hh]. apply is_holder_In in Hh.
  assert (Hqb : In (p_b q) (pend_ids s)) by (apply in_map; assumption).
  destruct (p_aband q) eqn:Aq; simpl.
  - apply IHfuel. apply zombie_inv; auto. apply zg_finish.
    destruct (N.eq_dec (p_b q) b) as [E | E].
    + right. simpl. destruct I as [I O]. subst b. split; [| split].
      * unfold pend_ids. simpl. intro Hc. apply drop_pend_ids in Hc. tauto.
      * apply (i_disj s I). assumption.
      * apply (i_objlt s I). apply acts_sub. apply (i_act s I). apply (i_plock s I). assumption.
    + destruct Z as [[p [H1 [H2 H3]]] | [H1 [H2 H3]]].
      * left. exists p. simpl. split; auto. unfold drop_pend. apply filter_In. split; auto.
        apply negb_true_iff, N.eqb_neq. congruence.
      * right. simpl. split; auto. unfold pend_ids. simpl. intro Hc. apply drop_pend_ids in Hc. tauto.
  - apply IHfuel. apply register_inv; auto.
    destruct I as [I O].
    destruct Z as [[p [H1 [H2 H3]]] | [H1 [H2 H3]]].
    + left. exists p. simpl. split; auto. unfold drop_pend. apply filter_In. split; auto.
      apply negb_true_iff, N.eqb_neq. intro E.
      assert (p = q). { eapply NoDup_map_inj. apply (i_pnd s I). all: auto. }
      subst. congruence.
    + right. simpl. split; [| split]; auto.
      * unfold pend_ids. simpl. intro Hc. apply drop_pend_ids in Hc. tauto.
      * unfold reg_bs. simpl. rewrite map_app, in_app_iff. simpl. intros [Hc | [Hc | []]]. tauto.
        subst. tauto.
Qed.

Lemma zg_begin_core : forall cfg c ro d b s, zombie_or_gone b s -> zombie_or_gone b (begin_core cfg c ro d s).
Proof.
  intros cfg c ro d b s [[p [H1 [H2 H3]]] | [H1 [H2 H3]]].
  - left. exists p. simpl. rewrite in_app_iff. tauto.
  - right. unfold pend_ids, reg_bs in *. simpl. rewrite map_app, in_app_iff. simpl.
    split; [| split]; auto. intros [Hc | [Hc | []]]. tauto. lia. lia.
Qed.

Lemma zg_shape_objs : forall b s x, zombie_or_gone b s -> zombie_or_gone b (set_objs s x).
Proof. intros. eapply zg_same. 4: exact H. reflexivity. apply incl_refl. simpl. lia. Qed.

Lemma zg_stale : forall cfg b s, inv s -> zombie_or_gone b s -> zombie_or_gone b (fst (stale cfg s)).
Proof.
  intros. unfold stale, settle_all. apply zg_settle. 2: apply zg_fold_purge; assumption.
  apply fold_purge_inv; auto. apply NoDup_map_filter. apply (i_rind s (proj1 H)).
  intros x Hx. apply filter_In in Hx. tauto.
Qed.

Lemma zg_tx_get : forall c x k b s, zombie_or_gone b s -> zombie_or_gone b (fst (tx_get c x k s)).
Proof.
  intros. unfold tx_get. destruct (get_obj x s); simpl; auto. destruct (o_active o); simpl; auto.
  destruct (buf_get k (o_buf o)); simpl; apply zg_shape_objs; assumption.
Qed.

Lemma zg_tx_write : forall c x k v b s, zombie_or_gone b s -> zombie_or_gone b (fst (tx_write c x k v s)).
Proof.
  intros. unfold tx_write. destruct (get_obj x s); simpl; auto. destruct (o_active o); simpl; auto.
  destruct (o_ro o); simpl; apply zg_shape_objs; assumption.
Qed.

Lemma zg_commit : forall cfg c x b s, Inv s -> (is_active x s = true -> In x (reg_bs s)) ->
  zombie_or_gone b s -> zombie_or_gone b (fst (tx_commit cfg c x s)).
Proof.
  intros cfg c x b s [I S] Hr Z. unfold tx_commit.
  destruct (get_obj x s) as [o|] eqn:G; simpl; auto. destruct (o_active o) eqn:A; simpl; auto.
  unfold settle_all. apply zg_settle.
  - apply finish_inv.
    + eapply shape_inv. 2: exact I.
      destruct (negb (o_ro o) && negb (is_nil (o_buf o))); [destruct (fail_next s)|]; repeat split.
    + intro Ha. assert (is_active x s = true).
      { rewrite <- Ha. unfold is_active.
        destruct (negb (o_ro o) && negb (is_nil (o_buf o))); [destruct (fail_next s)|]; reflexivity. }
      apply Hr in H.
      destruct (negb (o_ro o) && negb (is_nil (o_buf o))); [destruct (fail_next s)|]; exact H.
  - apply zg_finish. eapply zg_same. 4: exact Z.
    all: destruct (negb (o_ro o) && negb (is_nil (o_buf o))); [destruct (fail_next s)|]; simpl;
      try reflexivity; try apply incl_refl; try lia.
Qed.

Lemma zg_rollback : forall cfg c x b s, Inv s -> (is_active x s = true -> In x (reg_bs s)) ->
  zombie_or_gone b s -> zombie_or_gone b (fst (tx_rollback cfg c x s)).
Proof.
  intros cfg c x b s [I S] Hr Z. unfold tx_rollback.
  destruct (is_active x s) eqn:A; simpl; auto.
  unfold settle_all. apply zg_settle.
  - apply finish_inv.
    + eapply shape_inv. 2: exact I. apply shape_upd; auto.
    + intros _. simpl. apply Hr. reflexivity.
  - apply zg_finish. apply zg_shape_objs. assumption.
Qed.

Lemma zg_reg_remove : forall id b s, zombie_or_gone b s -> zombie_or_gone b (reg_remove id s).
Proof.
  intros. eapply zg_same. 4: exact H. reflexivity. simpl. intros r Hr. apply filter_In in Hr. tauto.
  simpl. lia.
Qed.

Lemma zg_oneshot : forall cfg s c valid k v b, zombie_or_gone b s ->
  zombie_or_gone b (fst (step cfg s (EOneShot c valid k v))).
Proof.
  intros cfg s c valid k v b Z.
  destruct (oneshot_frame cfg s c valid k v) as [_ [E2 [_ [E4 [_ [_ [E7 _]]]]]]].
  eapply zg_same. 4: exact Z. exact E4. rewrite E2. apply incl_refl. rewrite E7. lia.
Qed.

Theorem zombie_never_registered : forall cfg s e b, Inv s -> ev_ok s e ->
  zombie_or_gone b s -> zombie_or_gone b (fst (step cfg s e)).
Proof.
  intros cfg s e b IS Hok Z. pose proof IS as [I S]. destruct e; simpl.
  - unfold begin_tx. destruct (has_pending c s); simpl; auto.
    assert (I0 : Inv (fst (if c_svc cfg then stale cfg s else (s, []))) /\
                 zombie_or_gone b (fst (if c_svc cfg then stale cfg s else (s, [])))).
    { destruct (c_svc cfg); simpl; auto. split. apply stale_Inv; auto. apply zg_stale; auto. }
    destruct I0 as [[I0 _] Z0].
    destruct (is_pending_b _ _); simpl; unfold settle_all; apply zg_settle;
      try (apply begin_core_inv; assumption); apply zg_begin_core; assumption.
  - unfold with_handle. destruct (handle_of c s) as [[id x]|]; simpl; auto.
    destruct (registered id s); simpl; auto.
    destruct (c_svc cfg); [destruct (k =? 0)|]; simpl; auto; apply zg_tx_get; auto.
  - unfold with_handle. destruct (handle_of c s) as [[id x]|]; simpl; auto.
    destruct (registered id s); simpl; auto.
    destruct (c_svc cfg); [destruct (obj_ro x s); [| destruct (k =? 0)]|]; simpl; auto; apply zg_tx_write; auto.
  - unfold with_handle. destruct (handle_of c s) as [[id x]|]; simpl; auto.
    destruct (registered id s); simpl; auto.
    destruct (c_svc cfg); [destruct (obj_ro x s); [| destruct (k =? 0)]|]; simpl; auto; apply zg_tx_write; auto.
  - unfold with_handle. destruct (handle_of c s) as [[id x]|] eqn:Hh; simpl; auto.
    destruct (registered id s) eqn:Hr; simpl; auto.
    assert (Hb : In x (reg_bs s)) by (eapply handle_reg_b; eauto).
    destruct (c_svc cfg); simpl; [apply zg_reg_remove|]; apply zg_commit; auto.
  - unfold with_handle. destruct (handle_of c s) as [[id x]|] eqn:Hh; simpl; auto.
    destruct (registered id s) eqn:Hr; simpl; auto.
    assert (Hb : In x (reg_bs s)) by (eapply handle_reg_b; eauto).
    destruct (c_svc cfg); simpl; [apply zg_reg_remove|]; apply zg_rollback; auto.
  - destruct (handle_of c s) as [[id x]|]; simpl; auto. apply zg_tx_get; auto.
  - destruct (handle_of c s) as [[id x]|]; simpl; auto. apply zg_tx_write; auto.
  - destruct (handle_of c s) as [[id x]|]; simpl; auto. apply zg_tx_write; auto.
  - destruct (handle_of c s) as [[id x]|] eqn:Hh; simpl; auto. apply zg_commit; auto.
    intro A. eapply handle_active_reg; eauto. apply handle_of_In. eassumption.
  - destruct (handle_of c s) as [[id x]|] eqn:Hh; simpl; auto. apply zg_rollback; auto.
    intro A. eapply handle_active_reg; eauto. apply handle_of_In. eassumption.
  - destruct (handle_of c s) as [[id x]|]; simpl; auto. apply zg_reg_remove. assumption.
  - (* Tick: an abandoned Begin stays abandoned *)
    destruct Z as [[p [H1 [H2 H3]]] | [H1 [H2 H3]]].
    + left. exists (expire (now s + dt) p). simpl. split. apply in_map. assumption.
      unfold expire. destruct (negb (p_aband p) && (p_deadline p <=? now s + dt)); simpl; auto.
    + right. unfold pend_ids in *. simpl. rewrite expire_ids. tauto.
  - apply zg_stale; auto.
  - unfold clean_conn, settle_all. apply zg_settle. 2: apply zg_fold_purge; assumption.
    apply fold_purge_inv; auto. apply NoDup_map_filter. apply (i_rind s (proj1 I)).
    intros x Hx. apply filter_In in Hx. tauto.
  - unfold shutdown. destruct (shutdown_panics s); simpl; auto.
    unfold settle_all. apply zg_settle.
    + apply fold_purge_inv. eapply shape_inv. 2: exact I. repeat split.
      simpl. apply (i_rind s (proj1 I)). simpl. apply incl_refl.
    + apply zg_fold_purge. eapply zg_same. 4: exact Z. reflexivity. simpl. apply incl_refl. simpl. lia.
  - eapply zg_same. 4: exact Z. reflexivity. simpl. apply incl_refl. simpl. lia.
  - exact (zg_oneshot cfg s c valid k v b Z).
Qed.

(* when the deadline of a waiting Begin passes, it becomes such a zombie *)
Lemma tick_makes_zombie : forall s dt p, In p (pends s) -> p_deadline p <= now s + dt ->
  zombie_or_gone (p_b p) (fst (tick dt s)).
Proof.
  intros. left. exists (expire (now s + dt) p). simpl. split. apply in_map. assumption.
  unfold expire. destruct (p_aband p) eqn:A; simpl; auto.
  apply N.leb_le in H0. rewrite H0. simpl. auto.
Qed.

Theorem begin_timeout_clean : forall cfg s dt p es,
  reachable cfg s -> In p (pends s) -> p_deadline p <= now s + dt ->
  let s1 := fst (step cfg s (ETick dt)) in
  runs_ok cfg s1 es ->
  let s2 := fst (run cfg s1 es) in
  ~ In (p_b p) (reg_bs s2) /\ ~ In (p_b p) (holders (lk s2)).
Proof.
  intros cfg s dt p es R Hp Hd s1 Hruns s2.
  assert (R1 : reachable cfg s1) by (apply reach_step; simpl; auto).
  assert (Z1 : zombie_or_gone (p_b p) s1) by (apply tick_makes_zombie; assumption).
  assert (G : forall es s, reachable cfg s -> runs_ok cfg s es -> zombie_or_gone (p_b p) s ->
              reachable cfg (fst (run cfg s es)) /\ zombie_or_gone (p_b p) (fst (run cfg s es))).
  { clear. induction es; simpl; intros; auto. destruct H0. apply IHes; auto.
    apply reach_step; auto. apply zombie_never_registered; auto. apply reachable_Inv with cfg. assumption. }
  destruct (G es s1 R1 Hruns Z1) as [R2 Z2]. fold s2 in R2, Z2.
  destruct (reachable_Inv cfg s2 R2) as [[I O] S].
  assert (Hn : ~ In (p_b p) (reg_bs s2)).
  { destruct Z2 as [[q [H1 [H2 H3]]] | [H1 [H2 H3]]]; auto.
    rewrite <- H2. apply (i_disj s2 I). apply in_map. assumption. }
  split; auto. intro Hh. apply (proj1 (lock_balance cfg s2 R2)) in Hh. tauto.
Qed.

Example begin_timeout_clean_nonvacuous :
  let cfg := mkConfig 300 1300 900 10000 false true in
  let r := run cfg init [EBegin 1 false 0; EBegin 2 false 150; ETick 200; ECommit 1; EBegin 3 false 0; ECommit 3] in
  snd r = [OBegin 1 ROk; OBegin 2 RWait; OAsync 2 RTimeout; ORes 1 ROk; OBegin 3 ROk; ORes 3 ROk]
  /\ lock_state (fst r) = LFree /\ pends (fst r) = [].
Proof. vm_compute. repeat split. Qed.

(* ====================================================================================== *)
(* time: one cleanup after the limits frees the lock, from any reachable state            *)
(* ====================================================================================== *)

Definition tinv (cfg : config) (s : state) : Prop :=
  (forall o, In o (objs s) -> o_last o <= now s) /\
  (forall p, In p (pends s) -> p_deadline p <= now s + c_btimeout cfg).

Lemma tinv_upd : forall cfg s b f, tinv cfg s -> (forall o, o_last o <= now s -> o_last (f o) <= now s) ->
  tinv cfg (set_objs s (upd_obj b f (objs s))).
Proof.
  intros cfg s b f [T1 T2] Hf. split; simpl; auto.
  intros o Ho. unfold upd_obj in Ho. apply in_map_iff in Ho. destruct Ho as [o' [E Ho']].
  destruct (o_b o' =? b); subst; auto.
Qed.

Lemma tinv_same : forall cfg s s', now s' = now s -> objs s' = objs s -> incl (pends s') (pends s) ->
  tinv cfg s -> tinv cfg s'.
Proof.
  intros cfg s s' E1 E2 E3 [T1 T2]. split; intros.
  - rewrite E1. apply T1. rewrite <- E2. assumption.
  - rewrite E1. apply T2. apply E3. assumption.
Qed.

Lemma tinv_finish : forall cfg b s, tinv cfg s -> tinv cfg (finish_obj b s).
Proof.
  intros. unfold finish_obj. destruct (is_active b s); auto.
  apply (tinv_same cfg (set_objs s (upd_obj b deact (objs s)))); try reflexivity.
  apply incl_refl. apply tinv_upd; auto.
Qed.

Lemma tinv_purge : forall cfg s a, tinv cfg s -> tinv cfg (purge s a).
Proof.
  intros. unfold purge. eapply tinv_same. 4: apply tinv_finish; exact H. all: try reflexivity. apply incl_refl.
Qed.

Lemma tinv_fold_purge : forall cfg l s, tinv cfg s -> tinv cfg (fold_left purge l s).
Proof. induction l; simpl; intros; auto. apply IHl. apply tinv_purge. assumption. Qed.

Lemma drop_pend_incl : forall b l, incl (drop_pend b l) l.
Proof. intros b l x Hx. apply filter_In in Hx. tauto. Qed.

Lemma tinv_settle : forall cfg fuel s, tinv cfg s -> tinv cfg (fst (settle cfg fuel s)).
Proof.
  induction fuel; simpl; intros; auto.
  destruct (find (fun p => is_holder (p_b p) (lk s)) (pends s)) as [q|]; simpl; auto.
  destruct (p_aband q); simpl; apply IHfuel.
  - apply tinv_finish. eapply tinv_same. 4: exact H. all: try reflexivity. simpl. apply drop_pend_incl.
  - eapply tinv_same. 4: exact H. all: try reflexivity. simpl. apply drop_pend_incl.
Qed.

Lemma tinv_stale : forall cfg s, tinv cfg s -> tinv cfg (fst (stale cfg s)).
Proof. intros. unfold stale, settle_all. apply tinv_settle. apply tinv_fold_purge. assumption. Qed.

Lemma tinv_begin_core : forall cfg c ro d s, tinv cfg s -> tinv cfg (begin_core cfg c ro d s).
Proof.
  intros cfg c ro d s [T1 T2]. split; simpl; intros x Hx; apply in_app_iff in Hx; destruct Hx as [Hx | [Hx | []]]; auto.
  - subst. simpl. lia.
  - subst. simpl. destruct (d =? 0). lia. pose proof (N.le_min_r d (c_btimeout cfg)). lia.
Qed.

Lemma tinv_tx_get : forall cfg c b k s, tinv cfg s -> tinv cfg (fst (tx_get c b k s)).
Proof.
  intros. unfold tx_get. destruct (get_obj b s); simpl; auto. destruct (o_active o); simpl; auto.
  destruct (buf_get k (o_buf o)); simpl; apply tinv_upd; auto; intros; simpl; lia.
Qed.

Lemma tinv_tx_write : forall cfg c b k v s, tinv cfg s -> tinv cfg (fst (tx_write c b k v s)).
Proof.
  intros. unfold tx_write. destruct (get_obj b s); simpl; auto. destruct (o_active o); simpl; auto.
  destruct (o_ro o); simpl; apply tinv_upd; auto; intros; simpl; lia.
Qed.

Lemma tinv_commit : forall cfg c b s, tinv cfg s -> tinv cfg (fst (tx_commit cfg c b s)).
Proof.
  intros. unfold tx_commit. destruct (get_obj b s); simpl; auto. destruct (o_active o); simpl; auto.
  unfold settle_all. apply tinv_settle. apply tinv_finish. eapply tinv_same. 4: exact H.
  all: destruct (negb (o_ro o) && negb (is_nil (o_buf o))); [destruct (fail_next s)|]; simpl;
    try reflexivity; apply incl_refl.
Qed.

Lemma tinv_rollback : forall cfg c b s, tinv cfg s -> tinv cfg (fst (tx_rollback cfg c b s)).
Proof.
  intros. unfold tx_rollback. destruct (is_active b s); simpl; auto.
  unfold settle_all. apply tinv_settle. apply tinv_finish. apply tinv_upd; auto.
Qed.

Lemma tinv_oneshot : forall cfg s c valid k v, tinv cfg s ->
  tinv cfg (fst (step cfg s (EOneShot c valid k v))).
Proof.
  intros cfg s c valid k v T.
  destruct (oneshot_frame cfg s c valid k v) as [_ [_ [E3 [E4 [_ [_ [_ [E8 _]]]]]]]].
  eapply tinv_same. 4: exact T. exact E8. exact E3. rewrite E4. apply incl_refl.
Qed.

Lemma tinv_step : forall cfg s e, tinv cfg s -> tinv cfg (fst (step cfg s e)).
Proof.
  intros cfg s e T. destruct e; simpl.
  - unfold begin_tx. destruct (has_pending c s); simpl; auto.
    assert (T0 : tinv cfg (fst (if c_svc cfg then stale cfg s else (s, [])))).
    { destruct (c_svc cfg); simpl; auto. apply tinv_stale. assumption. }
    destruct (is_pending_b _ _); simpl; unfold settle_all; apply tinv_settle; apply tinv_begin_core; assumption.
  - unfold with_handle. destruct (handle_of c s) as [[id x]|]; simpl; auto.
    destruct (registered id s); simpl; auto.
    destruct (c_svc cfg); [destruct (k =? 0)|]; simpl; auto; apply tinv_tx_get; auto.
  - unfold with_handle. destruct (handle_of c s) as [[id x]|]; simpl; auto.
    destruct (registered id s); simpl; auto.
    destruct (c_svc cfg); [destruct (obj_ro x s); [| destruct (k =? 0)]|]; simpl; auto; apply tinv_tx_write; auto.
  - unfold with_handle. destruct (handle_of c s) as [[id x]|]; simpl; auto.
    destruct (registered id s); simpl; auto.
    destruct (c_svc cfg); [destruct (obj_ro x s); [| destruct (k =? 0)]|]; simpl; auto; apply tinv_tx_write; auto.
  - unfold with_handle. destruct (handle_of c s) as [[id x]|]; simpl; auto.
    destruct (registered id s); simpl; auto.
    destruct (c_svc cfg); simpl; [change (tinv cfg (reg_remove id ?y)) with (tinv cfg y)|]; apply tinv_commit; auto.
  - unfold with_handle. destruct (handle_of c s) as [[id x]|]; simpl; auto.
    destruct (registered id s); simpl; auto.
    destruct (c_svc cfg); simpl; [change (tinv cfg (reg_remove id ?y)) with (tinv cfg y)|]; apply tinv_rollback; auto.
  - destruct (handle_of c s) as [[id x]|]; simpl; auto. apply tinv_tx_get; auto.
  - destruct (handle_of c s) as [[id x]|]; simpl; auto. apply tinv_tx_write; auto.
  - destruct (handle_of c s) as [[id x]|]; simpl; auto. apply tinv_tx_write; auto.
  - destruct (handle_of c s) as [[id x]|]; simpl; auto. apply tinv_commit; auto.
  - destruct (handle_of c s) as [[id x]|]; simpl; auto. apply tinv_rollback; auto.
  - destruct (handle_of c s) as [[id x]|]; simpl; auto.
  - destruct T as [T1 T2]. split; simpl.
    + intros o Ho. apply T1 in Ho. lia.
    + intros p Hp. apply in_map_iff in Hp. destruct Hp as [q [E Hq]]. apply T2 in Hq.
      subst. unfold expire. destruct (negb (p_aband q) && (p_deadline q <=? now s + dt)); simpl; lia.
  - apply tinv_stale; auto.
  - unfold clean_conn, settle_all. apply tinv_settle. apply tinv_fold_purge. assumption.
  - unfold shutdown. destruct (shutdown_panics s); simpl; auto.
    unfold settle_all. apply tinv_settle. apply tinv_fold_purge. exact T.
  - exact T.
  - exact (tinv_oneshot cfg s c valid k v T).
Qed.

Lemma reachable_tinv : forall cfg s, reachable cfg s -> tinv cfg s.
Proof.
  induction 1. split; simpl; intros; contradiction. apply tinv_step. assumption.
Qed.

(* with every waiting Begin abandoned, settling registers nothing *)
Lemma settle_aband_reg : forall cfg fuel s, (forall p, In p (pends s) -> p_aband p = true) ->
  reg (fst (settle cfg fuel s)) = reg s.
Proof.
  induction fuel; simpl; intros; auto.
  destruct (find (fun p => is_holder (p_b p) (lk s)) (pends s)) as [q|] eqn:F; simpl; auto.
  apply find_some in F. destruct F as [Hq _]. rewrite (H q Hq). rewrite IHfuel.
  - rewrite finish_reg. reflexivity.
  - rewrite finish_pends. simpl. intros p Hp. apply H. apply (drop_pend_incl _ _ _ Hp).
Qed.

Lemma fold_purge_all : forall s, reg (fold_left purge (reg s) s) = [].
Proof.
  intros. destruct (reg (fold_left purge (reg s) s)) as [|r t] eqn:E; auto. exfalso.
  assert (Hr : In r (reg (fold_left purge (reg s) s))) by (rewrite E; simpl; tauto).
  pose proof (fold_purge_reg_incl _ _ _ Hr) as Hr0.
  destruct (fold_purge_effect (reg s) s r Hr0) as [_ B]. apply (B r Hr). reflexivity.
Qed.

Lemma filter_all : forall {A} (f : A -> bool) l, (forall x, In x l -> f x = true) -> filter f l = l.
Proof.
  induction l; simpl; intros; auto. rewrite H by tauto. f_equal. apply IHl. intros. apply H. tauto.
Qed.

Lemma fold_purge_pends : forall l s, pends (fold_left purge l s) = pends s.
Proof.
  induction l; simpl; intros; auto. rewrite IHl. unfold purge. simpl. apply finish_pends.
Qed.

(* From ANY reachable state: let the larger of the idle limit and the Begin time-out pass and run
   CleanupStaleTransactions once (the registry's ticker does, every 30 s). Then no transaction
   is left, the lock is free and nobody waits — whatever the clients did or failed to do. *)
Theorem cleanup_frees : forall cfg s dt, reachable cfg s -> c_btimeout cfg <= dt -> c_idle cfg < dt ->
  let s2 := fst (run cfg s [ETick dt; EStale]) in
  reg s2 = [] /\ lock_ids (lk s2) = [] /\ pends s2 = [] /\
  forall c ro d, In (OBegin c ROk) (snd (step cfg s2 (EBegin c ro d))).
Proof.
  intros cfg s dt R Hb Hi s2.
  assert (R2 : reachable cfg s2).
  { unfold s2. apply reachable_run; auto. simpl. tauto. }
  destruct (reachable_Inv cfg s R) as [[I O] S]. destruct (reachable_tinv cfg s R) as [T1 T2].
  assert (E : reg s2 = []).
  { unfold s2. simpl. unfold stale, settle_all.
    set (s1 := set_pends (set_now s (now s + dt)) (map (expire (now s + dt)) (pends s))).
    assert (Hall : filter (is_stale cfg s1) (reg s1) = reg s1).
    { apply filter_all. intros r Hr. unfold is_stale.
      assert (Ho : In (r_b r) (obj_ids s)) by (apply (i_robj s I); apply in_map; exact Hr).
      destruct (get_obj (r_b r) s1) as [o|] eqn:G.
      - apply get_obj_some in G. destruct G as [G _]. apply T1 in G.
        apply orb_true_iff. right. apply N.ltb_lt. simpl. lia.
      - exfalso. unfold get_obj in G. apply in_map_iff in Ho. destruct Ho as [o [Eo Ho]].
        eapply find_none in G. 2: exact Ho. rewrite Eo, N.eqb_refl in G. discriminate. }
    rewrite Hall. rewrite settle_aband_reg.
    - apply fold_purge_all.
    - intros p Hp.
      assert (Hp' : In p (pends s1)) by (rewrite fold_purge_pends in Hp; exact Hp).
      simpl in Hp'. apply in_map_iff in Hp'. destruct Hp' as [q [Eq Hq]]. apply T2 in Hq.
      subst. unfold expire. destruct (p_aband q) eqn:A; simpl; auto.
      assert (Hle : (p_deadline q <=? now s + dt) = true) by (apply N.leb_le; lia).
      rewrite Hle. reflexivity. }
  assert (F : all_finished s2) by (intros r Hr; rewrite E in Hr; destruct Hr).
  destruct (no_leak cfg s2 R2 F) as [H1 [H2 H3]]. auto.
Qed.

Example cleanup_frees_nonvacuous :
  let cfg := mkConfig 300 1300 900 10000 true false in
  (* a writer abandoned by its client, a reader and a writer queued behind it, one of them already
     timed out: one cleanup after the limits and the lock is free *)
  let s := fst (run cfg init [EBegin 1 false 0; EPut 1 1 5; EBegin 2 true 150; EBegin 3 false 0; ETick 200]) in
  lock_state s = LWrite /\ length (pends s) = 2%nat /\
  let s2 := fst (run cfg s [ETick 10000; EStale]) in
  lock_state s2 = LFree /\ reg s2 = [] /\ pends s2 = [] /\ db s2 = [].
Proof. vm_compute. repeat split. Qed.

(* ---------- what the property excludes, and one thing it does not cover ---------- *)

(* the documented limitation: a client that asks for a second read-write transaction while it
   holds one waits for itself until the Begin times out *)
Example second_transaction_of_same_client_waits :
  let cfg := mkConfig 300 1300 900 10000 false true in
  snd (run cfg init [EBegin 1 false 0; EBegin 1 false 150; ETick 200]) =
  [OBegin 1 ROk; OBegin 1 RWait; OAsync 1 RTimeout].
Proof. vm_compute. reflexivity. Qed.

(* GracefulShutdown closes stopCleanup on every call unless the source guards it (generated
   fact): a second call then panics *)
Example shutdown_twice :
  let cfg := mkConfig 300 1300 900 10000 false true in
  snd (run cfg init [EShutdown; EShutdown]) =
  [OMaint ROk; if RegFacts.registry_shutdown_close_guarded then OMaint ROk else OMaint RPanic].
Proof. vm_compute. reflexivity. Qed.

(* ---------- the shipped limits ---------- *)

(* a Begin gives up waiting before a transaction could be called idle: the transaction handed to
   a caller that waited is never older than the idle limit *)
Lemma shipped_wait_below_idle : RegFacts.registry_begin_timeout_ms < RegFacts.registry_default_idle_ms.
Proof. vm_compute. reflexivity. Qed.

(* with the limits of the binary: one run of the periodic cleanup after the idle limit frees the
   lock from any reachable state *)
Theorem shipped_cleanup_frees : forall svc peer s, reachable (shipped_config svc peer) s ->
  let cfg := shipped_config svc peer in
  let s2 := fst (run cfg s [ETick (RegFacts.registry_default_idle_ms + 1); EStale]) in
  reg s2 = [] /\ lock_ids (lk s2) = [] /\ pends s2 = [] /\
  forall c ro d, In (OBegin c ROk) (snd (step cfg s2 (EBegin c ro d))).
Proof.
  intros. apply cleanup_frees; auto.
  - subst cfg. unfold shipped_config. cbn [c_btimeout]. pose proof shipped_wait_below_idle. lia.
  - subst cfg. unfold shipped_config. cbn [c_idle]. lia.
Qed.

(* a Commit whose ApplyBatch fails still ends the transaction and releases the lock; nothing is
   applied and the transaction cannot be retried *)
Example failed_commit_ends_transaction :
  let cfg := mkConfig 300 1300 900 10000 false true in
  let r := run cfg init [EBegin 1 false 0; EPut 1 1 5; EFailNext; ECommit 1; ECommit 1; EBegin 2 false 0] in
  snd r = [OBegin 1 ROk; ORes 1 ROk; OMaint ROk; ORes 1 RFail; ORes 1 RClosed; OBegin 2 ROk] /\ db (fst r) = [].
Proof. vm_compute. split; reflexivity. Qed.

(* ====================================================================================== *)
(* one-shot service calls: the transactions the service begins ITSELF inside one call     *)
(* (KevoServiceServer.BatchWrite: begin read-write, validate + buffer, commit; on any     *)
(* rejection the deferred function rolls back)                                            *)
(* ====================================================================================== *)

(* the call has ended its transaction when it returns: lock, registry, transaction objects,
   waiting Begins and the clients' handles are exactly what they were *)
Theorem oneshot_releases : forall cfg s c valid k v,
  let s' := fst (step cfg s (EOneShot c valid k v)) in
  lk s' = lk s /\ reg s' = reg s /\ objs s' = objs s /\ pends s' = pends s /\ handles s' = handles s.
Proof.
  intros. destruct (oneshot_frame cfg s c valid k v) as [E1 [E2 [E3 [E4 [E5 _]]]]]. repeat split; assumption.
Qed.

(* ... hence what an observer probes (TryLock / TryRLock, number of registered transactions) *)
Corollary oneshot_lock_state : forall cfg s c valid k v,
  let s' := fst (step cfg s (EOneShot c valid k v)) in
  lock_state s' = lock_state s /\ reg_size s' = reg_size s.
Proof.
  intros. destruct (oneshot_releases cfg s c valid k v) as [E1 [E2 _]]. fold s' in E1, E2.
  unfold lock_state, reg_size. rewrite E1, E2. split; reflexivity.
Qed.

Corollary oneshot_releases_observed : forall cfg s c valid k v,
  let s' := fst (step cfg s (EOneShot c valid k v)) in
  (lk s' = lk s /\ reg s' = reg s /\ objs s' = objs s /\ pends s' = pends s /\ handles s' = handles s) /\
  (lock_state s' = lock_state s /\ reg_size s' = reg_size s).
Proof. intros. split. apply oneshot_releases. apply oneshot_lock_state. Qed.

Example oneshot_releases_nonvacuous :
  let cfg := mkConfig 300 1300 900 10000 true false in
  let r := run cfg init [EOneShot 1 false 1 (Some 5); EOneShot 1 true 1 (Some 5); EBegin 2 false 0;
                         EOneShot 1 true 2 (Some 6); ECommit 2; EOneShot 1 true 1 None;
                         EFailNext; EOneShot 3 true 2 (Some 7); EOneShot 3 false 0 None] in
  snd r = [ORes 1 RInvalid; ORes 1 ROk; OBegin 2 ROk; ORes 1 RBusy; ORes 2 ROk; ORes 1 ROk;
           OMaint ROk; ORes 3 RFail; ORes 3 RInvalid]
  /\ lock_state (fst r) = LFree /\ reg_size (fst r) = 0 /\ db (fst r) = [] /\ fail_next (fst r) = false.
Proof. vm_compute. repeat split. Qed.

(* a rejected call (invalid key size, value too large, unknown operation type) changes nothing at
   all — whether the lock was free (begun, rejected, rolled back) or not (not issued) *)
Theorem oneshot_rejected_no_effect : forall cfg s c k v,
  fst (step cfg s (EOneShot c false k v)) = s.
Proof. intros. simpl. destruct (is_nil (lock_ids (lk s))); reflexivity. Qed.

Example oneshot_rejected_nonvacuous :
  let cfg := mkConfig 300 1300 900 10000 true false in
  let s := fst (run cfg init [EOneShot 1 true 1 (Some 5); EBegin 2 true 0]) in
  step cfg s (EOneShot 1 false 1 (Some 9)) = (s, [ORes 1 RBusy]) /\
  step cfg (fst (step cfg s (ERollback 2))) (EOneShot 1 false 1 (Some 9)) =
    (fst (step cfg s (ERollback 2)), [ORes 1 RInvalid]) /\
  db s = [(1, 5)].
Proof. vm_compute. repeat split. Qed.

Lemma find_del_other : forall (k k' : N) (d : list (N * N)), k' <> k ->
  find (fun kv => N.eqb (fst kv) k') (db_del k d) = find (fun kv => N.eqb (fst kv) k') d.
Proof.
  intros k k' d Hne. unfold db_del. induction d as [|[a x] d IH]; simpl; auto.
  destruct (a =? k) eqn:E1; simpl.
  - destruct (a =? k') eqn:E2; auto. apply N.eqb_eq in E1. apply N.eqb_eq in E2. congruence.
  - destruct (a =? k'); auto.
Qed.

Lemma db_get_set : forall k x d, db_get k (db_set k x d) = Some x.
Proof. intros. unfold db_get, db_set. simpl. rewrite N.eqb_refl. reflexivity. Qed.

Lemma db_get_del : forall k d, db_get k (db_del k d) = None.
Proof.
  intros. unfold db_get. destruct (find (fun kv => N.eqb (fst kv) k) (db_del k d)) as [kv|] eqn:F; auto.
  apply find_some in F. destruct F as [Hin He]. unfold db_del in Hin. apply filter_In in Hin.
  destruct Hin as [_ Hn]. rewrite He in Hn. discriminate.
Qed.

Lemma db_get_del_other : forall k k' d, k' <> k -> db_get k' (db_del k d) = db_get k' d.
Proof. intros. unfold db_get. rewrite find_del_other; auto. Qed.

Lemma db_get_set_other : forall k k' x d, k' <> k -> db_get k' (db_set k x d) = db_get k' d.
Proof.
  intros k k' x d Hne. unfold db_get, db_set. simpl.
  destruct (k =? k') eqn:E. apply N.eqb_eq in E. congruence.
  rewrite find_del_other; auto.
Qed.

Lemma lock_free_nil : forall s, lock_state s = LFree -> is_nil (lock_ids (lk s)) = true.
Proof.
  intros s H. unfold lock_state in H. destruct (is_nil (lock_ids (lk s))); auto.
  destruct (is_nil (l_wq (lk s))); discriminate.
Qed.

(* an accepted call on a free database is applied and acknowledged: its key reads back as
   written (deleted: absent) ... *)
Theorem oneshot_applied : forall cfg s c k v,
  lock_state s = LFree -> fail_next s = false ->
  db_get k (db (fst (step cfg s (EOneShot c true k v)))) = v /\
  snd (step cfg s (EOneShot c true k v)) = [ORes c ROk].
Proof.
  intros cfg s c k v Hl Hf. apply lock_free_nil in Hl. simpl. rewrite Hl, Hf. simpl. split; auto.
  destruct v; simpl. apply db_get_set. apply db_get_del.
Qed.

(* ... and no other key changes, whatever the call was and however it was answered *)
Theorem oneshot_other_keys : forall cfg s c valid k v k', k' <> k ->
  db_get k' (db (fst (step cfg s (EOneShot c valid k v)))) = db_get k' (db s).
Proof.
  intros cfg s c valid k v k' Hne. simpl.
  destruct (is_nil (lock_ids (lk s))); [destruct valid; [destruct (fail_next s)|]|]; simpl; auto.
  destruct v; simpl. apply db_get_set_other; auto. apply db_get_del_other; auto.
Qed.

Example oneshot_applied_nonvacuous :
  let cfg := mkConfig 300 1300 900 10000 true true in
  let s := fst (run cfg init [EBegin 1 false 0; EPut 1 1 5; EPut 1 2 6; ECommit 1]) in
  lock_state s = LFree /\ fail_next s = false /\
  let s1 := fst (step cfg s (EOneShot 2 true 1 (Some 8))) in
  let s2 := fst (step cfg s1 (EOneShot 2 true 2 None)) in
  db_get 1 (db s1) = Some 8 /\ db_get 2 (db s1) = Some 6 /\ db_get 1 (db s2) = Some 8 /\ db_get 2 (db s2) = None.
Proof. vm_compute. repeat split. Qed.

(* reachable states are closed under one-shot calls (they are events like any other, and `ev_ok`
   puts no condition on them): every theorem above that quantifies over `reachable` — lock
   balance, finish once, no leak, the cleanups, begin time-out — covers programs in which the
   service's own transactions are interleaved with the clients' *)
Lemma reachable_oneshot : forall cfg s c valid k v, reachable cfg s ->
  reachable cfg (fst (step cfg s (EOneShot c valid k v))).
Proof. intros. apply reach_step; simpl; auto. Qed.

(* in particular a one-shot call can never be what keeps the database locked: when every client
   has finished, the lock is free after the call as before it and a fresh Begin is granted *)
Theorem oneshot_no_leak : forall cfg s c valid k v, reachable cfg s -> all_finished s ->
  let s' := fst (step cfg s (EOneShot c valid k v)) in
  lock_ids (lk s') = [] /\ pends s' = [] /\
  forall c' ro d, In (OBegin c' ROk) (snd (step cfg s' (EBegin c' ro d))).
Proof.
  intros cfg s c valid k v R F s'. apply no_leak.
  - apply reachable_oneshot. assumption.
  - destruct (oneshot_releases cfg s c valid k v) as [_ [E2 [E3 _]]]. fold s' in E2, E3.
    intros r Hr. rewrite E2 in Hr. unfold is_active. rewrite E3. apply (F r Hr).
Qed.

Example oneshot_reachable_nonvacuous :
  let cfg := mkConfig 300 1300 900 10000 true false in
  (* one-shot calls between the clients' calls: refused while a client's transaction is open,
     applied once it has ended; a waiting Begin is not disturbed *)
  let r := run cfg init [EBegin 1 true 0; EOneShot 3 true 1 (Some 1); EBegin 2 false 500; EOneShot 3 false 1 None;
                         ERollback 1; EOneShot 3 true 1 (Some 2); EPut 2 1 3; ECommit 2; EOneShot 3 true 2 (Some 4)] in
  snd r = [OBegin 1 ROk; ORes 3 RBusy; OBegin 2 RWait; ORes 3 RBusy; ORes 1 ROk; OAsync 2 ROk; ORes 3 RBusy;
           ORes 2 ROk; ORes 2 ROk; ORes 3 ROk]
  /\ lock_state (fst r) = LFree /\ reg_size (fst r) = 0 /\ db (fst r) = [(2, 4); (1, 3)].
Proof. vm_compute. repeat split. Qed.
