(* Props/C12.v — property theorems for C12 (compaction preserves content; deleted keys stay
   deleted) only; each closed by `exact` of a lemma proved in Compaction*.v, with
   Print Assumptions beneath.

   The model (Compaction.v) describes the REPAIRED code (/repo deebfc9, cf3362d, ca9115b,
   390f6e5, f30cabd). WF = well-formed directory (files strictly ascending and non-empty,
   distinct creation stamps below the clock, levels >= 1 key-disjoint), established for every
   reachable state by C12_reachable_wf. [selected] = any task SelectCompaction (L0->L1,
   promotion, size ratio) or CompactRange can return. [dread dir k] = what a database opened
   on the directory alone reads for k.
   The behaviour before the fixes and the witnesses that refuted the property then are kept in
   CompactionBefore.v / CompactionBeforeProofs.v (last section of this file). *)
From KV Require Import Compaction CompactionProofs CompactionMerge CompactionReach CompactionReopen.
From KV Require CompactionBefore CompactionBeforeProofs.
Open Scope N_scope.

(* --- what CompactFiles computes --- *)
Theorem C12_exec_first_source_wins : forall keep max srcs k, Forall asc srcs ->
  first_hit k (exec_outputs keep max srcs) =
  match first_hit k srcs with
  | Some e => if keptf keep e then Some (zero_seq e) else None
  | None => None
  end.
Proof. exact exec_outputs_lookup. Qed.
Print Assumptions C12_exec_first_source_wins.

(* --- C12_merge: every task the strategies select preserves what every key reads as --- *)
Theorem C12_merge : forall dir c maxmem k t keep z key,
  WF dir c -> selected maxmem k dir t ->
  dread (apply_task keep k c z t dir) key = dread dir key.
Proof. exact merge_preserves. Qed.
Print Assumptions C12_merge.

(* ... in every reachable state, for the compaction cycle and for the range compaction *)
Theorem C12_merge_reachable : forall c k ops z lo hi key, prog_ok k ops ->
  let s := crun c k ops in
  disk_read (ctrigger s z) key = disk_read s key /\ disk_read (crange s lo hi z) key = disk_read s key.
Proof. exact merge_system. Qed.
Print Assumptions C12_merge_reachable.

(* --- outputs sorted, no duplicates (also across the split outputs), bounded; the directory
       stays well-formed --- *)
Theorem C12_outputs_sorted : forall keep max srcs, Forall asc srcs ->
  asc (concat (exec_outputs keep max srcs)) /\
  (1 <= max -> Forall (chunk_ok max) (exec_outputs keep max srcs)).
Proof. intros. split. apply exec_outputs_sorted; auto. intro. apply exec_outputs_chunks; auto. Qed.
Print Assumptions C12_outputs_sorted.

Theorem C12_task_keeps_wf : forall dir c maxmem k t keep z,
  WF dir c -> selected maxmem k dir t -> 1 <= cc_sstmax k ->
  WF (apply_task keep k c z t dir) (c + N.of_nat (length (task_outputs keep k c z t))).
Proof. exact task_keeps_wf. Qed.
Print Assumptions C12_task_keeps_wf.

Theorem C12_reachable_wf : forall c k ops, prog_ok k ops ->
  WF (disk (crun c k ops)) (clock (eng (crun c k ops))).
Proof. intros c k ops A. exact (c2_wf _ (reachable_wf c k ops A)). Qed.
Print Assumptions C12_reachable_wf.

(* --- C12_tombstone_safe: a deletion marker that wins the merge is kept whenever a table
       outside the inputs on the target level or deeper holds the key; the other tables holding
       the key are newer than every input holding it --- *)
Theorem C12_tombstone_safe : forall dir c maxmem k t keep key e g,
  WF dir c -> selected maxmem k dir t ->
  first_hit key (task_sources t) = Some e -> is_tomb e = true ->
  In g dir -> ~ In g (t_inputs t) -> dholds key g ->
  (t_target t <= d_level g -> task_keep keep t key = true) /\
  (d_level g < t_target t -> forall i, In i (t_inputs t) -> dholds key i -> dnewer g i).
Proof. exact tombstone_safe. Qed.
Print Assumptions C12_tombstone_safe.

Theorem C12_tombstone_tracked : forall ops s k r s',
  cdel s k = (s', r) -> is_ok r = true -> Forall no_reopen ops ->
  keep_of (tracked (fold_left cstep ops s')) k = true.
Proof. exact tombstone_tracked. Qed.
Print Assumptions C12_tombstone_tracked.

(* --- reopen --- *)
Theorem C12_live_reads_unaffected : forall s z lo hi k,
  cget (ctrigger s z) k = cget s k /\ cget (crange s lo hi z) k = cget s k.
Proof. exact live_reads_unaffected. Qed.
Print Assumptions C12_live_reads_unaffected.

(* the database reopened on the compacted files reads what it reads reopened on the files before
   the compaction: log kept (r = false) or flushed log files retired (r = true) *)
Theorem C12_reopen_ignores_compaction : forall c k ops z lo hi r key, prog_ok k ops ->
  let s := crun c k ops in
  cget (creopen (ctrigger s z) r) key = cget (creopen s r) key /\
  cget (creopen (crange s lo hi z) r) key = cget (creopen s r) key.
Proof. exact reopen_ignores_compaction. Qed.
Print Assumptions C12_reopen_ignores_compaction.

(* --- before the fixes: one witness per defect (model of the pinned code) --- *)
Theorem C12_before_fixes_same_key_in_two_l0_inputs :
  let s := CompactionBefore.crun CompactionBeforeProofs.cfg2 CompactionBeforeProofs.cc_off CompactionBeforeProofs.w_two_l0 in
  lost_log (CompactionBefore.eng s) = false /\ CompactionBefore.cget s CompactionBeforeProofs.kx = Some [2] /\
  CompactionBefore.cget (CompactionBefore.creopen (CompactionBefore.cfull s []) true) CompactionBeforeProofs.kx = Some [1].
Proof. exact CompactionBeforeProofs.reopen_refuted_two_l0. Qed.
Print Assumptions C12_before_fixes_same_key_in_two_l0_inputs.

Theorem C12_before_fixes_tombstone_dropped : ~ CompactionBeforeProofs.C12_tombstone_safe_statement.
Proof. exact CompactionBeforeProofs.tombstone_safe_refuted. Qed.
Print Assumptions C12_before_fixes_tombstone_dropped.

Theorem C12_before_fixes_reopen : ~ CompactionBeforeProofs.C12_reopen_statement.
Proof. exact CompactionBeforeProofs.reopen_refuted. Qed.
Print Assumptions C12_before_fixes_reopen.

(* --- known finding KF-C12-7: retiring the flushed log files at an arbitrary point (not right after
       a full flush) can lose the newer version: recovered tables are flushed a second time --- *)
Theorem C12_retire_anywhere_refuted : ~ C12_retire_anywhere_statement.
Proof. exact retire_anywhere_refuted. Qed.
Print Assumptions C12_retire_anywhere_refuted.
