(* Props/C12.v — property theorems for C12 (compaction preserves content; deleted keys stay
   deleted) only; each closed by `exact` of a lemma proved in CompactionProofs.v, with
   Print Assumptions beneath.

   The faithful model of the pinned code REFUTES the property as stated (statements kept as
   Definitions in CompactionProofs.v: C12_merge_statement, C12_tombstone_safe_statement,
   C12_reopen_statement). Proved here: what the executor computes (the FIRST source wins),
   that outputs/all reachable files are sorted without duplicates (full strength), content
   preservation under the explicit guard (C12_merge_partial), the parts of the deletion and
   reopen clauses that do hold, and one witness per defect class (…_refuted). *)
From KV Require Import Compaction CompactionProofs.
Open Scope N_scope.

(* --- what CompactFiles computes, for every list of ascending input tables --- *)
Theorem C12_exec_first_source_wins : forall keep max srcs k, Forall asc srcs ->
  first_hit k (exec_outputs keep max srcs) =
  match first_hit k srcs with
  | Some e => if keptf keep e then Some (zero_seq e) else None
  | None => None
  end.
Proof. exact exec_outputs_lookup. Qed.
Print Assumptions C12_exec_first_source_wins.

(* --- outputs sorted, no duplicate keys, also across the split outputs; for every task taken
       from a directory of ascending files (in particular every task a strategy selects) --- *)
Theorem C12_outputs_sorted : forall keep k clock sizes t dir,
  Forall dfile_ok dir -> incl (t_inputs t) dir ->
  let outs := task_outputs keep k clock sizes t in
  asc (concat (map d_entries outs)) /\
  Forall dfile_ok outs /\
  (1 <= cc_sstmax k -> Forall (fun f => chunk_ok (cc_sstmax k) (d_entries f)) outs) /\
  Forall (fun f => d_level f = t_target t) outs.
Proof. exact task_outputs_sorted. Qed.
Print Assumptions C12_outputs_sorted.

Theorem C12_selected_tasks_from_directory : forall maxmem k lo hi dir t,
  select maxmem k dir = Some t \/ select_range lo hi dir = Some t -> incl (t_inputs t) dir.
Proof. intros maxmem k lo hi dir t [H|H]. exact (select_incl _ _ _ _ H). exact (select_range_incl _ _ _ _ H). Qed.
Print Assumptions C12_selected_tasks_from_directory.

(* every file of every reachable directory: any workload, flushes, automatic/triggered/range
   compactions, restarts with and without log retirement *)
Theorem C12_files_sorted_reachable : forall c k ops,
  Forall (fun f => asc (d_entries f)) (disk (crun c k ops)).
Proof. intros. exact (co_disk _ (reachable_files_sorted c k ops)). Qed.
Print Assumptions C12_files_sorted_reachable.

(* --- content preservation, under the guard the pinned code does not meet --- *)
Theorem C12_merge_partial : forall keep max k (prec prec' ins A B : list (list sentry)),
  Forall asc ins ->
  filter (has k) prec = A ++ filter (has k) ins ++ B ->
  filter (has k) prec' = A ++ filter (has k) (exec_outputs keep max ins) ++ B ->
  (forall e, first_hit k ins = Some e -> keptf keep e = false -> read B k = None) ->
  read prec' k = read prec k.
Proof. exact view_preserved. Qed.
Print Assumptions C12_merge_partial.

Theorem C12_merge_partial_single_input : forall keep max k (prec prec' ins A B : list (list sentry)) t,
  Forall asc ins ->
  filter (has k) ins = [t] ->
  filter (has k) prec = A ++ [t] ++ B ->
  filter (has k) prec' = A ++ filter (has k) (exec_outputs keep max ins) ++ B ->
  (forall e, lookup k t = Some e -> keptf keep e = false -> read B k = None) ->
  read prec' k = read prec k.
Proof. exact view_preserved_single. Qed.
Print Assumptions C12_merge_partial_single_input.

(* witness: two level-0 files, same key, the strategy lists the OLDER first and it wins *)
Theorem C12_merge_refuted :
  exists t, select 2 cc_off two_l0_dir = Some t /\
            t_inputs t = two_l0_dir /\
            exec_outputs (fun _ => false) 1000000 (task_sources t) = [[mkS kx 0 (Some [1])]].
Proof. exact merge_refuted. Qed.
Print Assumptions C12_merge_refuted.

Theorem C12_merge_statement_refuted : ~ C12_merge_statement.
Proof. exact merge_statement_refuted. Qed.
Print Assumptions C12_merge_statement_refuted.

(* --- deletion markers --- *)
Theorem C12_tombstone_tracked_partial : forall ops s k r s',
  cdel s k = (s', r) -> is_ok r = true -> Forall no_reopen ops ->
  keep_of (tracked (fold_left cstep ops s')) k = true.
Proof. exact tombstone_tracked. Qed.
Print Assumptions C12_tombstone_tracked_partial.

Theorem C12_tombstone_safe_refuted : ~ C12_tombstone_safe_statement.
Proof. exact tombstone_safe_refuted. Qed.
Print Assumptions C12_tombstone_safe_refuted.

(* --- reopen --- *)
Theorem C12_live_reads_unaffected : forall s z lo hi k,
  cget (ctrigger s z) k = cget s k /\ cget (crange s lo hi z) k = cget s k.
Proof. exact live_reads_unaffected. Qed.
Print Assumptions C12_live_reads_unaffected.

Theorem C12_reopen_partial : forall s r k, cget (creopen (creopen s r) false) k = cget (creopen s r) k.
Proof. exact reopen_stable. Qed.
Print Assumptions C12_reopen_partial.

Theorem C12_reopen_refuted : ~ C12_reopen_statement.
Proof. exact reopen_refuted. Qed.
Print Assumptions C12_reopen_refuted.

(* one witness per known-finding class: the live database reads the latest write, the database
   reopened on the files alone (flushed log files retired) does not *)
Theorem C12_refuted_same_key_in_two_l0_inputs :
  let s := crun cfg2 cc_off w_two_l0 in
  lost_log (eng s) = false /\ cget s kx = Some [2] /\ cget (creopen (cfull s []) true) kx = Some [1].
Proof. exact reopen_refuted_two_l0. Qed.
Print Assumptions C12_refuted_same_key_in_two_l0_inputs.

Theorem C12_refuted_tombstone_dropped_after_restart :
  let s := crun cfg2 cc_off w_tomb_restart in
  lost_log (eng s) = false /\ cget s kx = None /\ cget (creopen (cfull s []) true) kx = Some [1].
Proof. exact reopen_refuted_tomb_restart. Qed.
Print Assumptions C12_refuted_tombstone_dropped_after_restart.

Theorem C12_refuted_tombstone_dropped_transaction :
  let s := crun cfg2 cc_off w_tomb_tx in
  lost_log (eng s) = false /\ cget s kx = None /\ cget (creopen (cfull s []) true) kx = Some [1].
Proof. exact reopen_refuted_tomb_tx. Qed.
Print Assumptions C12_refuted_tombstone_dropped_transaction.

Theorem C12_refuted_deeper_level_outranks :
  let s := crun cfg2 cc_off w_deeper in
  lost_log (eng s) = false /\ cget s kx = Some [2] /\ cget (creopen (cfull s []) true) kx = Some [1].
Proof. exact reopen_refuted_deeper. Qed.
Print Assumptions C12_refuted_deeper_level_outranks.

Theorem C12_refuted_file_numbers_restart :
  let s := crun cfg8 cc_off w_numbers in
  lost_log (eng s) = false /\ cget s kx = Some [3] /\ cget (creopen (cfull s []) true) kx = Some [2].
Proof. exact reopen_refuted_numbers. Qed.
Print Assumptions C12_refuted_file_numbers_restart.

Theorem C12_refuted_shallower_input_older_than_deeper :
  let s0 := crun cfg2 cc_off w_shallower in
  let s := crange s0 kx kx [] in
  map (fun f => (d_level f, d_entries f)) (dsort (disk s0)) =
    [(0, [mkS ka 1 (Some [0]); mkS kx 2 (Some [1])]); (1, [mkS ka 0 (Some [0]); mkS kx 0 (Some [2])])] /\
  map (fun f => (d_level f, d_entries f)) (disk s) = [(2, [mkS ka 0 (Some [0]); mkS kx 0 (Some [1])])] /\
  lost_log (eng s) = false /\ cget s kx = Some [2] /\ cget (creopen s true) kx = Some [1].
Proof. exact refuted_shallower_older. Qed.
Print Assumptions C12_refuted_shallower_input_older_than_deeper.

(* ties C12_merge_partial's abstract [read] to the model: with prec = the reverse file-name order
   it is exactly what a database opened on the directory alone reads, in every reachable state *)
Theorem C12_disk_read_is_read_in_name_order : forall c k ops key,
  let s := crun c k ops in
  disk_read s key = read (map s_entries (rev (sst_sort (map d_sst (disk s))))) key.
Proof. exact disk_read_as_read. Qed.
Print Assumptions C12_disk_read_is_read_in_name_order.
