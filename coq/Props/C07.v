(* Props/C07.v — property theorems for C07 (concurrent use never races, crashes or hangs the
   process).  The weakest tie of the twenty: the theorems are about abstract traces and about
   the TABLE that gofacts generates from the Go source on every run; that the executions of the
   Go code are traces conforming to the table is the translator's claim (trusted, see the
   trusted base), sampled by the race-detector stress runs of the harness. *)
From Coq Require Import List String.
From KV Require Import LockDiscipline LockDisciplineProofs LocksFacts.
From KV.gen Require Import Locks.
From KV.gen Require LockLeaks NilChecks.
Import ListNotations.

(* consistent lockset => no data race, on every trace that respects mutual exclusion *)
Theorem C07_lockset_sound : forall tr,
  wf tr -> (forall x, exists l, guarded tr x l) -> ~ race tr.
Proof. exact lockset_sound. Qed.
Print Assumptions C07_lockset_sound.

(* ranked acquisition (never re-acquiring a held lock) => no wait-for cycle in any reached state *)
Theorem C07_ranked_no_deadlock : forall rank tr pend,
  (forall t l, In (t, l) pend -> forall m, ranked rank (tr ++ [Acq t l m])%list) ->
  ~ wait_cycle (run [] tr) pend.
Proof. exact ranked_no_deadlock. Qed.
Print Assumptions C07_ranked_no_deadlock.

(* the decision procedures are sound *)
Theorem C07_protectedb_sound : forall t, protectedb t = true -> protected t.
Proof. exact protectedb_sound. Qed.
Print Assumptions C07_protectedb_sound.

Theorem C07_acyclicb_sound : forall g, acyclicb g = true -> acyclic g.
Proof. exact acyclicb_sound. Qed.
Print Assumptions C07_acyclicb_sound.

(* the generated table *)
Theorem C07_fields_protected : protectedb gen_accesses = true.
Proof. exact LocksFacts.C07_fields_protected. Qed.
Print Assumptions C07_fields_protected.

Theorem C07_lock_order_acyclic : acyclicb gen_order = true.
Proof. exact LocksFacts.C07_lock_order_acyclic. Qed.
Print Assumptions C07_lock_order_acyclic.

Theorem C07_conforming_traces_race_free : forall tr,
  wf tr -> conforms gen_accesses tr -> ~ race tr.
Proof. exact LocksFacts.C07_conforming_traces_race_free. Qed.
Print Assumptions C07_conforming_traces_race_free.

Theorem C07_ordered_traces_deadlock_free : forall tr pend,
  (forall t l, In (t, l) pend -> forall m, follows gen_order (tr ++ [Acq t l m])%list) ->
  ~ wait_cycle (run [] tr) pend.
Proof. exact LocksFacts.C07_ordered_traces_deadlock_free. Qed.
Print Assumptions C07_ordered_traces_deadlock_free.

(* no way out of an explicit Lock()/Unlock() region leaves the mutex locked (generated table) *)
Theorem C07_no_lock_left_on_exit :
  forallb (fun r => existsb (row_eqb r) known_lock_holders) LockLeaks.lock_leaks = true.
Proof. exact LocksFacts.C07_no_lock_left_on_exit. Qed.
Print Assumptions C07_no_lock_left_on_exit.

(* the nil answer of a look-up function is tested before the result is used (generated table) *)
Theorem C07_lookups_tested_before_use : NilChecks.nil_unchecked = [].
Proof. exact LocksFacts.C07_lookups_tested_before_use. Qed.
Print Assumptions C07_lookups_tested_before_use.
