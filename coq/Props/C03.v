(* Props/C03.v — property theorems for C03 (transaction atomicity); each closed by `exact` of
   a lemma proved in EngineCrashProofs.v, with Print Assumptions beneath. *)
From Coq Require Import Sorted.
From KV Require Import Bytes Spec Memtable WalCodec Engine EngineProofs EngineCrashProofs.
Open Scope N_scope.

Theorem C03_crash_atomic : forall c ops q,
  lost_log (run c ops) = false ->
  let s := run c ops in
  let m := surv_count s q (ack_seqs (init c) ops) in
  concat (wal_files (crash s q)) =
    log_of (firstn m (ack_seqs (init c) ops)) (firstn m (acked (init c) ops)) /\
  forall i n w, nth_error (history c ops) i = Some (n, w) ->
    ((i < m)%nat /\ incl (wstamp (n, w)) (concat (wal_files (crash s q)))) \/
    ((m <= i)%nat /\ forall e, In e (wstamp (n, w)) -> ~ In e (concat (wal_files (crash s q)))).
Proof. exact EngineCrashProofs.C03_crash_atomic. Qed.
Print Assumptions C03_crash_atomic.

Theorem C03_torn_refuted : exists c ops n ka kb va vb tx,
  lost_log (run c ops) = false /\
  In (WBatch tx) (acked (init c) ops) /\ In (ka, Some va) tx /\ In (kb, Some vb) tx /\
  lost_log (recover (crash_torn (run c ops) n)) = false /\
  get (recover (crash_torn (run c ops) n)) ka = Some va /\
  get (recover (crash_torn (run c ops) n)) kb = None /\
  get (run c ops) kb = Some vb.
Proof. exact EngineCrashProofs.C03_torn_refuted. Qed.
Print Assumptions C03_torn_refuted.

Theorem C03_torn_partial : forall c ops q,
  lost_log (run c ops) = false ->
  let s := run c ops in
  crash_torn s (length (cut_seq q (last (wal_files s) []))) = crash s q.
Proof. exact EngineCrashProofs.C03_torn_partial. Qed.
Print Assumptions C03_torn_partial.

Theorem C03_torn_boundary : forall c ops,
  lost_log (run c ops) = false ->
  let s := run c ops in
  exists hs0 hl,
    history c ops = concat hs0 ++ hl /\
    wal_files s = map wentries hs0 ++ [wentries hl] /\
    forall j, exists q, crash_torn s (length (wentries (firstn j hl))) = crash s q.
Proof. exact EngineCrashProofs.C03_torn_boundary. Qed.
Print Assumptions C03_torn_boundary.

Theorem C03_last_op_wins : forall ops,
  StronglySorted (fun a b : bop => bcmp (fst a) (fst b) = Lt) (buffer_ops ops) /\
  (forall k, last_effect k (buffer_ops ops) = last_effect k ops) /\
  (forall h k, spec_get (h ++ [WBatch (buffer_ops ops)]) k = spec_get (h ++ [WBatch ops]) k).
Proof. exact EngineCrashProofs.C03_last_op_wins. Qed.
Print Assumptions C03_last_op_wins.

Theorem C03_rollback_no_trace : forall s ops,
  step s (ORollback ops) = s /\
  (forall s', tx_commit s ops = (s', WrOverflow) -> s' = s).
Proof. exact EngineCrashProofs.C03_rollback_no_trace. Qed.
Print Assumptions C03_rollback_no_trace.
