(* Props/C03.v — property theorems for C03 (transaction atomicity); each closed by `exact` of
   a lemma proved in EngineCrashProofs.v (crash / torn write / buffer / rollback) or
   TxnAtomicProofs.v (concurrent readers, history checker, lock facts), with Print Assumptions
   beneath. *)
From Coq Require Import Sorted.
From KV Require Import Bytes Spec Memtable WalCodec Engine EngineProofs EngineCrashProofs.
From KV Require Import TxnAtomic TxnAtomicProofs.
Open Scope N_scope.

Theorem C03_crash_atomic : forall c ops q,
  lost_log (run c ops) = false ->
  let s := run c ops in
  let m := surv_count s q (ack_seqs (init c) ops) in
  concat (wal_files (crash s q)) =
    log_of (firstn m (ack_seqs (init c) ops)) (firstn m (acked (init c) ops)) /\
  forall i n w, nth_error (history c ops) i = Some (n, w) ->
    ((i < m)%nat /\ incl (wstamp (n, w)) (concat (wal_files (crash s q)))) \/
    ((m <= i)%nat /\ forall e, In e (wstamp (n, w)) -> ~ In e (concat (wal_files (crash s q)))).
Proof. exact EngineCrashProofs.C03_crash_atomic. Qed.
Print Assumptions C03_crash_atomic.

Theorem C03_torn_refuted : exists c ops n ka kb va vb tx,
  lost_log (run c ops) = false /\
  In (WBatch tx) (acked (init c) ops) /\ In (ka, Some va) tx /\ In (kb, Some vb) tx /\
  lost_log (recover (crash_torn (run c ops) n)) = false /\
  get (recover (crash_torn (run c ops) n)) ka = Some va /\
  get (recover (crash_torn (run c ops) n)) kb = None /\
  get (run c ops) kb = Some vb.
Proof. exact EngineCrashProofs.C03_torn_refuted. Qed.
Print Assumptions C03_torn_refuted.

Theorem C03_torn_partial : forall c ops q,
  lost_log (run c ops) = false ->
  let s := run c ops in
  crash_torn s (length (cut_seq q (last (wal_files s) []))) = crash s q.
Proof. exact EngineCrashProofs.C03_torn_partial. Qed.
Print Assumptions C03_torn_partial.

Theorem C03_torn_boundary : forall c ops,
  lost_log (run c ops) = false ->
  let s := run c ops in
  exists hs0 hl,
    history c ops = concat hs0 ++ hl /\
    wal_files s = map wentries hs0 ++ [wentries hl] /\
    forall j, exists q, crash_torn s (length (wentries (firstn j hl))) = crash s q.
Proof. exact EngineCrashProofs.C03_torn_boundary. Qed.
Print Assumptions C03_torn_boundary.

Theorem C03_last_op_wins : forall ops,
  StronglySorted (fun a b : bop => bcmp (fst a) (fst b) = Lt) (buffer_ops ops) /\
  (forall k, last_effect k (buffer_ops ops) = last_effect k ops) /\
  (forall h k, spec_get (h ++ [WBatch (buffer_ops ops)]) k = spec_get (h ++ [WBatch ops]) k).
Proof. exact EngineCrashProofs.C03_last_op_wins. Qed.
Print Assumptions C03_last_op_wins.

Theorem C03_rollback_no_trace : forall s ops,
  step s (ORollback ops) = s /\
  (forall s', tx_commit s ops = (s', WrOverflow) -> s' = s).
Proof. exact EngineCrashProofs.C03_rollback_no_trace. Qed.
Print Assumptions C03_rollback_no_trace.

(* ---------- concurrent readers (TxnAtomic.v: one step per critical section) ---------- *)

(* every Get, every read and scan of a read-only transaction returns the values after the
   write-granular prefix of the acknowledged history that precedes the step: a batch is one
   element of that history, so no reader step sees a strict subset of it *)
Theorem C03_no_partial_view : forall c pre l post s1,
  crun (cinit c) (pre ++ l :: post) = Some s1 ->
  let H := twrites (cinit c) (pre ++ l :: post) in
  let n := length (twrites (cinit c) pre) in
  match l with
  | LRead _ ks vs => vs = map (spec_get (firstn n (hwrites H))) ks
  | LRoGet _ k v => v = spec_get (firstn n (hwrites H)) k
  | LRoScan _ ks vs => vs = map (spec_get (firstn n (hwrites H))) ks
  | _ => True
  end.
Proof. exact TxnAtomicProofs.no_partial_view. Qed.
Print Assumptions C03_no_partial_view.

(* a read-only transaction against transactional writers: no write is acknowledged while it is
   open and all its reads (gets and scans) see one and the same prefix *)
Theorem C03_ro_tx_snapshot : forall c r pre body post s1 lo hi,
  crun (cinit c) (pre ++ LRoBegin r :: body ++ post) = Some s1 ->
  Forall (tx_only r) body ->
  (lo <= length (twrites (cinit c) pre) <= hi)%nat ->
  twrites (cinit c) (pre ++ LRoBegin r :: body) = twrites (cinit c) pre /\
  consistent (twrites (cinit c) (pre ++ LRoBegin r :: body ++ post))
             (mkObs MSection lo hi (flat_map (sel_ro_all r) body)).
Proof. exact TxnAtomicProofs.ro_tx_snapshot_consistent. Qed.
Print Assumptions C03_ro_tx_snapshot.

(* with writers that bypass the transaction lock (Engine.Put / ApplyBatch) in the mix: each Get
   of the read-only transaction sees a prefix, and between two of them only such writes are
   acknowledged — never a transaction commit *)
Theorem C03_ro_tx_gets : forall c r pre body post s1 lo hi,
  crun (cinit c) (pre ++ LRoBegin r :: body ++ post) = Some s1 ->
  Forall (not_end r) body ->
  (lo <= length (twrites (cinit c) pre))%nat ->
  (length (twrites (cinit c) (pre ++ LRoBegin r :: body)) <= hi)%nat ->
  consistent (twrites (cinit c) (pre ++ LRoBegin r :: body ++ post))
             (mkObs MRoTx lo hi (flat_map (sel_ro r) body)).
Proof. exact TxnAtomicProofs.ro_tx_consistent. Qed.
Print Assumptions C03_ro_tx_gets.

(* reads inside one shared section (a Get; a scan made while no write is in flight) *)
Theorem C03_section_reads : forall c cl ks vs pre post s1 lo hi,
  crun (cinit c) (pre ++ LRead cl ks vs :: post) = Some s1 ->
  (lo <= length (twrites (cinit c) pre) <= hi)%nat ->
  consistent (twrites (cinit c) (pre ++ LRead cl ks vs :: post))
             (mkObs MSection lo hi (combine ks vs)).
Proof. exact TxnAtomicProofs.section_consistent. Qed.
Print Assumptions C03_section_reads.

(* separate Gets of one client may straddle a commit, each is atomic, none goes back *)
Theorem C03_client_reads : forall c cl pre body post s1 lo hi,
  crun (cinit c) (pre ++ body ++ post) = Some s1 ->
  (lo <= length (twrites (cinit c) pre))%nat ->
  (length (twrites (cinit c) (pre ++ body)) <= hi)%nat ->
  consistent (twrites (cinit c) (pre ++ body ++ post))
             (mkObs MFree lo hi (flat_map (sel_client cl) body)).
Proof. exact TxnAtomicProofs.client_consistent. Qed.
Print Assumptions C03_client_reads.

(* the extracted checker decides [consistent] exactly; with the theorems above: every
   observation the system can produce is accepted, so a rejected recorded history is not a
   behaviour of the model *)
Theorem C03_atomic_check_correct : forall H o, atomic_check H o = true <-> consistent H o.
Proof. exact TxnAtomicProofs.atomic_check_correct. Qed.
Print Assumptions C03_atomic_check_correct.

Theorem C03_lts_accepted_ro : forall c r pre body post s1 lo hi,
  crun (cinit c) (pre ++ LRoBegin r :: body ++ post) = Some s1 ->
  Forall (not_end r) body ->
  (lo <= length (twrites (cinit c) pre))%nat ->
  (length (twrites (cinit c) (pre ++ LRoBegin r :: body)) <= hi)%nat ->
  atomic_check (twrites (cinit c) (pre ++ LRoBegin r :: body ++ post))
               (mkObs MRoTx lo hi (flat_map (sel_ro r) body)) = true.
Proof. exact TxnAtomicProofs.lts_accepted_ro. Qed.
Print Assumptions C03_lts_accepted_ro.

(* ---------- the critical sections, from the Go source (coq/gen/TxnLocks.v) ---------- *)
Theorem C03_locks_applybatch_exclusive : Locks.applybatch_ok = true.
Proof. exact TxnAtomicProofs.locks_applybatch_exclusive. Qed.
Print Assumptions C03_locks_applybatch_exclusive.
Theorem C03_locks_put_delete_exclusive : Locks.put_delete_ok = true.
Proof. exact TxnAtomicProofs.locks_put_delete_exclusive. Qed.
Theorem C03_locks_readers_shared : Locks.readers_ok = true.
Proof. exact TxnAtomicProofs.locks_readers_shared. Qed.
Theorem C03_locks_tx_commit_under_txlock : Locks.tx_ok = true.
Proof. exact TxnAtomicProofs.locks_tx_commit_under_txlock. Qed.
Print Assumptions C03_locks_tx_commit_under_txlock.

(* ---------- observation (not a violation of C03): a scan that is already running is not
   isolated from later writes by the memtable snapshot ---------- *)
Theorem C03_obs_iter_sees_later_write : exists c ka kb kc v1 v2 s,
  crun (cinit c)
    [LApply [(ka, Some v1)]; LIterNew 0; LIterRead 0 kb None;
     LApply [(kb, Some v2); (kc, Some v2)]; LIterRead 0 kc (Some v2)] = Some s /\
  (exists s', crun (cinit c)
    [LIterNew 0; LIterRead 0 kb None;
     LApply [(kb, Some v2); (kc, Some v2)]; LIterRead 0 kc (Some v2)] = Some s').
Proof. exact TxnAtomicProofs.iter_sees_later_write. Qed.
Print Assumptions C03_obs_iter_sees_later_write.

(* ---------- why D13 stays a known finding: no recovery procedure can repair it ---------- *)
(* a committed {a,b} stopped cleanly and a committed {a,b,c} whose last log write was torn after
   two entries leave the SAME disk state; any recovery returns the same for both *)
Theorem C03_torn_needs_commit_marker : exists c opsA opsB n txA txB extra,
  acked (init c) opsA = [WBatch txA] /\ acked (init c) opsB = [WBatch txB] /\
  txB = txA ++ [extra] /\
  lost_log (run c opsA) = false /\ lost_log (run c opsB) = false /\
  crash_torn (run c opsB) n = crash (run c opsA) (wal_next (run c opsA)) /\
  forall rec : st -> st, rec (crash_torn (run c opsB) n) = rec (crash (run c opsA) (wal_next (run c opsA))).
Proof. exact TxnAtomicProofs.torn_needs_commit_marker. Qed.
Print Assumptions C03_torn_needs_commit_marker.
