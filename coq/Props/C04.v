(* Props/C04.v — property theorems for C04 (transactions are serializable with respect to each
   other); each closed by `exact` of a lemma proved in TxnProofs.v, Print Assumptions beneath.
   Model: Txn.v (labelled transition system of the calls Begin/Get/Put/Delete/scan/Commit/
   Rollback and the lock release, over the committed store, the RWMutex state and the
   per-transaction buffer/active/lock flags).  `serializable` is Txn.serializable: a permutation
   of the transactions of the history, consistent with real time, whose serial execution by the
   sequential specification (Txn.spec_step) returns every recorded result. *)
From KV Require Import Bytes Txn TxnProofs TxnFacts.
Open Scope N_scope.

(* all interleavings: any trace of the transition system, any number of transactions *)
Theorem C04_serializable : forall S0 tr s,
  steps (init S0) tr s -> serializable S0 (hist_of tr).
Proof. exact lts_serializable. Qed.
Print Assumptions C04_serializable.

(* the witness is the order of lock acquisition; the serial execution also ends in the same
   committed store; per transaction the history lists the calls in time order *)
Theorem C04_serial_witness : forall S0 tr s,
  steps (init S0) tr s ->
  let h := hist_of tr in
  NoDup (begin_order h) /\
  (forall t, In t (begin_order h) <-> In t (map h_tx h)) /\
  rt_consistent h (begin_order h) /\
  serial_run S0 h (begin_order h) = Some (s_store s) /\
  hist_wf h.
Proof. exact lts_serial_witness. Qed.
Print Assumptions C04_serial_witness.

(* a transaction sees its own uncommitted writes, whatever others do in between *)
Theorem C04_own_writes : forall s t k v s1 tr s2 s3 r,
  exec s t (CPut k v) = Some (s1, ROk) ->
  steps s1 tr s2 -> (forall l, In l tr -> ~ disturbs t k l) ->
  exec s2 t (CGet k) = Some (s3, r) -> r = RVal (Some v).
Proof. exact own_put. Qed.
Print Assumptions C04_own_writes.

Theorem C04_own_deletes : forall s t k s1 tr s2 s3 r,
  exec s t (CDel k) = Some (s1, ROk) ->
  steps s1 tr s2 -> (forall l, In l tr -> ~ disturbs t k l) ->
  exec s2 t (CGet k) = Some (s3, r) -> r = RVal None.
Proof. exact own_delete. Qed.
Print Assumptions C04_own_deletes.

(* it never sees another transaction's uncommitted writes: any call of another transaction
   other than Commit leaves the result of each of its calls unchanged *)
Theorem C04_no_dirty_read : forall s t' c' s' r' t c,
  exec s t' c' = Some (s', r') -> t <> t' -> c' <> CCommit ->
  (forall m, c <> CBegin m) ->
  result_of (exec s' t c) = result_of (exec s t c).
Proof. exact no_dirty_read. Qed.
Print Assumptions C04_no_dirty_read.

(* while a read-write transaction is active, no other transaction is *)
Theorem C04_rw_exclusive : forall S0 tr s t x t' x',
  steps (init S0) tr s ->
  find_tx t (s_txs s) = Some x -> x_mode (t_spec x) = RW -> x_active (t_spec x) = true ->
  find_tx t' (s_txs s) = Some x' -> x_active (t_spec x') = true -> t' = t.
Proof. exact rw_exclusive. Qed.
Print Assumptions C04_rw_exclusive.

(* a read-only transaction reads one and the same committed state for its whole lifetime:
   the store at its Begin *)
Theorem C04_ro_snapshot : forall S0 tr1 s1 t s1' r0 tr2 s2 k s3 r,
  steps (init S0) tr1 s1 -> exec s1 t (CBegin RO) = Some (s1', r0) ->
  steps s1' tr2 s2 -> exec s2 t (CGet k) = Some (s3, r) ->
  r = RVal (st_get k (s_store s1)) \/ r = RClosed.
Proof. exact ro_snapshot_get. Qed.
Print Assumptions C04_ro_snapshot.

Theorem C04_ro_snapshot_scan : forall S0 tr1 s1 t s1' r0 tr2 s2 lo hi s3 r,
  steps (init S0) tr1 s1 -> exec s1 t (CBegin RO) = Some (s1', r0) ->
  steps s1' tr2 s2 -> exec s2 t (CScan lo hi) = Some (s3, r) ->
  r = RRows (scan lo hi [] (s_store s1)) \/ r = RRows [].
Proof. exact ro_snapshot_scan. Qed.
Print Assumptions C04_ro_snapshot_scan.

(* the executable checker applied to the recorded histories of the real code is sound for the
   same definition *)
Theorem C04_ser_check_sound : forall S0 h,
  ser_check S0 h = true -> serializable S0 h /\ hist_wf h.
Proof. exact ser_check_sound. Qed.
Print Assumptions C04_ser_check_sound.

(* and it accepts every history of the model: a rejected recorded history means the
   implementation left the model *)
Theorem C04_ser_check_complete_on_model : forall S0 tr s,
  steps (init S0) tr s -> ser_check S0 (hist_of tr) = true.
Proof. exact ser_check_complete_lts. Qed.
Print Assumptions C04_ser_check_complete_on_model.

(* the methods of pkg/transaction still have the structure the model transcribes (facts
   regenerated from the Go source by gofacts on every run) *)
Theorem C04_code_facts : code_facts.
Proof. exact code_facts_hold. Qed.
Print Assumptions C04_code_facts.

(* ... and each of those operations is one critical section of the transaction object's own
   mutex (generated from the source): the atomic steps the serializability proof runs over *)
Theorem C04_operations_atomic : TxnFacts.tx_ops_atomic = true.
Proof. exact TxnFacts.tx_ops_atomic_ok. Qed.
Print Assumptions C04_operations_atomic.
