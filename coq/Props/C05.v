(* Props/C05.v — property C05 "scans return exactly the live keys, once, in order, within
   bounds": theorems only, each closed by `exact` of a lemma proved in IterProofs.v /
   ScanProofs.v, with Print Assumptions beneath.
   Reading guide: [run c ops] is the engine model after a program (put/delete/batch/commit/
   rollback/flush/close+reopen), [acked (init c) ops] its acknowledged write history;
   [eng_iter s] the iterator engine.GetIterator builds on state s (hierarchical over the active
   memtable, the immutable memtables newest first, the SSTables newest first), [eng_range_it lo
   hi] the bounded iterator of GetRangeIterator, [tx_full]/[tx_range] the iterators of a
   transaction with buffered operations, [filtered_iter] the prefix/suffix wrappers, [scan]
   the consumer loop of service.Scan, [collect] everything an iterator surfaces (deletion
   markers as None). [spec_scan]/[spec_view] are the specification (ScanSpec.v).
   Guard [lost_log = false]: the state is not one in which recovery set the log aside (D11). *)
From Coq Require Import List NArith Bool Sorted.
From KV Require Import Bytes Spec ScanSpec Memtable Engine EngineProofs Iter IterProofs ScanProofs.
Import ListNotations.
Open Scope N_scope.

(* ---- the specification list is determined by three properties ---- *)
Theorem C05_spec_scan_char : forall h lo hi sel,
  StronglySorted (fun a b => blt (fst a) (fst b) = true) (spec_scan h lo hi sel) /\
  forall k v, In (k, v) (spec_scan h lo hi sel) <->
              spec_get h k = Some v /\ in_range lo hi k = true /\ sel k = true.
Proof. exact spec_scan_char. Qed.
Print Assumptions C05_spec_scan_char.

(* ---- the hierarchical iterator over ANY sorted sources (memtables: key ascending, versions
        of a key newest first; tables and buffers: strictly ascending) ---- *)
Theorem C05_hier_scan : forall srcs, Forall src_ok srcs ->
  collect eng_it (hier_new srcs) = merge_view (map s_all srcs).
Proof. exact hier_scan_sources. Qed.
Print Assumptions C05_hier_scan.

(* each key once, strictly ascending, with the entry of the first (newest) source that has it *)
Theorem C05_merge_view_spec : forall cs, Forall ksorted cs ->
  kstrict (merge_view cs) /\ forall k v, In (k, v) (merge_view cs) <-> first_val k cs = Some v.
Proof. exact merge_view_spec. Qed.
Print Assumptions C05_merge_view_spec.

Example C05_hier_scan_ex :
  let m := mkSrc KMem [([1], Some [10]); ([3], None); ([3], Some [30]); ([5], Some [50])] [] in
  let t := mkSrc KSst [([2], Some [20]); ([3], Some [33]); ([7], Some [70])] [] in
  collect eng_it (hier_new [m; t]) =
    [([1], Some [10]); ([2], Some [20]); ([3], None); ([5], Some [50]); ([7], Some [70])].
Proof. vm_compute. reflexivity. Qed.

(* ---- engine scans over every reachable state ---- *)
Theorem C05_scan : forall c ops lo hi limit, lost_log (run c ops) = false ->
  scan (eng_range_it lo hi) limit (eng_iter (run c ops)) =
  spec_scan_limit (acked (init c) ops) lo hi (fun _ => true) limit.
Proof. exact eng_scan_range. Qed.
Print Assumptions C05_scan.

Theorem C05_scan_full : forall c ops limit, lost_log (run c ops) = false ->
  scan eng_it limit (eng_iter (run c ops)) =
  spec_scan_limit (acked (init c) ops) None None (fun _ => true) limit.
Proof. exact eng_scan_full. Qed.
Print Assumptions C05_scan_full.

(* prefix/suffix (any key predicate) composed with bounds *)
Theorem C05_scan_filtered : forall c ops lo hi f limit, lost_log (run c ops) = false ->
  scan (filtered_iter (eng_range_it lo hi) f) limit (eng_iter (run c ops)) =
  spec_scan_limit (acked (init c) ops) lo hi f limit.
Proof. exact eng_scan_filtered. Qed.
Print Assumptions C05_scan_filtered.

(* the iterator itself surfaces every written key of the range once, ascending, a deleted key
   as a deletion marker *)
Theorem C05_collect : forall c ops lo hi, lost_log (run c ops) = false ->
  collect (eng_range_it lo hi) (eng_iter (run c ops)) =
  filter (fun x => in_range lo hi (fst x)) (spec_view (acked (init c) ops)).
Proof. exact eng_collect_range. Qed.
Print Assumptions C05_collect.

Example C05_scan_ex :
  let ops := [OPut [1] [10]; OPut [2] [20]; OFlush; OPut [2] [21]; ODel [1]; OPut [3] [30];
              OBatch [([4], Some [40]); ([3], None)]; OPut [5] []] in
  let s := run (mkCfg 60 1000) ops in
  lost_log s = false /\ length (eng_sources s) = 4%nat /\
  scan eng_it 0 (eng_iter s) = [([2], [21]); ([4], [40]); ([5], [])] /\
  scan (eng_range_it (Some [3]) None) 1 (eng_iter s) = [([4], [40])].
Proof. vm_compute. repeat split. Qed.

(* ---- positions ---- *)
Theorem C05_seek : forall c ops t, lost_log (run c ops) = false ->
  least_ge (spec_view (acked (init c) ops)) t (pos eng_it (fst (i_seek eng_it t (eng_iter (run c ops))))).
Proof. exact eng_seek. Qed.
Print Assumptions C05_seek.

Theorem C05_seek_last : forall c ops, lost_log (run c ops) = false ->
  greatest (spec_view (acked (init c) ops)) (pos eng_it (i_last eng_it (eng_iter (run c ops)))).
Proof. exact eng_seek_last. Qed.
Print Assumptions C05_seek_last.

Theorem C05_next_after_seek : forall c ops t, lost_log (run c ops) = false ->
  let s1 := fst (i_seek eng_it t (eng_iter (run c ops))) in
  i_valid eng_it s1 = true ->
  least_gt (spec_view (acked (init c) ops)) (i_key eng_it s1) (pos eng_it (fst (i_next eng_it s1))).
Proof. exact eng_next_after_seek. Qed.
Print Assumptions C05_next_after_seek.

(* SeekToLast of the range iterator: greatest key in [lo, hi) *)
Theorem C05_range_seek_last : forall c ops lo hi, lost_log (run c ops) = false ->
  greatest (filter (fun x => in_range lo hi (fst x)) (spec_view (acked (init c) ops)))
           (pos (eng_range_it lo hi) (i_last (eng_range_it lo hi) (eng_iter (run c ops)))).
Proof. exact eng_range_seek_last. Qed.
Print Assumptions C05_range_seek_last.

(* Seek of the range iterator, wherever it stands (here after SeekToFirst): the least key >=
   target within the range, invalid when there is none. Holds for the repaired
   BoundedIterator.Seek (Iter.bounded_seek_miss_moves = true); for the Seek of the pinned tree
   (defect D25) see the witness below. *)
Theorem C05_range_seek : forall c ops lo hi t, lost_log (run c ops) = false ->
  least_ge (filter (fun x => in_range lo hi (fst x)) (spec_view (acked (init c) ops))) t
           (pos (eng_range_it lo hi) (fst (i_seek (eng_range_it lo hi) t
                                             (i_first (eng_range_it lo hi) (eng_iter (run c ops)))))).
Proof. exact eng_range_seek_exact. Qed.
Print Assumptions C05_range_seek.

Theorem C05_bounded_seek_stale_refuted :
  let t := mkSrc KSst [([1], Some [1]); ([3], Some [3]); ([5], Some [5]); ([7], Some [7])] [] in
  let h1 := i_first (eng_range_it (Some [1]) (Some [6])) (hier_new [t]) in
  let r := b_seek_gen eng_it (Some [1]) (Some [6]) false [9] h1 in
  snd r = false /\ b_check eng_it (Some [1]) (Some [6]) (fst r) = true /\ i_key eng_it (fst r) = [1] /\
  b_check eng_it (Some [1]) (Some [6]) (fst (b_seek_gen eng_it (Some [1]) (Some [6]) true [9] h1)) = false.
Proof. exact bounded_seek_stale_refuted. Qed.
Print Assumptions C05_bounded_seek_stale_refuted.

(* D24 (repaired since): the pinned SeekToLast (b_last_pinned) ends invalid although keys are in range *)
Theorem C05_seek_to_last_pinned_refuted :
  let t := mkSrc KSst [([1], Some [1]); ([3], Some [3]); ([5], Some [5]); ([7], Some [7])] [] in
  let h := hier_new [t] in
  b_check eng_it (Some [1]) (Some [6]) (b_last_pinned eng_it (Some [6]) h) = false /\
  pos (eng_range_it (Some [1]) (Some [6])) (i_last (eng_range_it (Some [1]) (Some [6])) h) = Some ([5], Some [5]).
Proof. exact seek_to_last_pinned_refuted. Qed.
Print Assumptions C05_seek_to_last_pinned_refuted.

(* ---- transactions: the buffered writes and deletes overlaid ---- *)
Theorem C05_tx_overlay : forall c ops txops, lost_log (run c ops) = false ->
  collect tx_it (tx_full (run c ops) txops) = spec_view (overlay (acked (init c) ops) txops).
Proof. exact tx_collect_full. Qed.
Print Assumptions C05_tx_overlay.

Theorem C05_tx_scan : forall c ops txops limit, lost_log (run c ops) = false ->
  scan tx_it limit (tx_full (run c ops) txops) =
  spec_scan_limit (overlay (acked (init c) ops) txops) None None (fun _ => true) limit.
Proof. exact tx_scan_full. Qed.
Print Assumptions C05_tx_scan.

Theorem C05_tx_scan_range : forall c ops txops lo hi limit, lost_log (run c ops) = false ->
  scan (tx_range_it lo hi) limit (tx_range (run c ops) txops) =
  spec_scan_limit (overlay (acked (init c) ops) txops) lo hi (fun _ => true) limit.
Proof. exact tx_scan_range. Qed.
Print Assumptions C05_tx_scan_range.

(* service.Scan / TxScan with prefix and suffix *)
Theorem C05_tx_scan_prefix_suffix : forall c ops txops p q limit, lost_log (run c ops) = false ->
  scan (filtered_iter (filtered_iter tx_it (prefix_filter p)) (suffix_filter q)) limit
       (tx_full (run c ops) txops) =
  spec_scan_limit (overlay (acked (init c) ops) txops) None None
                  (fun k => has_prefix p k && has_suffix q k) limit.
Proof. exact tx_scan_prefix_suffix. Qed.
Print Assumptions C05_tx_scan_prefix_suffix.

Example C05_tx_overlay_ex :
  let ops := [OPut [1] [10]; OPut [2] [20]; OFlush; OPut [2] [21]; OPut [4] [40]] in
  let s := run (mkCfg 60 1000) ops in
  scan tx_it 0 (tx_full s [([2], None); ([6], Some [60]); ([1], Some [11])]) = [([1], [11]); ([4], [40]); ([6], [60])].
Proof. vm_compute. reflexivity. Qed.

(* ---- a scan that runs while other clients write (partial: see the comment at
        ScanProofs.eng_concurrent_scan for what the step model covers) ---- *)
Theorem C05_concurrent_partial : forall c ops (W : bytes -> Prop) steps,
  lost_log (run c ops) = false ->
  let srcs := eng_sources (run c ops) in
  legal src_iter src_ok s_cur W (hier_first src_iter (hier_new srcs)) steps ->
  let res := cscan src_iter srcs steps in
  kstrict (snd res) /\
  (h_valid (fst res) = false ->
   forall k v, W k -> latest (acked (init c) ops) k = Some v -> In (k, v) (snd res)).
Proof. exact eng_concurrent_scan. Qed.
Print Assumptions C05_concurrent_partial.

(* a memtable insert (anywhere among the versions of its key, ahead of or behind the iterator)
   is a legal writer step for every other key *)
Theorem C05_memtable_insert_is_writer_step : forall i e s,
  src_ok s -> s_kind s = KMem -> ksorted (ins_at i e (s_all s)) ->
  src_ok (src_write i e s) /\
  (forall k, k <> fst e -> lookup k (s_cur (src_write i e s)) = lookup k (s_cur s)) /\
  (forall k, k <> fst e -> lookup k (s_all (src_write i e s)) = lookup k (s_all s)).
Proof. exact src_write_step. Qed.
Print Assumptions C05_memtable_insert_is_writer_step.

(* The concurrent clause over real schedules of goroutines, flushes and compactions is not a
   theorem here: the step model takes each iterator call as atomic with respect to writer
   steps (an insert becomes visible by one atomic pointer store; C18), and the harness samples
   real interleavings (header conc=1). *)
