(* Props/C13.v — property theorems for C13 only (a replica applies the primary's log in order,
   exactly once); each closed by `exact` of a lemma proved in ReplProofs.v, with Print
   Assumptions beneath. *)
From KV Require Import Bytes WalCodec Repl ReplProofs.
Open Scope N_scope.

(* ---- the wire: what the primary serialises is what the replica deserialises ---- *)
Theorem C13_codec : forall e, wire_ok e = true -> deserialize (serialize e) = DOk (canon e).
Proof. exact deserialize_serialize. Qed.
Print Assumptions C13_codec.

(* decompress (compress x) = x is the stated hypothesis on the external codecs *)
Theorem C13_wire : forall (compress : N -> bytes -> bytes) (decompress : N -> bytes -> option bytes) codec,
  (forall p, p <> [] -> compress codec p <> [] /\ decompress codec (compress codec p) = Some p) ->
  forall D, unwire decompress true codec (wire compress codec (tp D)) = Some (tp D).
Proof. exact unwire_log. Qed.
Print Assumptions C13_wire.

(* ---- prefix, at full strength for schedules that respect transaction boundaries ---- *)
Theorem C13_prefix : forall start L evs, start + 2 < U64 -> log_ok start L = true ->
  Forall (aligned_event L) evs ->
  let s := run start evs in
  exists n, s_applied s = firstn n L /\
    a_max (r_ap (s_rep s)) <= gs start (firstn n L) /\
    forall e, In e (skipn n L) -> a_max (r_ap (s_rep s)) < w_seq e.
Proof. exact prefix_aligned. Qed.
Print Assumptions C13_prefix.

Theorem C13_no_skip_no_dup : forall start L evs, start + 2 < U64 -> log_ok start L = true ->
  Forall (aligned_event L) evs ->
  forall k e, nth_error (s_applied (run start evs)) k = Some e -> nth_error L k = Some e.
Proof. exact no_skip_no_dup_aligned. Qed.
Print Assumptions C13_no_skip_no_dup.

(* ---- one delivery cut anywhere (also inside a transaction): safe when it starts at or before
   the first entry of the newest applied number, or exactly where the applied entries end ---- *)
Theorem C13_safe_step : forall start L a A B P D Q f,
  start + 2 < U64 -> log_ok start L = true -> L = A ++ B -> Inv start a A -> L = P ++ D ++ Q ->
  ((exists X, older start A = P ++ X) \/
   (P = A /\ forall d0 D0, D = d0 :: D0 ->
       w_seq d0 <> gs start A \/ hd_error (a_gapp a) <> Some (serialize d0))) ->
  exists Dn, extends start L a A (apply_entries a (tp D) f) Dn.
Proof. exact deliver_safe. Qed.
Print Assumptions C13_safe_step.

Theorem C13_rejected : forall a es f,
  match es with
  | [] => False
  | e0 :: rest => a_exp a < p_seq e0 \/ steps_ok (p_seq e0) rest = false
  end ->
  apply_entries a es f = mkD a [] (a_max a) RGap.
Proof. exact deliver_rejected. Qed.
Print Assumptions C13_rejected.

Theorem C13_progress : forall start L a A d0 D0 Q,
  start + 2 < U64 -> log_ok start L = true -> L = A ++ (d0 :: D0) ++ Q -> Inv start a A ->
  w_seq d0 <= a_exp a ->
  (w_seq d0 <> gs start A \/ hd_error (a_gapp a) <> Some (serialize d0)) ->
  let d := apply_entries a (tp (d0 :: D0)) None in
  d_applied d = d0 :: D0 /\ d_res d = ROk /\ a_max (d_state d) = gs start (A ++ d0 :: D0) /\
  Inv start (d_state d) (A ++ d0 :: D0).
Proof. exact progress. Qed.
Print Assumptions C13_progress.

(* ---- the cursor, for every schedule of arbitrary wire entries ---- *)
Theorem C13_cursor : forall start evs,
  start + 2 < U64 ->
  Forall (fun ev => match ev with
                    | EDeliver es _ => forall e, In e es -> p_seq e + 1 < U64
                    | EReset => True
                    | ERestart => False
                    end) evs ->
  let a := r_ap (s_rep (run start evs)) in
  LI a /\ start <= a_max a /\ a_max a <= beta a /\
  forall pre ev post, evs = pre ++ ev :: post ->
    a_max (r_ap (s_rep (run start pre))) <= a_max (r_ap (s_rep (run start (pre ++ [ev])))).
Proof. exact cursor_run. Qed.
Print Assumptions C13_cursor.

(* ---- the full statement (every schedule of pieces of the log) does NOT hold: witnesses ---- *)
Definition C13_prefix_statement : Prop :=
  forall start L evs, start + 2 < U64 -> log_ok start L = true ->
  Forall (fun ev => match ev with
                    | EDeliver es _ => exists i j, es = seg L i j
                    | _ => True end) evs ->
  exists n, s_applied (run start evs) = firstn n L.

Theorem C13_cut_refuted :
  log_ok 0 Lcut = true /\
  s_applied (run 0 cut_sched) = [mkput 1 97 1; mkput 2 99 3] /\
  (forall n, s_applied (run 0 cut_sched) <> firstn n Lcut) /\
  a_max (r_ap (s_rep (run 0 [EDeliver (seg Lcut 0 1) None]))) = 1 /\
  nth_error Lcut 1 = Some (mkput 1 98 2).
Proof. exact cut_refuted. Qed.
Print Assumptions C13_cut_refuted.

Theorem C13_prefix_statement_refuted : ~ C13_prefix_statement.
Proof.
  intros H. destruct (H 0 Lcut cut_sched) as (n & E).
  - vm_compute. reflexivity.
  - vm_compute. reflexivity.
  - repeat constructor; [exists 0%nat, 1%nat|exists 2%nat, 3%nat]; reflexivity.
  - destruct cut_refuted as (_ & _ & Hn & _). exact (Hn n E).
Qed.
Print Assumptions C13_prefix_statement_refuted.

(* the refutation through the primary's own fetch policy (flat cut at 100 entries) is history
   since /repo f62340e: ReplProofs.BeforeFixes.poll_limit_refuted; what holds now: *)
Theorem C13_fetch_aligned : forall start L from, log_ok start L = true ->
  exists P Q, L = P ++ fetch L from ++ Q /\ bnd P (fetch L from ++ Q) /\ bnd (P ++ fetch L from) Q.
Proof. exact fetch_aligned. Qed.
Print Assumptions C13_fetch_aligned.

Theorem C13_prefix_polls : forall start L evs, start + 2 < U64 -> log_ok start L = true ->
  Forall (fun ev => match ev with
                    | EDeliver es _ => exists from, es = poll L from
                    | EReset => True
                    | ERestart => False
                    end) evs ->
  let s := run start evs in
  exists n, s_applied s = firstn n L /\
    a_max (r_ap (s_rep s)) <= gs start (firstn n L) /\
    forall e, In e (skipn n L) -> a_max (r_ap (s_rep s)) < w_seq e.
Proof. exact prefix_polls. Qed.
Print Assumptions C13_prefix_polls.

(* no applier that reports a sequence number can handle a delivery cut inside a transaction *)
Theorem C13_cut_indistinguishable : forall report : list (list pentry) -> N,
  ~ (report [seg Lone 0 1] = 1 /\ report [seg Ltwo 0 1] < 1).
Proof. exact cut_indistinguishable. Qed.
Print Assumptions C13_cut_indistinguishable.

Theorem C13_equal_payload_refuted :
  log_ok 0 Laba = true /\
  s_applied (run 0 aba_sched) = [mkput 1 65 1; mkput 1 66 2; mkput 2 67 3] /\
  forall n, s_applied (run 0 aba_sched) <> firstn n Laba.
Proof. exact equal_payload_refuted. Qed.
Print Assumptions C13_equal_payload_refuted.

Theorem C13_enters_group_refuted :
  log_ok 0 Lmid = true /\
  s_applied (run 0 mid_sched) = Lmid ++ [mkput 1 109 1] /\
  forall n, view (s_applied (run 0 mid_sched)) <> view (firstn n Lmid).
Proof. exact enters_group_refuted. Qed.
Print Assumptions C13_enters_group_refuted.

Theorem C13_restart_refuted :
  log_ok 0 Lrst = true /\
  s_applied (run 0 rst_sched) = [mkput 1 107 1; mkput 2 107 2; mkput 1 107 1] /\
  cursors (mkS (new_replica 0) []) rst_sched = [2; 0; 1] /\
  (* the data is back at the state before the second write, which had been applied *)
  view (s_applied (run 0 rst_sched)) = view (firstn 1 Lrst) /\
  view (s_applied (run 0 [EDeliver (seg Lrst 0 2) None])) = view Lrst /\ view Lrst <> view (firstn 1 Lrst) /\
  stream_start (s_rep (run 0 [EDeliver (seg Lrst 0 2) None; ERestart])) = 1.
Proof. exact restart_refuted. Qed.
Print Assumptions C13_restart_refuted.

Theorem C13_merge_consistent : forall es, view es = primary_view es.
Proof. exact merge_consistent. Qed.
Print Assumptions C13_merge_consistent.
