(* Props/C20.v — property theorems for C20 (configuration is validated and persists with the
   database); each closed by `exact` of a lemma proved in ConfigProofs.v, with Print
   Assumptions beneath.  `storable c` is the guard: integers fit int64 (Go types) and the ratio survives
   FormatFloat/ParseFloat (a decidable check; see the float assumption in lib/props.d/C20.py). *)
From KV Require Import Config ConfigProofs.
From KV.gen Require Import ConfigFacts.
From Coq Require Import ZArith.
Import List ListNotations.
Open Scope N_scope.

(* the model's Validate is the one in the Go source: every comparison, in order *)
Theorem C20_validate_is_source : map (map render_atom) checks = validate_table.
Proof. exact validate_table_matches_source. Qed.
Print Assumptions C20_validate_is_source.

Theorem C20_fields_are_source :
  map (fun f => (name_str f, kind_str (kind_of f))) all_fields = config_fields.
Proof. exact fields_match_source. Qed.
Print Assumptions C20_fields_are_source.

Theorem C20_defaults_are_source :
  map (fun kv : fld * Z => (name_str (fst kv), snd kv)) default_int_table = default_ints /\
  default_unsupported = [].
Proof. exact (conj default_int_table_matches_source default_literal_understood). Qed.
Print Assumptions C20_defaults_are_source.

(* validation = the documented constraints, as a readable conjunction *)
Theorem C20_validate_spec : forall c, validate c = None <-> documented_constraints c.
Proof. exact validate_spec. Qed.
Print Assumptions C20_validate_spec.

(* a configuration violating a constraint is rejected before anything is written *)
Theorem C20_reject : forall c d f,
  validate c = Some f -> save c d = (Err (EInvalidConfig f), d).
Proof. exact save_rejects. Qed.
Print Assumptions C20_reject.

(* every configuration that passes validation is stored and loaded back unchanged *)
Theorem C20_roundtrip : forall c d,
  storable c = true -> validate c = None ->
  exists t, encode c = Some t /\
            save c d = (Ok tt, mkDir true (Some t) None (d_other d)) /\
            load (snd (save c d)) = Ok c.
Proof. exact save_load_roundtrip. Qed.
Print Assumptions C20_roundtrip.

(* all truncations of the stored manifest: loading fails, opening fails and changes nothing *)
Theorem C20_truncated : forall c d0 dflt n t,
  storable c = true -> validate c = None -> encode c = Some t -> (n < length t)%nat ->
  let d := truncate_manifest n (snd (save c d0)) in
  load d = Err EInvalidManifest /\ open_db dflt d = (Err EInvalidManifest, d).
Proof. exact truncated_manifest_open_fails. Qed.
Print Assumptions C20_truncated.

(* a database is reopened with the configuration it was created with *)
Theorem C20_open_same : forall c d0 dflt,
  storable c = true -> validate c = None ->
  let d := snd (save c d0) in open_db dflt d = (Ok c, d).
Proof. exact open_uses_stored. Qed.
Print Assumptions C20_open_same.

Theorem C20_open_fresh : forall dflt d,
  d_manifest d = None -> d_other d = [] -> storable dflt = true -> validate dflt = None ->
  exists d1, open_db dflt d = (Ok dflt, d1) /\ open_db dflt d1 = (Ok dflt, d1) /\
             d_other d1 = d_other d.
Proof. exact open_fresh_then_reopen. Qed.
Print Assumptions C20_open_fresh.

(* an unreadable or invalid stored configuration makes opening fail; no fallback to defaults *)
Theorem C20_open_invalid : forall dflt d t e,
  d_manifest d = Some t -> load_bytes t = Err e ->
  open_db dflt d = (Err e, mkdir d) /\ d_manifest (mkdir d) = Some t /\ d_other (mkdir d) = d_other d.
Proof. exact open_invalid_fails. Qed.
Print Assumptions C20_open_invalid.

(* the manifest is missing over existing data: opening is refused, nothing is written *)
Theorem C20_open_missing_over_data : forall dflt d,
  d_manifest d = None -> d_other d <> [] ->
  open_db dflt d = (Err ENotFoundNonEmpty, mkdir d).
Proof. exact open_missing_manifest_over_data_refused. Qed.
Print Assumptions C20_open_missing_over_data.

(* ---- the former findings C20-F1, F2 are excluded by validation itself ---- *)

Theorem C20_nonfinite_rejected : forall c,
  (c_compaction_ratio c = FNaN \/ exists neg, c_compaction_ratio c = FInf neg) -> validate c <> None.
Proof. exact nonfinite_ratio_rejected. Qed.
Print Assumptions C20_nonfinite_rejected.

Theorem C20_invalid_utf8_rejected : forall c,
  utf8_valid (length (c_wal_dir c)) (c_wal_dir c) = false \/
  utf8_valid (length (c_sst_dir c)) (c_sst_dir c) = false -> validate c <> None.
Proof. exact invalid_utf8_rejected. Qed.
Print Assumptions C20_invalid_utf8_rejected.
