(* Props/C11.v — "An SSTable reads back exactly what was written into it".
   Only statements, each closed by `exact` of a lemma proved in SSTableProofs.v (logical layer:
   blocks, index, iterator state machine, Get), BlockProofs.v (byte layout of a block),
   SSTFileProofs.v (footer, filters, single altered bytes) and SSTFileRoundtrip.v (whole file). *)
From Coq Require Import List NArith Bool.
From KV Require Import Bytes Engine Xxhash Block SSTable SSTFile.
From KV Require Import SSTableProofs BlockProofs SSTFileProofs SSTFileRoundtrip.
Import ListNotations.
Open Scope N_scope.

(* ================= logical layer ================= *)

(* the writer's cut rule produces a partition into non-empty blocks *)
Theorem C11_blocks_cut : forall es,
  concat (cut es) = es /\ Forall (fun b => b <> []) (cut es).
Proof. exact cut_partition. Qed.
Print Assumptions C11_blocks_cut.

(* read side, for ANY partition of a strictly ascending list into non-empty blocks (any number
   of blocks, any cut positions) *)
Theorem C11_blocks_iterate : forall tb es, holds tb es ->
  collect tb (S (length es)) (ti_seek_first tb) = es /\
  collect tb (S (length es)) (fst (ti_next tb (ti_new tb))) = es.
Proof. exact iterate_partition. Qed.
Print Assumptions C11_blocks_iterate.

Theorem C11_blocks_seek : forall tb es t, holds tb es -> es <> [] ->
  collect tb (S (length es)) (fst (ti_seek tb t)) = drop_lt t es /\
  ti_cur tb (fst (ti_seek tb t)) = first_ge t es /\
  snd (ti_seek tb t) = ti_valid tb (fst (ti_seek tb t)) /\
  forall n, ti_cur tb (nexts tb n (fst (ti_seek tb t))) = nth_error (drop_lt t es) n.
Proof. exact seek_partition. Qed.
Print Assumptions C11_blocks_seek.

Theorem C11_blocks_seek_last : forall tb es, holds tb es -> es <> [] ->
  ti_cur tb (ti_seek_last tb) = Some (last es (mkS [] 0 None)) /\
  ti_next tb (ti_seek_last tb) = (st_end, false) /\
  ti_valid tb st_end = false.
Proof. exact seek_last_partition. Qed.
Print Assumptions C11_blocks_seek_last.

Theorem C11_blocks_get : forall tb es k, holds tb es -> filters_ok tb -> t_get tb k = lookup k es.
Proof. exact get_partition. Qed.
Print Assumptions C11_blocks_get.

(* the table the writer produces; fh = membership test of the per-block filter, of which only
   "no false negatives" is used *)
Theorem C11_iterate : forall fh bloom es,
  ascending es = true -> forallb wf_sentry es = true ->
  let tb := write fh bloom es in
  collect tb (S (length es)) (ti_seek_first tb) = es /\
  collect tb (S (length es)) (fst (ti_next tb (ti_new tb))) = es.
Proof. exact thm_iterate. Qed.
Print Assumptions C11_iterate.

Theorem C11_seek : forall fh bloom es t,
  ascending es = true -> forallb wf_sentry es = true -> es <> [] ->
  let tb := write fh bloom es in
  ti_cur tb (fst (ti_seek tb t)) = first_ge t es /\
  snd (ti_seek tb t) = ti_valid tb (fst (ti_seek tb t)).
Proof. exact thm_seek. Qed.
Print Assumptions C11_seek.

Theorem C11_next_after_seek : forall fh bloom es t,
  ascending es = true -> forallb wf_sentry es = true -> es <> [] ->
  let tb := write fh bloom es in
  collect tb (S (length es)) (fst (ti_seek tb t)) = drop_lt t es /\
  forall n, ti_cur tb (nexts tb n (fst (ti_seek tb t))) = nth_error (drop_lt t es) n.
Proof. exact thm_next_after_seek. Qed.
Print Assumptions C11_next_after_seek.

Theorem C11_seek_last : forall fh bloom es,
  ascending es = true -> forallb wf_sentry es = true -> es <> [] ->
  let tb := write fh bloom es in
  ti_cur tb (ti_seek_last tb) = Some (last es (mkS [] 0 None)) /\
  ti_next tb (ti_seek_last tb) = (st_end, false) /\ ti_valid tb st_end = false.
Proof. exact thm_seek_last. Qed.
Print Assumptions C11_seek_last.

Theorem C11_get : forall fh, (forall b e, In e b -> fh b (sk e) = true) ->
  forall bloom es k, ascending es = true -> forallb wf_sentry es = true ->
  t_get (write fh bloom es) k = lookup k es.
Proof. exact thm_get. Qed.
Print Assumptions C11_get.

(* lookup finds every written key (with its value or deletion marker) and nothing else *)
Theorem C11_get_found_iff : forall k es, ascending es = true ->
  (forall e, In e es -> sk e = k -> lookup k es = gres_of e) /\
  (lookup k es = GNotFound <-> ~ exists e, In e es /\ sk e = k).
Proof. exact lookup_found_iff. Qed.
Print Assumptions C11_get_found_iff.

(* Get stays exact when any subset of the per-block filters is missing (not loadable) *)
Theorem C11_get_missing_filters : forall tb es k (missing : nat -> bool),
  holds tb es -> filters_ok tb ->
  let tb' := mkT (t_ikeys tb) (t_blocks tb) (t_hasf tb)
                 (fun j => if missing j then None else t_filter tb j) (t_bad tb) in
  t_get tb' k = lookup k es.
Proof. exact get_missing_filters. Qed.
Print Assumptions C11_get_missing_filters.

(* the filter the writer really builds (FNV-1a, 9586 bits, 7 hash functions) has no false negatives *)
Theorem C11_bloom_complete : forall (b : list sentry) e, In e b -> bl_contains (bl_of_block b) (sk e) = true.
Proof. exact bloom_complete. Qed.
Print Assumptions C11_bloom_complete.

(* ================= byte layer ================= *)

Theorem C11_xxh64_bound : forall b, xxh64 b < 2 ^ 64.
Proof. exact xxh64_bound. Qed.
Print Assumptions C11_xxh64_bound.

(* one block: decode (encode es) = es *)
Theorem C11_block_roundtrip : forall es d, wf_block es -> encode_block es = Some d ->
  decode_block d = Some es.
Proof. exact BlockProofs.C11_block_roundtrip. Qed.
Print Assumptions C11_block_roundtrip.

Theorem C11_footer_roundtrip : forall ts ioff isize nent boff bsize,
  footer_fields_ok ts ioff isize nent boff bsize ->
  dec_footer (enc_footer ts ioff isize nent boff bsize) = inl (mkFt 2 ts ioff isize nent boff bsize).
Proof. exact footer_roundtrip. Qed.
Print Assumptions C11_footer_roundtrip.

(* the writer does not fail inside the guards *)
Theorem C11_file_written : forall bloom ts es,
  es <> [] -> forallb wf_sentry es = true -> exists parts, file_parts bloom ts es = Some parts.
Proof. exact file_written. Qed.
Print Assumptions C11_file_written.

(* the whole file: OpenReader on the bytes Finish wrote yields a table that reads back es *)
Theorem C11_file_reads_back : forall bloom ts es parts,
  es <> [] -> ascending es = true -> forallb wf_sentry es = true -> ts < 2 ^ 64 ->
  file_parts bloom ts es = Some parts -> len (parts_bytes parts) < 2 ^ 32 ->
  exists tb, read_file (parts_bytes parts) = inl tb /\
    collect tb (S (length es)) (ti_seek_first tb) = es /\
    collect tb (S (length es)) (fst (ti_next tb (ti_new tb))) = es /\
    (forall t, collect tb (S (length es)) (fst (ti_seek tb t)) = drop_lt t es /\
               ti_cur tb (fst (ti_seek tb t)) = first_ge t es /\
               snd (ti_seek tb t) = ti_valid tb (fst (ti_seek tb t))) /\
    ti_cur tb (ti_seek_last tb) = Some (last es (mkS [] 0 None)) /\
    (forall k, t_get tb k = lookup k es).
Proof. exact file_reads_back. Qed.
Print Assumptions C11_file_reads_back.

(* ================= altered bytes ================= *)

(* a block (data or index) with one altered byte: checksum error, or the altered payload has
   the same XXH64 as the written one *)
Theorem C11_corrupt_block : forall body rs i x,
  let pre := body ++ concat (map (le 4) rs) ++ le 4 (N.of_nat (length rs)) in
  let d := enc_trailer body rs in
  (i < length d)%nat -> x < 256 -> nth i d 0 <> x ->
  new_reader (upd d i x) = inr BChecksum \/
  ((i < length pre)%nat /\ upd pre i x <> pre /\ xxh64 (upd pre i x) = xxh64 pre).
Proof. exact block_detect. Qed.
Print Assumptions C11_corrupt_block.

(* a footer with one altered byte: Decode fails, or the checksum comparison accepts the altered
   bytes (XXH64 collision on the 60 covered bytes, or the legacy-version comparison holds) *)
Theorem C11_corrupt_footer : forall ts ioff isize nent boff bsize i x,
  footer_fields_ok ts ioff isize nent boff bsize ->
  let b60 := le 8 FMAGIC ++ le 4 FVERSION ++ le 8 ts ++ le 8 ioff ++ le 4 isize ++ le 4 nent ++
             le 4 0 ++ le 4 0 ++ le 8 boff ++ le 4 bsize ++ [0; 0; 0; 0] in
  let d := enc_footer ts ioff isize nent boff bsize in
  (i < 68)%nat -> x < 256 -> nth i d 0 <> x ->
  match dec_footer (upd d i x) with
  | inr _ => True
  | inl _ =>
    ((i < 60)%nat /\ upd b60 i x <> b60 /\ xxh64 (upd b60 i x) = xxh64 b60) \/
    (unle (slice (upd d i x) 8 4) < 2 /\
     unle (slice (upd d i x) 44 8) = xxh64 (slice (upd d i x) 0 44))
  end.
Proof. exact footer_detect. Qed.
Print Assumptions C11_corrupt_footer.

(* whatever table the reader works on (some blocks not fetchable): the iterator only ever stands
   in blocks that passed block.NewReader, and what it or Get returns is an entry of such a block *)
Theorem C11_corrupt_iter_invariant : forall tb,
  blk_ok tb (ti_seek_first tb) /\ blk_ok tb (ti_seek_last tb) /\
  (forall t, blk_ok tb (fst (ti_seek tb t))) /\
  (forall it, blk_ok tb it -> blk_ok tb (fst (ti_next tb it))).
Proof.
  exact (fun tb => conj (blk_ok_first tb) (conj (blk_ok_last tb) (conj (blk_ok_seek tb) (blk_ok_next tb)))).
Qed.
Print Assumptions C11_corrupt_iter_invariant.

Theorem C11_corrupt_cur_verified : forall tb it e, blk_ok tb it -> ti_cur tb it = Some e ->
  exists j, t_bad tb j = false /\ In e (nth j (t_blocks tb) []).
Proof. exact cur_verified. Qed.
Print Assumptions C11_corrupt_cur_verified.

Theorem C11_corrupt_get_verified : forall tb k,
  match t_get tb k with
  | GNotFound | GErr => True
  | g => exists j e, t_bad tb j = false /\ In e (nth j (t_blocks tb) []) /\ sk e = k /\ gres_of e = g
  end.
Proof. exact get_verified. Qed.
Print Assumptions C11_corrupt_get_verified.

(* the full statement for a whole file with one altered byte is kept as a definition
   (C11_corrupt_statement in SSTFileRoundtrip.v); the region lemmas above are its proved parts *)
Definition C11_corrupt_statement : Prop := SSTFileRoundtrip.C11_corrupt_statement.

(* the filter section is not covered by any checksum: iteration is unaffected, Get can miss a
   written key (still "only written entries", which is what the property demands of altered files) *)
Theorem C11_filter_bit_refuted :
  match encode_file true 0 wit_es with
  | None => False
  | Some f =>
    length f = 1420%nat /\
    match read_file f, read_file (upd f 615 0) with
    | inl tb, inl tb' =>
      t_get tb [97] = GVal [49] /\
      collect tb' 4 (ti_seek_first tb') = wit_es /\ t_get tb' [97] = GNotFound /\
      t_get tb' [98] = GTomb
    | _, _ => False
    end
  end.
Proof. exact SSTFileProofs.C11_filter_bit_refuted. Qed.
Print Assumptions C11_filter_bit_refuted.

(* ================= guards ================= *)

(* the empty key: before /repo f30cabd such a table was unreadable (block.Iterator.Valid() demanded
   len(key) > 0); now it reads back like any other (the general theorems above keep the guard
   "key non-empty" of wf_sentry: the byte-level round trip is proved for non-empty keys only) *)
Theorem C11_empty_key_ok :
  let es := [mkS [] 5 (Some [1]); mkS [97] 7 (Some [1;2])] in
  let tb := write (fun _ _ => true) true es in
  ascending es = true /\
  collect tb 3 (ti_seek_first tb) = es /\
  ti_cur tb (fst (ti_seek tb [97])) = Some (mkS [97] 7 (Some [1;2])) /\
  ti_cur tb (ti_seek_last tb) = Some (mkS [97] 7 (Some [1;2])) /\
  t_get tb [] = GVal [1] /\ t_get tb [97] = gres_of (mkS [97] 7 (Some [1;2])).
Proof. exact SSTableProofs.C11_empty_key_ok. Qed.
Print Assumptions C11_empty_key_ok.

(* outside "key <= 65535 bytes" (D22) the block no longer decodes to what was written *)
Theorem C11_long_key_refuted :
  let k := N.iter 65536 (cons 7) [] in
  let es := [mkS k 1 (Some [1])] in
  match encode_block es with
  | Some d => match decode_block d with Some es' => length es' = 0%nat | None => False end
  | None => False
  end.
Proof. exact BlockProofs.C11_long_key_refuted. Qed.
Print Assumptions C11_long_key_refuted.
