(* Props/C11.v — "An SSTable reads back exactly what was written into it".
   Only statements closed by `exact` of lemmas proved in SSTableProofs.v (logical layer:
   blocks, index, iterator state machine, Get), BlockProofs.v (byte layout of a block) and
   SSTFileProofs.v (file layout, single-byte corruption). *)
From Coq Require Import List NArith Bool.
From KV Require Import Bytes Engine SSTable SSTableProofs.
Import ListNotations.
Open Scope N_scope.

(* ---- the writer's cut rule produces a partition into non-empty blocks ---- *)
Theorem C11_blocks_cut : forall es,
  concat (cut es) = es /\ Forall (fun b => b <> []) (cut es).
Proof. exact cut_partition. Qed.
Print Assumptions C11_blocks_cut.

(* ---- read side, for ANY partition of a strictly ascending list into non-empty blocks
        (any number of blocks, any cut positions) ---- *)
Theorem C11_blocks_iterate : forall tb es, holds tb es ->
  collect tb (S (length es)) (ti_seek_first tb) = es /\
  collect tb (S (length es)) (fst (ti_next tb (ti_new tb))) = es.
Proof. exact iterate_partition. Qed.
Print Assumptions C11_blocks_iterate.

Theorem C11_blocks_seek : forall tb es t, holds tb es -> es <> [] ->
  collect tb (S (length es)) (fst (ti_seek tb t)) = drop_lt t es /\
  ti_cur tb (fst (ti_seek tb t)) = first_ge t es /\
  snd (ti_seek tb t) = ti_valid tb (fst (ti_seek tb t)) /\
  forall n, ti_cur tb (nexts tb n (fst (ti_seek tb t))) = nth_error (drop_lt t es) n.
Proof. exact seek_partition. Qed.
Print Assumptions C11_blocks_seek.

Theorem C11_blocks_seek_last : forall tb es, holds tb es -> es <> [] ->
  ti_cur tb (ti_seek_last tb) = Some (last es (mkS [] 0 None)) /\
  ti_next tb (ti_seek_last tb) = (st_end, false) /\
  ti_valid tb st_end = false.
Proof. exact seek_last_partition. Qed.
Print Assumptions C11_blocks_seek_last.

Theorem C11_blocks_get : forall tb es k, holds tb es -> filters_ok tb -> t_get tb k = lookup k es.
Proof. exact get_partition. Qed.
Print Assumptions C11_blocks_get.

(* ---- the table the writer produces; fh = membership test of the per-block filter, of
        which only "no false negatives" is assumed ---- *)
Theorem C11_iterate : forall fh bloom es,
  ascending es = true -> forallb wf_sentry es = true ->
  let tb := write fh bloom es in
  collect tb (S (length es)) (ti_seek_first tb) = es /\
  collect tb (S (length es)) (fst (ti_next tb (ti_new tb))) = es.
Proof. intros fh bloom es A W. apply write_iterate; [exact A|apply wf_keys_ok; exact W]. Qed.
Print Assumptions C11_iterate.

Theorem C11_seek : forall fh bloom es t,
  ascending es = true -> forallb wf_sentry es = true -> es <> [] ->
  let tb := write fh bloom es in
  ti_cur tb (fst (ti_seek tb t)) = first_ge t es /\
  snd (ti_seek tb t) = ti_valid tb (fst (ti_seek tb t)).
Proof.
  intros fh bloom es t A W N. destruct (write_seek fh bloom es t A (wf_keys_ok _ W) N) as (_ & H1 & H2 & _).
  split; assumption.
Qed.
Print Assumptions C11_seek.

Theorem C11_next_after_seek : forall fh bloom es t,
  ascending es = true -> forallb wf_sentry es = true -> es <> [] ->
  let tb := write fh bloom es in
  collect tb (S (length es)) (fst (ti_seek tb t)) = drop_lt t es /\
  forall n, ti_cur tb (nexts tb n (fst (ti_seek tb t))) = nth_error (drop_lt t es) n.
Proof.
  intros fh bloom es t A W N. destruct (write_seek fh bloom es t A (wf_keys_ok _ W) N) as (H0 & _ & _ & H3).
  split; assumption.
Qed.
Print Assumptions C11_next_after_seek.

Theorem C11_seek_last : forall fh bloom es,
  ascending es = true -> forallb wf_sentry es = true -> es <> [] ->
  let tb := write fh bloom es in
  ti_cur tb (ti_seek_last tb) = Some (last es (mkS [] 0 None)) /\
  ti_next tb (ti_seek_last tb) = (st_end, false) /\ ti_valid tb st_end = false.
Proof. intros fh bloom es A W N. apply write_seek_last; [exact A|apply wf_keys_ok; exact W|exact N]. Qed.
Print Assumptions C11_seek_last.

Theorem C11_get : forall fh, (forall b e, In e b -> fh b (sk e) = true) ->
  forall bloom es k, ascending es = true -> forallb wf_sentry es = true ->
  t_get (write fh bloom es) k = lookup k es.
Proof. intros fh Hf bloom es k A W. apply write_get; [exact Hf|exact A|apply wf_keys_ok; exact W]. Qed.
Print Assumptions C11_get.

(* lookup finds every written key (with its value or deletion marker) and nothing else *)
Theorem C11_get_found_iff : forall k es, ascending es = true ->
  (forall e, In e es -> sk e = k -> lookup k es = gres_of e) /\
  (lookup k es = GNotFound <-> ~ exists e, In e es /\ sk e = k).
Proof. exact lookup_found_iff. Qed.
Print Assumptions C11_get_found_iff.

(* Get stays exact when any subset of the per-block filters is missing (not loadable) *)
Theorem C11_get_missing_filters : forall tb es k (missing : nat -> bool),
  holds tb es -> filters_ok tb ->
  let tb' := mkT (t_ikeys tb) (t_blocks tb) (t_hasf tb)
                 (fun j => if missing j then None else t_filter tb j) (t_bad tb) in
  t_get tb' k = lookup k es.
Proof. exact get_missing_filters. Qed.
Print Assumptions C11_get_missing_filters.

(* guard: outside "key non-empty" the table is unreadable *)
Theorem C11_empty_key_refuted :
  let es := [mkS [] 5 (Some [1]); mkS [97] 7 (Some [1;2])] in
  let tb := write (fun _ _ => true) true es in
  ascending es = true /\
  collect tb 3 (ti_seek_first tb) = [] /\
  ti_valid tb (fst (ti_seek tb [97])) = false /\
  ti_valid tb (ti_seek_last tb) = false /\
  t_get tb [] = GNotFound /\ t_get tb [97] = GNotFound.
Proof. exact SSTableProofs.C11_empty_key_refuted. Qed.
Print Assumptions C11_empty_key_refuted.
