(* Props/C17.v — every transaction ends and releases the database (placeholder until the
   proofs land; replaced below). *)
From KV Require Import Registry.
