(* Props/C17.v — every transaction ends and releases the database.
   Property theorems only; each closed by `exact` of a lemma of RegistryProofs.v.

   Model: Registry.v (the sync.RWMutex of transaction.Manager with its writer-preferring queue,
   TransactionImpl's active flag and exactly-once unlock, RegistryImpl.Begin with its creating
   goroutine / deadline / abandoned hand-off, Get/Remove, CleanupStaleTransactions,
   CleanupConnection, GracefulShutdown, and the transaction RPCs of the gRPC service) over a
   logical clock. `reachable cfg s`: s is reached from the empty registry by ANY sequence of
   events (begin ro/rw with any deadline, reads/writes/commit/rollback by handle or on the kept
   object, by any client in any order, clock ticks, the three cleanups, injected ApplyBatch
   failures, and the one-shot calls of the service — BatchWrite — that begin, use and end a
   read-write transaction of their own inside one call); the only restriction (`ev_ok`) is that nobody calls registry.Remove on a live
   transaction (the service never does). *)
From Coq Require Import List NArith Bool.
From KV Require Import Registry RegistryProofs.
From KV.gen Require Import RegFacts.
Import ListNotations.
Open Scope N_scope.

(* the invariant behind everything: lock holders = the active registered transactions,
   lock waiters = the Begins still in flight *)
Theorem C17_lock_balance : forall cfg s, reachable cfg s ->
  (forall b, In b (holders (lk s)) <-> In b (act_ids s) /\ In b (reg_bs s)) /\
  (forall b, In b (lock_ids (lk s)) /\ ~ In b (holders (lk s)) <-> In b (pend_ids s)).
Proof. exact lock_balance. Qed.
Print Assumptions C17_lock_balance.

(* Commit/Rollback take effect at most once; every later use — after anything else anybody did —
   is refused (closed / not found) and changes neither data, lock, transactions nor waiters *)
Theorem C17_finish_once : forall cfg s c id b e es e',
  reachable cfg s -> ev_ok s e ->
  handle_of c s = Some (id, b) -> finish_op c e ->
  let s1 := fst (step cfg s e) in
  runs_ok cfg s1 es ->
  let s2 := fst (run cfg s1 es) in
  handle_of c s2 = Some (id, b) ->
  tx_op c e' ->
  (forall o, In o (snd (step cfg s2 e')) -> refused (c_svc cfg) o) /\ untouched s2 (fst (step cfg s2 e')).
Proof. exact finish_once. Qed.
Print Assumptions C17_finish_once.

(* once every registered transaction has ended (by its client or by a cleanup) the lock is free,
   nobody waits, and a fresh Begin (read-write included) is granted at once *)
Theorem C17_no_leak : forall cfg s, reachable cfg s -> all_finished s ->
  lock_ids (lk s) = [] /\ pends s = [] /\
  forall c ro d, In (OBegin c ROk) (snd (step cfg s (EBegin c ro d))).
Proof. exact no_leak. Qed.
Print Assumptions C17_no_leak.

(* abandoned transactions: rolled back and unregistered by CleanupStaleTransactions once the
   lifetime or the idle limit has passed, by CleanupConnection, by GracefulShutdown *)
Theorem C17_abandoned_rolled_back : forall cfg s r o, reachable cfg s -> In r (reg s) ->
  get_obj (r_b r) s = Some o ->
  ((if o_ro o then c_ttl_ro cfg else c_ttl_rw cfg) < now s - o_created o \/ c_idle cfg < now s - o_last o) ->
  let s' := fst (step cfg s EStale) in
  is_active (r_b r) s' = false /\ registered (r_id r) s' = false.
Proof. exact stale_rolls_back. Qed.
Print Assumptions C17_abandoned_rolled_back.

Theorem C17_connection_cleanup : forall cfg s r c, reachable cfg s -> In r (reg s) ->
  r_conn r = conn_of cfg c ->
  let s' := fst (step cfg s (ECleanConn c)) in
  is_active (r_b r) s' = false /\ registered (r_id r) s' = false.
Proof. exact conn_cleanup_rolls_back. Qed.
Print Assumptions C17_connection_cleanup.

Theorem C17_shutdown : forall cfg s r, reachable cfg s -> In r (reg s) -> shutdown_panics s = false ->
  let s' := fst (step cfg s EShutdown) in
  is_active (r_b r) s' = false /\ registered (r_id r) s' = false.
Proof. exact shutdown_rolls_back. Qed.
Print Assumptions C17_shutdown.

(* a Begin whose deadline passed while it waited is never registered and never holds the lock at
   rest, whatever happens afterwards *)
Theorem C17_begin_timeout_clean : forall cfg s dt p es,
  reachable cfg s -> In p (pends s) -> p_deadline p <= now s + dt ->
  let s1 := fst (step cfg s (ETick dt)) in
  runs_ok cfg s1 es ->
  let s2 := fst (run cfg s1 es) in
  ~ In (p_b p) (reg_bs s2) /\ ~ In (p_b p) (holders (lk s2)).
Proof. exact begin_timeout_clean. Qed.
Print Assumptions C17_begin_timeout_clean.

(* nobody stays blocked forever: from ANY reachable state, one CleanupStaleTransactions after
   max(idle limit, Begin time-out) leaves no transaction, a free lock and no waiter *)
Theorem C17_cleanup_frees : forall cfg s dt, reachable cfg s -> c_btimeout cfg <= dt -> c_idle cfg < dt ->
  let s2 := fst (run cfg s [ETick dt; EStale]) in
  reg s2 = [] /\ lock_ids (lk s2) = [] /\ pends s2 = [] /\
  forall c ro d, In (OBegin c ROk) (snd (step cfg s2 (EBegin c ro d))).
Proof. exact cleanup_frees. Qed.
Print Assumptions C17_cleanup_frees.

(* the same with the limits the binary ships with (generated from the source: gen/RegFacts.v) *)
Theorem C17_shipped_cleanup_frees : forall svc peer s, reachable (shipped_config svc peer) s ->
  let cfg := shipped_config svc peer in
  let s2 := fst (run cfg s [ETick (RegFacts.registry_default_idle_ms + 1); EStale]) in
  reg s2 = [] /\ lock_ids (lk s2) = [] /\ pends s2 = [] /\
  forall c ro d, In (OBegin c ROk) (snd (step cfg s2 (EBegin c ro d))).
Proof. exact shipped_cleanup_frees. Qed.
Print Assumptions C17_shipped_cleanup_frees.

(* the transactions the service begins ITSELF inside one call (KevoServiceServer.BatchWrite:
   begin read-write, validate and buffer, commit; any rejection rolls back in a deferred function):
   when the call has returned — accepted, rejected or failed — the lock, the registry, every
   transaction object, every waiting Begin and every client's handle are what they were, so an
   observer sees the same lock state and the same number of registered transactions *)
Theorem C17_service_call_releases : forall cfg s c valid k v,
  let s' := fst (step cfg s (EOneShot c valid k v)) in
  (lk s' = lk s /\ reg s' = reg s /\ objs s' = objs s /\ pends s' = pends s /\ handles s' = handles s) /\
  (lock_state s' = lock_state s /\ reg_size s' = reg_size s).
Proof. exact oneshot_releases_observed. Qed.
Print Assumptions C17_service_call_releases.

(* a rejected call (invalid key size, value too large, unknown operation type) changes nothing *)
Theorem C17_rejected_service_call_no_effect : forall cfg s c k v,
  fst (step cfg s (EOneShot c false k v)) = s.
Proof. exact oneshot_rejected_no_effect. Qed.
Print Assumptions C17_rejected_service_call_no_effect.

(* an accepted call on a free database is applied and acknowledged *)
Theorem C17_service_call_applied : forall cfg s c k v,
  lock_state s = LFree -> fail_next s = false ->
  db_get k (db (fst (step cfg s (EOneShot c true k v)))) = v /\
  snd (step cfg s (EOneShot c true k v)) = [ORes c ROk].
Proof. exact oneshot_applied. Qed.
Print Assumptions C17_service_call_applied.

(* and it touches no other key, however it was answered *)
Theorem C17_service_call_other_keys : forall cfg s c valid k v k', k' <> k ->
  db_get k' (db (fst (step cfg s (EOneShot c valid k v)))) = db_get k' (db s).
Proof. exact oneshot_other_keys. Qed.
Print Assumptions C17_service_call_other_keys.

(* with every client finished, the database is free after a service call as before it *)
Theorem C17_service_call_no_leak : forall cfg s c valid k v, reachable cfg s -> all_finished s ->
  let s' := fst (step cfg s (EOneShot c valid k v)) in
  lock_ids (lk s') = [] /\ pends s' = [] /\
  forall c' ro d, In (OBegin c' ROk) (snd (step cfg s' (EBegin c' ro d))).
Proof. exact oneshot_no_leak. Qed.
Print Assumptions C17_service_call_no_leak.
