(* Props/C19.v — property theorems for C19 (the network API behaves like the embedded API);
   each closed by `exact` of a lemma proved in ServiceProofs.v, with Print Assumptions beneath.
   Service.v models pkg/grpc/service/service.go over the Engine model and the iterator stack of
   Iter.v; the embedded API is specified over the history of acknowledged writes (Spec.v,
   ScanSpec.v): embedded_step. *)
From Coq Require Import ZArith.
From KV Require Import Bytes Spec Engine EngineProofs Iter ScanSpec ScanProofs Service ServiceProofs.
From KV.gen Require Import ServiceLimits.
Open Scope N_scope.

(* the facts regenerated from the Go source: limits, comparison operators *)
Theorem C19_limit_checks_as_modelled : svc_limit_checks = modelled_limit_checks.
Proof. exact ServiceProofs.limit_checks_as_modelled. Qed.
Print Assumptions C19_limit_checks_as_modelled.

Theorem C19_limits_documented :
  max_key code_limits = 4096 /\ max_val code_limits = 10 * 1024 * 1024 /\ max_batch code_limits = 1000.
Proof. exact ServiceProofs.limits_documented. Qed.
Print Assumptions C19_limits_documented.

(* every request on a state reached by any program of requests and engine flushes: turned away
   by the transport / the limits / the handle lookup with an error and no change, or answered as
   the embedded specification answers it on the history acknowledged so far (guard: sequence
   numbers not exhausted) *)
Theorem C19_simulation : forall L c p prog q,
  let ss := fst (srun L (sinit c p) prog) in
  (MaxSeq <=? wal_next (s_eng ss)) = false ->
  match gate L ss q with
  | Some e => service_step L ss q = (ss, PErr e)
  | None =>
      embedded_step (abs c (etrace L (sinit c p) prog) ss) q =
        (abs c (etrace L (sinit c p) (prog ++ [SReq q])) (fst (srun L (sinit c p) (prog ++ [SReq q]))),
         snd (service_step L ss q))
  end.
Proof. exact ServiceProofs.simulation. Qed.
Print Assumptions C19_simulation.

(* the same step over any state whose engine ran a program without losing its log *)
Theorem C19_simulation_step : forall L c tr ss q,
  s_eng ss = run c tr -> lost_log (run c tr) = false -> (MaxSeq <=? wal_next (s_eng ss)) = false ->
  match gate L ss q with
  | Some e => service_step L ss q = (ss, PErr e)
  | None =>
      s_eng (fst (service_step L ss q)) = run c (tr ++ eops L ss (SReq q)) /\
      embedded_step (abs c tr ss) q =
        (abs c (tr ++ eops L ss (SReq q)) (fst (service_step L ss q)), snd (service_step L ss q))
  end.
Proof. exact ServiceProofs.simulation_step. Qed.
Print Assumptions C19_simulation_step.

(* a request outside the key / value / batch limits is refused and neither the engine nor the
   registry changes (an error; "blocked" only for a BatchWrite that has to wait for the lock) *)
Theorem C19_limits : forall L ss q,
  within_limits L q = false ->
  fst (service_step L ss q) = ss /\ rejection (snd (service_step L ss q)) /\
  (any_open ss = false -> exists e, snd (service_step L ss q) = PErr e).
Proof. exact ServiceProofs.limits_reject. Qed.
Print Assumptions C19_limits.

(* the limits exactly: size = limit passes, limit + 1 does not, an empty key never does *)
Theorem C19_limit_boundaries : forall L k v,
  (len k = max_key L -> 1 <= max_key L -> valid_key L k = true) /\
  (len k = max_key L + 1 -> valid_key L k = false) /\
  (len k = 0 -> valid_key L k = false) /\
  (len v = max_val L -> valid_val L v = true) /\
  (len v = max_val L + 1 -> valid_val L v = false).
Proof. exact ServiceProofs.limit_boundaries. Qed.
Print Assumptions C19_limit_boundaries.

(* a bad operation anywhere in a BatchWrite leaves the engine untouched *)
Theorem C19_batch_all_or_nothing : forall L ss good bad rest s,
  op_within L bad = false ->
  s_eng (fst (service_step L ss (QBatch (good ++ bad :: rest) s))) = s_eng ss.
Proof. exact ServiceProofs.batch_all_or_nothing. Qed.
Print Assumptions C19_batch_all_or_nothing.

(* after CommitTransaction / RollbackTransaction of a registered handle (whatever the commit
   returned) every later request on it, after any further program, answers "transaction not
   found" and changes nothing *)
Theorem C19_handle_dead : forall L ss h q,
  reg_ok ss -> lookup_h ss h <> None -> (q = QCommit h \/ q = QRollback h) -> fits L q = true ->
  forall prog q',
    let ss2 := fst (srun L (fst (service_step L ss q)) prog) in
    on_handle h q' ->
    fst (service_step L ss2 q') = ss2 /\
    (fits L q' = true -> snd (service_step L ss2 q') = PErr ENoTx).
Proof. exact ServiceProofs.handle_dead. Qed.
Print Assumptions C19_handle_dead.

Theorem C19_unknown_handle : forall L ss h q,
  lookup_h ss h = None -> on_handle h q -> fits L q = true ->
  service_step L ss q = (ss, PErr ENoTx).
Proof. exact ServiceProofs.unknown_handle. Qed.
Print Assumptions C19_unknown_handle.

(* every option combination of Scan / TxScan: the live keys of the selected set (prefix and
   suffix filter the whole key space and make a range irrelevant; otherwise [start, end), an
   empty bound meaning none), ascending, latest values, the transaction's operations on top,
   cut to the first `limit` live keys when limit > 0 *)
Theorem C19_scan_semantics : forall c ops buf o, lost_log (run c ops) = false ->
  scan_rows (run c ops) buf o = spec_rows (acked (init c) ops) buf o.
Proof. exact ServiceProofs.scan_semantics. Qed.
Print Assumptions C19_scan_semantics.

Theorem C19_scan_semantics_service : forall L c p prog buf o,
  let ss := fst (srun L (sinit c p) prog) in
  scan_rows (s_eng ss) buf o = spec_rows (acked (init c) (etrace L (sinit c p) prog)) buf o.
Proof. exact ServiceProofs.scan_semantics_service. Qed.
Print Assumptions C19_scan_semantics_service.

(* the transport of the server as cmd/kevo builds it admits every single write the limits admit *)
Theorem C19_single_write_fits : forall k v s n,
  valid_key code_limits k = true -> valid_val code_limits v = true ->
  fits code_limits (QPut k v s) = true /\ fits code_limits (QTxPut (HId n) k v) = true.
Proof. exact ServiceProofs.single_write_fits. Qed.
Print Assumptions C19_single_write_fits.

(* Compact, with or without force, changes nothing the embedded specification can see *)
Theorem C19_compact_keeps_data : forall L c tr ss f,
  s_eng ss = run c tr -> any_open ss = false -> fits L (QCompact f) = true ->
  snd (service_step L ss (QCompact f)) = POk /\
  abs c (tr ++ eops L ss (SReq (QCompact f))) (fst (service_step L ss (QCompact f))) = abs c tr ss.
Proof. exact ServiceProofs.compact_keeps_data. Qed.
Print Assumptions C19_compact_keeps_data.

(* ... and sends back every key and value they admit (send limit of the same server options) *)
Theorem C19_admitted_values_can_be_sent : forall k v,
  valid_key code_limits k = true -> valid_val code_limits v = true ->
  ServiceProofs.sendable (ServiceProofs.resp_wire_bound k v) = true.
Proof. exact ServiceProofs.admitted_values_can_be_sent. Qed.
Print Assumptions C19_admitted_values_can_be_sent.
