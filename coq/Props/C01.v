(* Props/C01.v — property theorems for C01 (reads return the latest acknowledged write
   through every layer); each closed by `exact` of a lemma proved in EngineProofs.v, with
   Print Assumptions beneath. *)
From KV Require Import Bytes Spec Memtable WalCodec Engine EngineProofs.
Open Scope N_scope.

Theorem C01_read_latest : forall c ops k,
  lost_log (run c ops) = false ->
  get (run c ops) k = spec_get (acked (init c) ops) k.
Proof. exact EngineProofs.C01_read_latest. Qed.
Print Assumptions C01_read_latest.

Theorem C01_flush_invariant : forall s k, reachable s -> get (flush s) k = get s k.
Proof. exact EngineProofs.C01_flush_invariant. Qed.
Print Assumptions C01_flush_invariant.

Theorem C01_reopen_invariant : forall s k,
  reachable s -> lost_log (reopen s) = false -> get (reopen s) k = get s k.
Proof. exact EngineProofs.C01_reopen_invariant. Qed.
Print Assumptions C01_reopen_invariant.

Theorem C01_error_no_effect : forall s,
  (forall k v s', put s k v = (s', WrOverflow) -> s' = s) /\
  (forall k s', del s k = (s', WrOverflow) -> s' = s) /\
  (forall ops s', apply_batch s ops = (s', WrOverflow) -> s' = s) /\
  (forall ops s', tx_commit s ops = (s', WrOverflow) -> s' = s).
Proof. exact EngineProofs.C01_error_no_effect. Qed.
Print Assumptions C01_error_no_effect.

(* the SSTables of a run without a reopen: each strictly ascending in key, layer recency in
   list order (key_asc, recency, tabs_of are defined in EngineProofs.v, Part F) *)
Theorem C01_ssts_agree : forall c ops,
  Forall (fun o => o <> OReopen) ops ->
  Forall key_asc (tabs_of (run c ops)) /\ recency (tabs_of (run c ops)).
Proof. exact EngineProofs.ssts_agree. Qed.
Print Assumptions C01_ssts_agree.

Theorem C01_ssts_agree_reopen_refuted : exists c ops,
  lost_log (run c ops) = false /\ ~ recency (tabs_of (run c ops)).
Proof. exact EngineProofs.ssts_agree_reopen_refuted. Qed.
Print Assumptions C01_ssts_agree_reopen_refuted.
