(* Props/C18.v — property theorems for C18 only; each closed by `exact` of a lemma proved
   elsewhere, with Print Assumptions beneath. *)
From Coq Require Import List NArith Bool Sorted Permutation.
From KV Require Import Bytes Memtable MemtableProofs MemtableHeld SkipList SkipListProofs SkipConc.
Import ListNotations.
Open Scope N_scope.

(* ---- Part A: sequential ------------------------------------------------------------- *)

Theorem C18_bcmp_total_order :
  (forall a, bcmp a a = Eq) /\
  (forall a b, bcmp a b = Eq -> a = b) /\
  (forall a b, bcmp a b = CompOpp (bcmp b a)) /\
  (forall a b c, bcmp a b = Lt -> bcmp b c = Lt -> bcmp a c = Lt).
Proof. exact MemtableProofs.bcmp_total_order. Qed.
Print Assumptions C18_bcmp_total_order.

Theorem C18_elt_strict_weak_order :
  (forall a, elt a a = false) /\
  (forall a b c, elt a b = true -> elt b c = true -> elt a c = true) /\
  (forall a b c, elt a b = false -> elt b a = false -> elt b c = false -> elt c b = false ->
                 elt a c = false /\ elt c a = false) /\
  (forall a b, elt a b = false -> elt b a = false -> mk a = mk b /\ mseq a = mseq b).
Proof. exact MemtableProofs.elt_strict_weak_order. Qed.
Print Assumptions C18_elt_strict_weak_order.

Theorem C18_insert_sorted : forall e l, sorted l -> sorted (insert e l).
Proof. exact MemtableProofs.insert_sorted. Qed.
Print Assumptions C18_insert_sorted.

Theorem C18_insert_perm : forall e l, Permutation (insert e l) (e :: l).
Proof. exact MemtableProofs.insert_perm. Qed.
Print Assumptions C18_insert_perm.

(* what latest_version means *)
Theorem C18_latest_version_some : forall k es e,
  latest_version k es = Some e <->
  exists l1 l2, es = l1 ++ e :: l2 /\ mk e = k /\
    (forall x, In x l1 -> mk x = k -> mseq x <= mseq e) /\
    (forall x, In x l2 -> mk x = k -> mseq x < mseq e).
Proof. exact MemtableProofs.latest_version_some_iff. Qed.
Print Assumptions C18_latest_version_some.

Theorem C18_latest_version_none : forall k es,
  latest_version k es = None <-> (forall x, In x es -> mk x <> k).
Proof. exact MemtableProofs.latest_version_none_iff. Qed.
Print Assumptions C18_latest_version_none.

Theorem C18_find : forall es k, find k (build es) = latest_version k es.
Proof. exact MemtableProofs.find_build. Qed.
Print Assumptions C18_find.

Theorem C18_iter : forall es,
  sorted (build es) /\
  Permutation (build es) es /\
  (forall c, filter (eqv c) (build es) = rev (filter (eqv c) es)) /\
  build es = isort (rev es).
Proof. exact MemtableProofs.C18_iter. Qed.
Print Assumptions C18_iter.

Theorem C18_iter_unique : forall es l,
  sorted l -> (forall c, filter (eqv c) l = rev (filter (eqv c) es)) -> l = build es.
Proof. exact MemtableProofs.C18_iter_unique. Qed.
Print Assumptions C18_iter_unique.

Theorem C18_get : forall ops k,
  mt_get (mt_run mt_empty ops) k = get_of (latest_version k (live_entries ops)).
Proof. exact MemtableProofs.C18_get. Qed.
Print Assumptions C18_get.

Theorem C18_immutable :
  (forall m e, mt_imm m = true -> mt_add m e = m) /\
  (forall m ops, mt_run (mt_set_imm m) ops = mt_set_imm m) /\
  (forall m ops k, mt_get (mt_run (mt_set_imm m) ops) k = mt_get m k) /\
  (forall m ops, mt_entries (mt_run (mt_set_imm m) ops) = mt_entries m).
Proof. exact MemtableProofs.C18_immutable. Qed.
Print Assumptions C18_immutable.

(* guard: no inserted sequence number is 2^64-1 (nextSeqNum = seq+1 would wrap to 0) *)
Theorem C18_iter_mt : forall ops,
  Forall (fun e => mseq e < 2^64 - 1) (live_entries ops) ->
  mt_iter_entries (mt_run mt_empty ops) = build (live_entries ops).
Proof. exact MemtableProofs.C18_iter_mt. Qed.
Print Assumptions C18_iter_mt.

Theorem C18_iter_imm : forall ops m,
  mt_iter_entries (mt_run (mt_set_imm m) ops) = mt_entries m.
Proof. exact MemtableProofs.C18_iter_imm. Qed.
Print Assumptions C18_iter_imm.

(* the guard is needed *)
Theorem C18_iter_wrap_refuted :
  let ops := [OPut [1] [10] (2^63); OPut [2] [20] (2^64 - 1); OPut [3] [30] 5] in
  mt_iter_entries (mt_run mt_empty ops) = [mkM [3] 5 KVal [30]] /\
  mt_entries (mt_run mt_empty ops) =
    [mkM [1] (2^63) KVal [10]; mkM [2] (2^64 - 1) KVal [20]; mkM [3] 5 KVal [30]] /\
  mt_next (mt_run mt_empty ops) = 6 /\
  mt_iter_entries (mt_run mt_empty ops) <> build (live_entries ops).
Proof. exact MemtableProofs.C18_iter_wrap_refuted. Qed.
Print Assumptions C18_iter_wrap_refuted.

Theorem C18_seek : forall ops t,
  Forall (fun e => mseq e < 2^64 - 1) (live_entries ops) ->
  let l := mt_iter_entries (mt_run mt_empty ops) in
  exists pre, l = pre ++ seek_ge t l /\
    Forall (fun x => blt (mk x) t = true) pre /\
    Forall (fun x => blt (mk x) t = false) (seek_ge t l).
Proof. exact MemtableProofs.C18_seek. Qed.
Print Assumptions C18_seek.

Theorem C18_seek_visible : forall t p l, sorted l ->
  seek_ge t (filter p l) = filter p (seek_ge t l).
Proof. exact MemtableProofs.seek_ge_visible. Qed.
Print Assumptions C18_seek_visible.

(* ---- Part B: the multi-level (tower) structure --------------------------------------- *)

Theorem C18_towers :
  (forall less height t, (1 <= height)%nat -> heights_ok t -> mono less t ->
     search less height t = dropw less t) /\
  (forall s, sl_wf s ->
     (forall e h, (1 <= h <= MaxHeight)%nat ->
        map fst (sl_nodes (sl_insert e h s)) = insert e (map fst (sl_nodes s)) /\
        sl_wf (sl_insert e h s)) /\
     (forall k, sl_find k s = find k (map fst (sl_nodes s))) /\
     (forall k, sl_seek k s = seek_ge k (map fst (sl_nodes s)))) /\
  (forall ehs, Forall (fun p : mentry * nat => (1 <= snd p <= MaxHeight)%nat) ehs ->
     map fst (sl_nodes (sl_build ehs)) = build (map fst ehs) /\
     forall k, sl_find k (sl_build ehs) = latest_version k (map fst ehs)).
Proof. exact SkipListProofs.C18_towers. Qed.
Print Assumptions C18_towers.

Theorem C18_towers_levels : forall e h s lv, sl_wf s ->
  map fst (chain lv (sl_nodes (sl_insert e h s))) =
  if Nat.ltb lv h then insert e (map fst (chain lv (sl_nodes s)))
  else map fst (chain lv (sl_nodes s)).
Proof. exact SkipListProofs.sl_insert_chain. Qed.
Print Assumptions C18_towers_levels.

Theorem C18_towers_prevs : forall e s top l P, sl_wf s ->
  In (l, P) (descend_prevs (less_entry e) top (sl_nodes s)) ->
  chain l P = dropw (less_entry e) (chain l (sl_nodes s)).
Proof. exact SkipListProofs.sl_insert_prevs. Qed.
Print Assumptions C18_towers_prevs.

(* ---- Part C: readers concurrent with the single writer -------------------------------- *)

(* after every prefix of the store sequence of one Insert the heap is well formed *)
Theorem C18_wellformed_always : forall h0 ls e n height k,
  wf_heap h0 ls -> fresh_node h0 ls n e ->
  let prev := fun lv => pred_of h0 e (ls lv) in
  let h := run n prev h0 (firstn k (insert_prog height)) in
  exists ls',
    wf_heap h ls' /\
    (forall lv, sorted (ents h (ls' lv))) /\
    (forall a, entry_of h a = entry_of h0 a) /\
    (forall lv, incl (ls lv) (ls' lv)) /\
    (forall lv, ents h (ls' lv) = ents h0 (ls lv) \/
                ents h (ls' lv) = insert e (ents h0 (ls lv))).
Proof. exact SkipConc.C18_wellformed_always. Qed.
Print Assumptions C18_wellformed_always.

Theorem C18_insert_complete : forall h0 ls e n height,
  wf_heap h0 ls -> fresh_node h0 ls n e ->
  let prev := fun lv => pred_of h0 e (ls lv) in
  let h := run n prev h0 (insert_prog height) in
  let ls' := fun lv => if Nat.ltb lv height then linked_in h0 e n (ls lv) else ls lv in
  wf_heap h ls' /\
  (forall lv, ents h (ls' lv) =
              if Nat.ltb lv height then insert e (ents h0 (ls lv)) else ents h0 (ls lv)).
Proof. exact SkipConc.C18_insert_complete. Qed.
Print Assumptions C18_insert_complete.

(* level-0 traversals whose loads interleave arbitrarily with the stores of one Insert *)
Theorem C18_reader : forall h0 ls e n height rs sched,
  wf_heap h0 ls -> fresh_node h0 ls n e ->
  Forall (reader_ok h0 ls) rs ->
  let prev := fun lv => pred_of h0 e (ls lv) in
  let s := sys_run n prev (mkSys h0 (insert_prog height) rs) sched in
  length (s_readers s) = length rs /\
  forall r, In r (s_readers s) ->
    (exists rest, r_done r ++ rest = head :: ls 0%nat \/
                  r_done r ++ rest = head :: linked_in h0 e n (ls 0%nat)) /\
    (r_cur r = None ->
       let out := ents (s_heap s) (tl (r_done r)) in
       (out = ents h0 (ls 0%nat) \/ out = insert e (ents h0 (ls 0%nat))) /\ sorted out /\
       (forall x, In x (ents h0 (ls 0%nat)) -> In x out)).
Proof. exact SkipConc.C18_reader. Qed.
Print Assumptions C18_reader.

(* the top-down search on the heap computes the prev[] used above *)
Theorem C18_heap_search : forall h ls e fuel,
  wf_heap h ls -> (forall lv, length (ls lv) <= fuel)%nat ->
  forall height lv, (lv < height)%nat -> h_prevs h e fuel height lv = pred_of h e (ls lv).
Proof. exact SkipConc.h_prevs_spec. Qed.
Print Assumptions C18_heap_search.

Theorem C18_wellformed_always_search : forall h0 ls e n height fuel k,
  wf_heap h0 ls -> fresh_node h0 ls n e -> (length (ls 0%nat) <= fuel)%nat ->
  let h := run n (h_prevs h0 e fuel height) h0 (firstn k (insert_prog height)) in
  exists ls',
    wf_heap h ls' /\
    (forall lv, sorted (ents h (ls' lv))) /\
    (forall a, entry_of h a = entry_of h0 a) /\
    (forall lv, incl (ls lv) (ls' lv)) /\
    (forall lv, ents h (ls' lv) = ents h0 (ls lv) \/
                ents h (ls' lv) = insert e (ents h0 (ls lv))).
Proof. exact SkipConc.C18_wellformed_always_search. Qed.
Print Assumptions C18_wellformed_always_search.

Theorem C18_reader_search : forall h0 ls e n height fuel rs sched,
  wf_heap h0 ls -> fresh_node h0 ls n e -> (length (ls 0%nat) <= fuel)%nat ->
  Forall (reader_ok h0 ls) rs ->
  let s := sys_run n (h_prevs h0 e fuel height) (mkSys h0 (insert_prog height) rs) sched in
  length (s_readers s) = length rs /\
  forall r, In r (s_readers s) ->
    (exists rest, r_done r ++ rest = head :: ls 0%nat \/
                  r_done r ++ rest = head :: linked_in h0 e n (ls 0%nat)) /\
    (r_cur r = None ->
       let out := ents (s_heap s) (tl (r_done r)) in
       (out = ents h0 (ls 0%nat) \/ out = insert e (ents h0 (ls 0%nat))) /\ sorted out /\
       (forall x, In x (ents h0 (ls 0%nat)) -> In x out)).
Proof. exact SkipConc.C18_reader_search. Qed.
Print Assumptions C18_reader_search.

(* readers that appear at any moment while the writer works through any list of inserts *)
Theorem C18_reader_multi : forall fuel h0 ls0 todo sched1 sched2,
  wf_heap h0 ls0 -> todo_ok h0 todo -> (length (ls0 0%nat) + length todo <= fuel)%nat ->
  let s1 := m_run fuel (m_init h0 todo) sched1 in
  let s2 := m_run fuel (m_step fuel s1 MSpawn) sched2 in
  let r := nth (length (m_readers s1)) (m_readers s2) r_init in
  exists C1 C2,
    path (m_heap s1) 0 (Some head) C1 /\
    path (m_heap s2) 0 (Some head) C2 /\ sorted (ents (m_heap s2) (tl C2)) /\
    (exists rest, subseq C1 (r_done r ++ rest) /\ subseq (r_done r ++ rest) C2) /\
    (r_cur r = None ->
       let out := ents (m_heap s2) (tl (r_done r)) in
       sorted out /\ subseq (tl C1) (tl (r_done r)) /\ subseq (tl (r_done r)) (tl C2) /\
       (forall x, In x (ents (m_heap s1) (tl C1)) -> In x out)).
Proof. exact SkipConc.C18_reader_multi. Qed.
Print Assumptions C18_reader_multi.

(* ---- Part D: an iterator held while the writer goes on (any interleaving) --------------- *)
(* MemtableHeld.v.  held_run m h evs: the writer inserts (HWrite e = MemTable.Put/Delete) and
   the holder calls Next (HNext) in any order; held_yield = where the positioning put the
   iterator, then where each Next put it; held_mt / held_it = table and iterator at the end.
   held_wf m0 evs := sorted (mt_entries m0) /\ nodup_nodes (writes evs ++ mt_entries m0):
   the table is sorted and no (key, seq) pair occurs twice among the nodes present and the
   entries the writer inserts (the WAL hands out strictly increasing sequence numbers, so the
   engine's writer never reuses a pair).
   key_seq_lt a b := bcmp (mk a) (mk b) = Lt \/ (mk a = mk b /\ mseq b < mseq a). *)

(* the live chain behind the node the iterator stands on: an insert leaves it unchanged or adds
   the new entry at its sorted place *)
Theorem C18_held_after_insert : forall e x l,
  StronglySorted (fun a b => elt a b = true) l -> In e l ->
  (forall z, In z l -> (mk z, mseq z) <> (mk x, mseq x)) ->
  Memtable.after e (insert x l) = if elt e x then insert x (Memtable.after e l) else Memtable.after e l.
Proof. exact MemtableHeld.after_insert. Qed.
Print Assumptions C18_held_after_insert.

(* Next moves to the least visible node of the table AS IT IS NOW strictly behind the current one *)
Theorem C18_held_next_step : forall m h e,
  StronglySorted (fun a b => elt a b = true) (mt_entries m) -> h_cur h = Some e ->
  In e (mt_entries m) ->
  match h_cur (h_next m h) with
  | None => forall z, In z (mt_entries m) -> visible (h_snap h) z = true -> ~ elt e z = true
  | Some y => In y (mt_entries m) /\ visible (h_snap h) y = true /\ elt e y = true /\
              forall z, In z (mt_entries m) -> visible (h_snap h) z = true -> elt e z = true ->
                        z = y \/ elt y z = true
  end.
Proof. exact MemtableHeld.h_next_step. Qed.
Print Assumptions C18_held_next_step.

(* well-formed at every moment *)
Theorem C18_held_table_sorted : forall evs m h, held_wf m evs ->
  sorted (mt_entries (held_mt m h evs)) /\ nodup_nodes (mt_entries (held_mt m h evs)).
Proof. exact MemtableHeld.held_mt_ssorted. Qed.
Print Assumptions C18_held_table_sorted.

(* a. ORDER *)
Theorem C18_held_first_order : forall m0 evs, held_wf m0 evs ->
  StronglySorted key_seq_lt (held_yield m0 (h_first m0 (h_new m0)) evs).
Proof. exact MemtableHeld.held_first_order. Qed.
Print Assumptions C18_held_first_order.

Theorem C18_held_seek_order : forall t m0 evs, held_wf m0 evs ->
  StronglySorted key_seq_lt (held_yield m0 (h_seek t m0 (h_new m0)) evs).
Proof. exact MemtableHeld.held_seek_order. Qed.
Print Assumptions C18_held_seek_order.

(* from any position; and: no node, no entry twice *)
Theorem C18_held_order_nodup : forall m h evs, held_wf m evs ->
  (forall e, h_cur h = Some e -> In e (mt_entries m) /\ visible (h_snap h) e = true) ->
  sorted (held_yield m h evs) /\ nodup_nodes (held_yield m h evs) /\ NoDup (held_yield m h evs).
Proof. exact MemtableHeld.held_order_nodup. Qed.
Print Assumptions C18_held_order_nodup.

(* b. SOUNDNESS, at that time (no hypothesis on the table) *)
Theorem C18_held_first_step_sound : forall m h y, h_cur (h_first m h) = Some y ->
  In y (mt_entries m) /\ visible (h_snap h) y = true.
Proof. exact MemtableHeld.h_first_sound. Qed.
Print Assumptions C18_held_first_step_sound.

Theorem C18_held_seek_step_sound : forall t m h y, h_cur (h_seek t m h) = Some y ->
  In y (mt_entries m) /\ visible (h_snap h) y = true /\
  (sorted (mt_entries m) -> blt (mk y) t = false).
Proof. exact MemtableHeld.h_seek_sound. Qed.
Print Assumptions C18_held_seek_step_sound.

Theorem C18_held_next_step_sound : forall m h y, h_cur h <> None -> h_cur (h_next m h) = Some y ->
  In y (mt_entries m) /\ visible (h_snap h) y = true.
Proof. exact MemtableHeld.h_next_sound. Qed.
Print Assumptions C18_held_next_step_sound.

(* b. SOUNDNESS, over the run *)
Theorem C18_held_first_sound : forall m0 evs y,
  In y (held_yield m0 (h_first m0 (h_new m0)) evs) ->
  In y (mt_entries (held_mt m0 (h_first m0 (h_new m0)) evs)) /\
  visible (mt_snapshot m0) y = true /\
  (In y (mt_entries m0) \/ In y (writes evs)).
Proof. exact MemtableHeld.held_first_sound. Qed.
Print Assumptions C18_held_first_sound.

Theorem C18_held_seek_sound : forall t m0 evs y, held_wf m0 evs ->
  In y (held_yield m0 (h_seek t m0 (h_new m0)) evs) ->
  In y (mt_entries (held_mt m0 (h_seek t m0 (h_new m0)) evs)) /\
  visible (mt_snapshot m0) y = true /\
  (In y (mt_entries m0) \/ In y (writes evs)) /\
  blt (mk y) t = false.
Proof. exact MemtableHeld.held_seek_sound. Qed.
Print Assumptions C18_held_seek_sound.

(* c. COMPLETENESS: "contains at least everything inserted before they started" *)
Theorem C18_held_first_complete : forall m0 evs x, held_wf m0 evs ->
  h_cur (held_it m0 (h_first m0 (h_new m0)) evs) = None ->
  In x (mt_iter_entries m0) -> In x (held_yield m0 (h_first m0 (h_new m0)) evs).
Proof. exact MemtableHeld.held_first_complete. Qed.
Print Assumptions C18_held_first_complete.

Theorem C18_held_seek_complete : forall t m0 evs x, held_wf m0 evs ->
  h_cur (held_it m0 (h_seek t m0 (h_new m0)) evs) = None ->
  In x (mt_iter_entries m0) -> blt (mk x) t = false ->
  In x (held_yield m0 (h_seek t m0 (h_new m0)) evs).
Proof. exact MemtableHeld.held_seek_complete. Qed.
Print Assumptions C18_held_seek_complete.

(* d. SNAPSHOT *)
Theorem C18_held_first_no_future : forall m0 evs w, mt_snapshot m0 <> 0 ->
  In w (writes evs) -> mt_snapshot m0 < mseq w ->
  ~ In w (held_yield m0 (h_first m0 (h_new m0)) evs).
Proof. exact MemtableHeld.held_first_no_future. Qed.
Print Assumptions C18_held_first_no_future.

Theorem C18_held_seek_no_future : forall t m0 evs w, mt_snapshot m0 <> 0 ->
  In w (writes evs) -> mt_snapshot m0 < mseq w ->
  ~ In w (held_yield m0 (h_seek t m0 (h_new m0)) evs).
Proof. exact MemtableHeld.held_seek_no_future. Qed.
Print Assumptions C18_held_seek_no_future.

(* the writer is hidden (immutable table, or non-zero snapshot and all new numbers above it):
   an iterator run to exhaustion shows exactly the snapshot contents *)
Theorem C18_held_first_exact : forall m0 evs, held_wf m0 evs ->
  (mt_imm m0 = true \/
   (mt_snapshot m0 <> 0 /\ Forall (fun w => mt_snapshot m0 < mseq w) (writes evs))) ->
  h_cur (held_it m0 (h_first m0 (h_new m0)) evs) = None ->
  held_yield m0 (h_first m0 (h_new m0)) evs = mt_iter_entries m0.
Proof. exact MemtableHeld.held_first_exact. Qed.
Print Assumptions C18_held_first_exact.

Theorem C18_held_seek_exact : forall t m0 evs, held_wf m0 evs ->
  (mt_imm m0 = true \/
   (mt_snapshot m0 <> 0 /\ Forall (fun w => mt_snapshot m0 < mseq w) (writes evs))) ->
  h_cur (held_it m0 (h_seek t m0 (h_new m0)) evs) = None ->
  held_yield m0 (h_seek t m0 (h_new m0)) evs = seek_ge t (mt_iter_entries m0).
Proof. exact MemtableHeld.held_seek_exact. Qed.
Print Assumptions C18_held_seek_exact.

(* snapshot 0: the immutable table (writer ignored, whole table shown) ... *)
Theorem C18_held_first_imm : forall m0 evs, held_wf m0 evs -> mt_imm m0 = true ->
  held_mt m0 (h_first m0 (h_new m0)) evs = m0 /\
  mt_snapshot m0 = 0 /\
  (h_cur (held_it m0 (h_first m0 (h_new m0)) evs) = None ->
   held_yield m0 (h_first m0 (h_new m0)) evs = mt_entries m0).
Proof. exact MemtableHeld.held_first_imm. Qed.
Print Assumptions C18_held_first_imm.

(* ... and the mutable table whose nextSeqNum is still 0: Next shows the live successor,
   whatever its number (no filtering) *)
Theorem C18_held_next_unfiltered : forall m h e, h_snap h = 0 -> h_cur h = Some e ->
  h_cur (h_next m h) = match Memtable.after e (mt_entries m) with [] => None | x :: _ => Some x end.
Proof. exact MemtableHeld.held_next_unfiltered. Qed.
Print Assumptions C18_held_next_unfiltered.

(* non-vacuity: writes ahead of and behind the iterator, new versions of the key it stands on *)
Theorem C18_held_first_ex :
  held_wf ex_m0 ex_evs /\ writer_hidden ex_m0 ex_evs /\ mt_snapshot ex_m0 = 4 /\
  mt_iter_entries ex_m0 = [mkM [1] 1 KVal [10]; mkM [3] 2 KVal [30]; mkM [5] 3 KVal [50]] /\
  held_yield ex_m0 (h_first ex_m0 (h_new ex_m0)) ex_evs =
    [mkM [1] 1 KVal [10]; mkM [3] 2 KVal [30]; mkM [5] 3 KVal [50]] /\
  h_cur (held_it ex_m0 (h_first ex_m0 (h_new ex_m0)) ex_evs) = None /\
  mt_entries (held_mt ex_m0 (h_first ex_m0 (h_new ex_m0)) ex_evs) =
    [mkM [0] 10 KVal [0]; mkM [1] 1 KVal [10]; mkM [2] 11 KVal [20]; mkM [3] 13 KVal [31];
     mkM [3] 2 KVal [30]; mkM [4] 9 KVal [40]; mkM [5] 12 KDel []; mkM [5] 3 KVal [50];
     mkM [7] 14 KVal [70]].
Proof. exact MemtableHeld.held_first_ex. Qed.
Print Assumptions C18_held_first_ex.

(* "at least", not "exactly": a write numbered exactly nextSeqNum (= the snapshot) that lands
   ahead of the iterator is shown *)
Theorem C18_held_snapshot_boundary_ex :
  let evs := [HWrite (mkM [4] 4 KVal [40]); HWrite (mkM [2] 5 KVal [20]); HNext; HNext; HNext; HNext] in
  held_wf ex_m0 evs /\ mt_snapshot ex_m0 = 4 /\
  held_yield ex_m0 (h_first ex_m0 (h_new ex_m0)) evs =
    [mkM [1] 1 KVal [10]; mkM [3] 2 KVal [30]; mkM [4] 4 KVal [40]; mkM [5] 3 KVal [50]] /\
  h_cur (held_it ex_m0 (h_first ex_m0 (h_new ex_m0)) evs) = None.
Proof. exact MemtableHeld.held_snapshot_boundary_ex. Qed.
Print Assumptions C18_held_snapshot_boundary_ex.

(* the no-reuse hypothesis is needed by the MODEL (its iterator finds its node by (key, seq)) *)
Theorem C18_held_reused_pair_boundary :
  let evs := [HWrite (mkM [1] 1 KVal [11]); HNext; HNext; HNext] in
  ~ nodup_nodes (writes evs ++ mt_entries ex_m0) /\
  held_yield ex_m0 (h_first ex_m0 (h_new ex_m0)) evs =
    [mkM [1] 1 KVal [10]; mkM [1] 1 KVal [10]; mkM [1] 1 KVal [10]; mkM [1] 1 KVal [10]].
Proof. exact MemtableHeld.held_reused_pair_boundary. Qed.
Print Assumptions C18_held_reused_pair_boundary.

(* ---------- Part E: the memtable pool (MemPool.v, MemPoolProofs.v) ---------- *)
From KV Require Spec EngineProofs MemPool MemPoolProofs.
(* whatever the placement of SwitchToNewMemTable among the writes, a pool lookup returns the effect
   of the last write of the key (sequence numbers of the writer do not decrease) *)
Theorem C18_pool_get_last_write : forall ops k,
  Sorted.StronglySorted EngineProofs.seq_le (MemPoolProofs.writes ops) ->
  MemPool.pl_get (MemPoolProofs.prun ops) k =
  Spec.last_effect k (map EngineProofs.eff (MemPoolProofs.writes ops)).
Proof. exact MemPoolProofs.pool_get_last_write. Qed.
Print Assumptions C18_pool_get_last_write.

Theorem C18_pool_tables_shape : forall ops,
  length (MemPool.pl_tables (MemPoolProofs.prun ops)) =
    S (length (filter (fun o => match o with MemPoolProofs.PSwitch => true | _ => false end) ops)) /\
  mt_imm (MemPool.pl_active (MemPoolProofs.prun ops)) = false /\
  Forall (fun t => mt_imm t = true) (MemPool.pl_imms (MemPoolProofs.prun ops)).
Proof. exact MemPoolProofs.pool_tables_shape. Qed.
Print Assumptions C18_pool_tables_shape.
