(* Props/C06.v — property theorems for C06 (concurrent gets, puts and deletes are
   linearizable); each closed by `exact` of a lemma proved elsewhere, with Print
   Assumptions beneath. *)
From KV Require Import Bytes Spec Engine EngineProofs Hist HistProofs EngineConc EngineConcProofs.
Open Scope N_scope.

(* every interleaving of client sections and flusher steps leaves a linearizable history *)
Theorem C06_linearizable : forall cf tr,
  lts_trace (init cf) tr -> linearizable [] (history (init cf) tr).
Proof. exact EngineConcProofs.C06_linearizable. Qed.
Print Assumptions C06_linearizable.

Theorem C06_linearizable_reachable : forall s0 tr,
  reachable s0 -> lost_log s0 = false -> lts_trace s0 tr ->
  exists w0, (forall k, get s0 k = spec_get w0 k) /\ linearizable w0 (history s0 tr).
Proof. exact EngineConcProofs.C06_linearizable_reachable. Qed.
Print Assumptions C06_linearizable_reachable.

(* a write that reports success took effect exactly once *)
Theorem C06_ack_exactly_once : forall s h r obs s',
  MInv s h -> section s r obs = (s', PAck) ->
  exists q w, MInv s' (h ++ [(q, w)]) /\
    match r with CPut k v => w = WPut k v | CDel k => w = WDel k | CGet _ => False end.
Proof. exact EngineConcProofs.C06_ack_exactly_once. Qed.
Print Assumptions C06_ack_exactly_once.

Theorem C06_ack_put_visible : forall s h k v obs s' k',
  MInv s h -> section s (CPut k v) obs = (s', PAck) ->
  get s' k' = if beq k k' then Some v else get s k'.
Proof. exact EngineConcProofs.C06_ack_put_visible. Qed.
Print Assumptions C06_ack_put_visible.

(* a write that reports an error took no effect: no read changes ... *)
Theorem C06_error_invisible : forall s h r obs s',
  MInv s h -> section s r obs = (s', PErr) -> MInv s' h /\ forall k, get s' k = get s k.
Proof. exact EngineConcProofs.C06_error_invisible. Qed.
Print Assumptions C06_error_invisible.

(* ... and nothing at all changes unless an attempt saw the log flip between its checks *)
Theorem C06_error_no_effect_partial : forall s r obs s',
  ~ In WFlip obs -> section s r obs = (s', PErr) -> s' = s.
Proof. exact EngineConcProofs.C06_error_no_effect_partial. Qed.
Print Assumptions C06_error_no_effect_partial.

(* with such a flip the code leaves the record of the failed write in the log; it takes
   effect at the next restart (the full statement C06_error_no_effect_statement is false of
   the faithful model; replayed against the real code by corpus/C06/flip-*.case) *)
Theorem C06_error_no_effect_refuted : exists s k v obs s',
  section s (CPut k v) obs = (s', PErr) /\
  concat (wal_files s) = [] /\ concat (wal_files s') = [WalCodec.mkW WalCodec.OpPut 1 k v] /\
  get s k = None /\ get s' k = None /\ get (reopen s') k = Some v.
Proof. exact EngineConcProofs.C06_error_no_effect_refuted. Qed.
Print Assumptions C06_error_no_effect_refuted.

(* the checker that judges the recorded histories of the real engine is sound *)
Theorem C06_lin_check_sound : forall fuel h, lin_check fuel h = true -> linearizable_per_key h.
Proof. exact HistProofs.lin_check_sound. Qed.
Print Assumptions C06_lin_check_sound.
