(* Props/C06.v — property theorems for C06 (concurrent gets, puts and deletes are
   linearizable); each closed by `exact` of a lemma proved elsewhere, with Print
   Assumptions beneath. *)
From Coq Require Import Sorted.
From KV.gen Require Import ConcFacts.
From KV Require Import Bytes Spec WalCodec Engine EngineProofs Hist HistProofs EngineConc EngineConcProofs ConcFactsOk.
Open Scope N_scope.

(* every interleaving of client sections and flusher steps leaves a linearizable history *)
Theorem C06_linearizable : forall cf tr,
  lts_trace (init cf) tr -> linearizable [] (history (init cf) tr).
Proof. exact EngineConcProofs.C06_linearizable. Qed.
Print Assumptions C06_linearizable.

Theorem C06_linearizable_reachable : forall s0 tr,
  reachable s0 -> lost_log s0 = false -> lts_trace s0 tr ->
  exists w0, (forall k, get s0 k = spec_get w0 k) /\ linearizable w0 (history s0 tr).
Proof. exact EngineConcProofs.C06_linearizable_reachable. Qed.
Print Assumptions C06_linearizable_reachable.

(* a write that reports success took effect exactly once: the section is one run of
   Engine.put / Engine.del ... *)
Theorem C06_ack_is_one_write : forall s w obs s',
  retry max_retries obs w s = (s', PAck) -> exists q, do_write s w = (s', WrOk q).
Proof. exact EngineConcProofs.C06_ack_is_one_write. Qed.
Print Assumptions C06_ack_is_one_write.

Theorem C06_ack_put_visible : forall s h k v obs s' k',
  EInv s h -> section s (CPut k v) obs = (s', PAck) ->
  get s' k' = if beq k k' then Some v else get s k'.
Proof. exact EngineConcProofs.C06_ack_put_visible. Qed.
Print Assumptions C06_ack_put_visible.

(* ... and after any run the log holds exactly the writes of a linearization of the run's
   history, once each, in its order, with strictly increasing sequence numbers *)
Theorem C06_log_exactly_once : forall cf tr c,
  crun (cinit (init cf)) tr = Some c ->
  exists l h,
    linearization _ spec_apply [] (history_of c) l /\
    run_spec [] l = Some (map snd h) /\
    concat (wal_files (eng c)) = wentries h /\ StronglySorted N.lt (map fst h).
Proof. exact EngineConcProofs.C06_log_exactly_once. Qed.
Print Assumptions C06_log_exactly_once.

(* a write that reports an error took no effect: the state, log included, is unchanged *)
Theorem C06_error_no_effect : forall s r obs s',
  section s r obs = (s', PErr) -> s' = s.
Proof. exact EngineConcProofs.C06_error_no_effect. Qed.
Print Assumptions C06_error_no_effect.

(* the defect found in the code before 702abac (status re-read behind the buffered record):
   in the model of that code an errored write is in the log and appears after a restart *)
Theorem C06_error_no_effect_refuted_before_fix :
  Before702abac.retry' max_retries Before702abac.obs (WPutReq Before702abac.k Before702abac.v)
                       Before702abac.s0 = (Before702abac.s1, PErr) /\
  concat (wal_files Before702abac.s0) = [] /\
  concat (wal_files Before702abac.s1) = [mkW OpPut 1 Before702abac.k Before702abac.v] /\
  get Before702abac.s0 Before702abac.k = None /\ get Before702abac.s1 Before702abac.k = None /\
  get (reopen Before702abac.s1) Before702abac.k = Some Before702abac.v.
Proof. exact Before702abac.error_no_effect_refuted. Qed.
Print Assumptions C06_error_no_effect_refuted_before_fix.

(* the checker that judges the recorded histories of the real engine is sound *)
Theorem C06_lin_check_sound : forall fuel h, lin_check fuel h = true -> linearizable_per_key h.
Proof. exact HistProofs.lin_check_sound. Qed.
Print Assumptions C06_lin_check_sound.

(* what the checker demands per key is implied by what the model is proved to satisfy (the
   easy half of locality; the converse, Herlihy-Wing, is not proved) *)
Theorem C06_model_histories_pass_per_key : forall cf tr,
  lts_trace (init cf) tr -> linearizable_per_key (history (init cf) tr).
Proof.
  exact (fun cf tr H => HistProofs.linearizable_per_key_of_linearizable _
                          (EngineConcProofs.C06_linearizable cf tr H)).
Qed.
Print Assumptions C06_model_histories_pass_per_key.

(* the code still has the shape the atomic steps of the LTS assume (facts regenerated from
   the Go source on every run by gofacts/conc.go) *)
Theorem C06_code_facts : forallb (fun b => b) conc_facts = true /\ N.of_nat max_retries = cf_max_retries.
Proof. exact (conj ConcFactsOk.conc_facts_all (proj2 ConcFactsOk.code_retry)). Qed.
Print Assumptions C06_code_facts.
