(* Props/C02.v — property theorems for C02 (crash and recovery); each closed by `exact` of a
   lemma proved in EngineCrashProofs.v, with Print Assumptions beneath.
   crash s q: process stop, of the newest log file the writes numbered below q survive;
   surv_count s q qs: how many of the writes numbered qs survive (number below q, or logged in
   an already closed file); history c ops = combine (ack_seqs …) (acked …). *)
From Coq Require Import Sorted.
From KV Require Import Bytes Spec Memtable WalCodec Engine EngineProofs EngineCrashProofs.
Open Scope N_scope.

Theorem C02_crash_prefix : forall c ops q,
  lost_log (run c ops) = false ->
  lost_log (recover (crash (run c ops) q)) = false ->
  forall k,
    get (recover (crash (run c ops) q)) k =
    spec_get (firstn (surv_count (run c ops) q (ack_seqs (init c) ops)) (acked (init c) ops)) k.
Proof. exact EngineCrashProofs.C02_crash_prefix. Qed.
Print Assumptions C02_crash_prefix.

(* when q is above every number in the closed files, the prefix is "numbers below q" *)
Theorem C02_surv_count_simple : forall s q qs,
  Forall (fun n => n < q) (closed_seqs s) ->
  surv_count s q qs = length (filter (fun n => n <? q) qs).
Proof. exact EngineCrashProofs.surv_count_simple. Qed.
Print Assumptions C02_surv_count_simple.

Theorem C02_sync_durable : forall s q k,
  reachable s -> wal_next s <= q -> lost_log (recover (crash s q)) = false ->
  get (recover (crash s q)) k = get s k.
Proof. exact EngineCrashProofs.C02_sync_durable. Qed.
Print Assumptions C02_sync_durable.

Theorem C02_nothing_invented : forall c ops q k v,
  lost_log (run c ops) = false ->
  lost_log (recover (crash (run c ops) q)) = false ->
  get (recover (crash (run c ops) q)) k = Some v ->
  In (k, Some v) (flat (acked (init c) ops)).
Proof. exact EngineCrashProofs.C02_nothing_invented. Qed.
Print Assumptions C02_nothing_invented.

Theorem C02_clean_reopen : forall s k,
  reachable s -> lost_log (reopen s) = false -> get (reopen s) k = get s k.
Proof. exact EngineCrashProofs.C02_clean_reopen. Qed.
Print Assumptions C02_clean_reopen.

Theorem C02_again : forall c ops q,
  lost_log (run c ops) = false ->
  lost_log (recover (crash (run c ops) q)) = false ->
  let s' := recover (crash (run c ops) q) in
  let m := surv_count (run c ops) q (ack_seqs (init c) ops) in
  Inv s' (firstn m (history c ops)) /\
  forall ops' k,
    lost_log (fold_left step ops' s') = false ->
    get (fold_left step ops' s') k =
    spec_get (firstn m (acked (init c) ops) ++ acked s' ops') k.
Proof. exact EngineCrashProofs.C02_again. Qed.
Print Assumptions C02_again.

Theorem C08_after_crash : forall c ops q ops',
  lost_log (run c ops) = false ->
  let s' := recover (crash (run c ops) q) in
  let m := surv_count (run c ops) q (ack_seqs (init c) ops) in
  lost_log (fold_left step ops' s') = false ->
  StronglySorted N.lt (firstn m (ack_seqs (init c) ops) ++ ack_seqs s' ops').
Proof. exact EngineCrashProofs.C08_after_crash. Qed.
Print Assumptions C08_after_crash.

(* any number of crash / recover cycles interleaved with operations: xstep, xepoch *)
Theorem C02_cycles : forall c xs,
  let s := fold_left xstep xs (init c) in
  let h := xepoch (init c) xs [] in
  lost_log s = false ->
  (forall k, get s k = spec_get (map snd h) k) /\ StronglySorted N.lt (map fst h).
Proof. exact EngineCrashProofs.C02_cycles. Qed.
Print Assumptions C02_cycles.

Theorem C02_budget_refuted : exists c ops q k v,
  lost_log (run c ops) = false /\
  lost_log (recover (crash (run c ops) q)) = true /\
  In (WPut k v) (firstn (surv_count (run c ops) q (ack_seqs (init c) ops)) (acked (init c) ops)) /\
  In (mkW OpPut 1 k v) (concat (wal_files (crash (run c ops) q))) /\
  spec_get (firstn (surv_count (run c ops) q (ack_seqs (init c) ops)) (acked (init c) ops)) k = Some v /\
  get (recover (crash (run c ops) q)) k = None.
Proof. exact EngineCrashProofs.C02_budget_refuted. Qed.
Print Assumptions C02_budget_refuted.

(* finding D20: log retention by acknowledged sequence number alone (Engine.retain models
   WAL.ManageRetention as Primary.maybeManageWALRetention calls it).  A reachable state, every
   write acknowledged and synced, nothing cut from the newest log file: the recovered database
   lacks an acknowledged write.  (That retirement right after a FULL flush is harmless is
   the second half of C12_reopen in Props/C12.v.) *)
Theorem C02_retention_refuted : exists c ops acked k v,
  let s := run c ops in
  acked <= wal_next s /\
  lost_log s = false /\
  get s k = Some v /\
  get (retain acked s) k = Some v /\
  lost_log (recover (crash (retain acked s) (wal_next s))) = false /\
  get (recover (crash (retain acked s) (wal_next s))) k = None.
Proof. exact EngineCrashProofs.C02_retention_refuted. Qed.
Print Assumptions C02_retention_refuted.
(* what retention does guarantee: the current file stays, and a deleted file held only entries
   numbered below the acknowledged number *)
Theorem C02_retention_drops_only_acked : forall acked s f e,
  In f (wal_files s) -> ~ In f (wal_files (retain acked s)) -> In e f -> w_seq e < acked.
Proof. exact EngineCrashProofs.retain_drops_only_acked. Qed.
Print Assumptions C02_retention_drops_only_acked.
