(* Props/C08.v — property theorems for C08 (sequence numbers strictly increase); each closed
   by `exact` of a lemma proved in EngineProofs.v, with Print Assumptions beneath. *)
From Coq Require Import Sorted.
From KV Require Import Bytes Spec Memtable WalCodec Engine EngineProofs.
Open Scope N_scope.

Theorem C08_monotone : forall c ops,
  lost_log (run c ops) = false -> StronglySorted N.lt (ack_seqs (init c) ops).
Proof. exact EngineProofs.C08_monotone. Qed.
Print Assumptions C08_monotone.

Theorem C08_reported_monotone :
  (forall c ops o, lost_log (step (run c ops) o) = false ->
     last_seq (run c ops) <= last_seq (step (run c ops) o)) /\
  (forall c ops, lost_log (run c ops) = false ->
     last_seq (run c ops) = last (ack_seqs (init c) ops) 0 /\
     last_seq (run c ops) < wal_next (run c ops)).
Proof. exact EngineProofs.C08_reported_monotone. Qed.
Print Assumptions C08_reported_monotone.

Theorem C08_log_order : forall c ops,
  lost_log (run c ops) = false ->
  concat (wal_files (run c ops)) = log_of (ack_seqs (init c) ops) (acked (init c) ops) /\
  StronglySorted N.lt (ack_seqs (init c) ops) /\
  StronglySorted (fun a b => w_seq a <= w_seq b) (concat (wal_files (run c ops))).
Proof. exact EngineProofs.C08_log_order. Qed.
Print Assumptions C08_log_order.

Theorem C08_overflow_rejects : forall s,
  MaxSeq <= wal_next s ->
  (forall k v, put s k v = (s, WrOverflow)) /\
  (forall k, del s k = (s, WrOverflow)) /\
  (forall ops, ops <> [] -> apply_batch s ops = (s, WrOverflow)) /\
  (forall ops, buffer_ops ops <> [] -> tx_commit s ops = (s, WrOverflow)).
Proof. exact EngineProofs.C08_overflow_rejects. Qed.
Print Assumptions C08_overflow_rejects.

Theorem C08_lostlog_refuted : exists c ops,
  lost_log (run c ops) = true /\
  ack_seqs (init c) ops = [1; 2; 1] /\
  ~ StronglySorted N.lt (ack_seqs (init c) ops).
Proof. exact EngineProofs.C08_lostlog_refuted. Qed.
Print Assumptions C08_lostlog_refuted.
