(* Props/C08.v — property theorems for C08 (sequence numbers strictly increase); each closed
   by `exact` of a lemma proved in EngineProofs.v, with Print Assumptions beneath. *)
From Coq Require Import Sorted.
From KV Require Import Bytes Spec Memtable WalCodec Engine EngineProofs.
Open Scope N_scope.

Theorem C08_monotone : forall c ops,
  lost_log (run c ops) = false -> StronglySorted N.lt (ack_seqs (init c) ops).
Proof. exact EngineProofs.C08_monotone. Qed.
Print Assumptions C08_monotone.

Theorem C08_reported_monotone :
  (forall c ops o, lost_log (step (run c ops) o) = false ->
     last_seq (run c ops) <= last_seq (step (run c ops) o)) /\
  (forall c ops, lost_log (run c ops) = false ->
     last_seq (run c ops) = last (ack_seqs (init c) ops) 0 /\
     last_seq (run c ops) < wal_next (run c ops)).
Proof. exact EngineProofs.C08_reported_monotone. Qed.
Print Assumptions C08_reported_monotone.

Theorem C08_log_order : forall c ops,
  lost_log (run c ops) = false ->
  concat (wal_files (run c ops)) = log_of (ack_seqs (init c) ops) (acked (init c) ops) /\
  StronglySorted N.lt (ack_seqs (init c) ops) /\
  StronglySorted (fun a b => w_seq a <= w_seq b) (concat (wal_files (run c ops))).
Proof. exact EngineProofs.C08_log_order. Qed.
Print Assumptions C08_log_order.

Theorem C08_overflow_rejects : forall s,
  MaxSeq <= wal_next s ->
  (forall k v, put s k v = (s, WrOverflow)) /\
  (forall k, del s k = (s, WrOverflow)) /\
  (forall ops, ops <> [] -> apply_batch s ops = (s, WrOverflow)) /\
  (forall ops, buffer_ops ops <> [] -> tx_commit s ops = (s, WrOverflow)).
Proof. exact EngineProofs.C08_overflow_rejects. Qed.
Print Assumptions C08_overflow_rejects.

Theorem C08_lostlog_refuted : exists c ops,
  lost_log (run c ops) = true /\
  ack_seqs (init c) ops = [1; 2; 1] /\
  ~ StronglySorted N.lt (ack_seqs (init c) ops).
Proof. exact EngineProofs.C08_lostlog_refuted. Qed.
Print Assumptions C08_lostlog_refuted.

(* ---- writes that carry merge operands (Engine.mixed_batch / merge_batch, EngineMerge.v) ---- *)
From KV Require Import EngineMerge.

(* a merge-only batch on a state with room: acknowledged with the next number of the log, both
   counters move to it, its entries go to the log, no read changes *)
Theorem C08_merge_batch_ok : forall s es,
  es <> [] -> wal_next s < MaxSeq ->
  let s' := fst (merge_batch s es) in
  snd (merge_batch s es) = WrOk (wal_next s) /\
  wal_next s' = wal_next s + 1 /\
  last_seq s' = wal_next s /\
  concat (wal_files s') = concat (wal_files s) ++ map (merge_entry (wal_next s)) es /\
  lost_log s' = lost_log s /\
  (forall k, get s' k = get s k).
Proof. exact EngineMerge.merge_batch_ok. Qed.
Print Assumptions C08_merge_batch_ok.

Theorem C08_merge_raises : forall s es,
  reachable_m s -> es <> [] -> wal_next s < MaxSeq ->
  last_seq s < last_seq (fst (merge_batch s es)) /\
  wal_next s < wal_next (fst (merge_batch s es)).
Proof. exact EngineMerge.C08m_merge_raises. Qed.
Print Assumptions C08_merge_raises.

(* a batch without merge entries is the batch of the theorems above *)
Theorem C08_mixed_batch_plain : forall s ops,
  mixed_batch s (map eop_of_bop ops) = apply_batch s ops.
Proof. exact EngineMerge.mixed_batch_plain. Qed.
Print Assumptions C08_mixed_batch_plain.

(* programs over the old operations and ApplyBatch with entries of any type, in any interleaving *)
Theorem C08_monotone_m : forall c xs,
  lost_log (run_m c xs) = false -> StronglySorted N.lt (ack_seqs_m (init c) xs).
Proof. exact EngineMerge.C08m_monotone. Qed.
Print Assumptions C08_monotone_m.

Theorem C08_reported_monotone_m :
  (forall c xs x, lost_log (xstep (run_m c xs) x) = false ->
     last_seq (run_m c xs) <= last_seq (xstep (run_m c xs) x)) /\
  (forall c xs, lost_log (run_m c xs) = false ->
     last_seq (run_m c xs) = last (ack_seqs_m (init c) xs) 0 /\
     last_seq (run_m c xs) < wal_next (run_m c xs)).
Proof. exact EngineMerge.C08m_reported_monotone. Qed.
Print Assumptions C08_reported_monotone_m.

Theorem C08_log_order_m : forall c xs,
  StronglySorted wseq_le (concat (wal_files (run_m c xs))) /\
  Forall (fun e => w_seq e < wal_next (run_m c xs)) (concat (wal_files (run_m c xs))) /\
  last_seq (run_m c xs) = log_max (concat (wal_files (run_m c xs))).
Proof. exact EngineMerge.C08m_log_order. Qed.
Print Assumptions C08_log_order_m.

Theorem C08_reopen_restores_m : forall s,
  reachable_m s -> lost_log (reopen s) = false ->
  wal_next (reopen s) = wal_next s /\ last_seq (reopen s) = last_seq s.
Proof. exact EngineMerge.C08m_reopen_restores. Qed.
Print Assumptions C08_reopen_restores_m.

(* a merge-only batch as the LAST write before a close and reopen: its number is the reported
   last sequence after the reopen, and the next write gets the number above it *)
Theorem C08_merge_survives_reopen : forall s es,
  reachable_m s -> es <> [] -> wal_next s < MaxSeq ->
  let s' := fst (merge_batch s es) in
  lost_log (reopen s') = false ->
  snd (merge_batch s es) = WrOk (wal_next s) /\
  last_seq (reopen s') = wal_next s /\
  wal_next (reopen s') = wal_next s + 1 /\
  (forall k v, snd (put (reopen s') k v) = WrOk (wal_next s + 1) \/
               snd (put (reopen s') k v) = WrOverflow).
Proof. exact EngineMerge.C08m_merge_survives_reopen. Qed.
Print Assumptions C08_merge_survives_reopen.

(* the number of a write is never handed out again *)
Theorem C08_not_reused_m : forall c xs x ys q,
  lost_log (run_m c (xs ++ x :: ys)) = false ->
  xseq1 (run_m c xs) x = [q] ->
  Forall (fun q' => q' < q) (ack_seqs_m (init c) xs) /\
  Forall (fun q' => q < q') (ack_seqs_m (xstep (run_m c xs) x) ys).
Proof. exact EngineMerge.C08m_not_reused. Qed.
Print Assumptions C08_not_reused_m.

(* non-vacuity: put a; put b; ApplyBatch [merge; merge]; close; reopen; put c *)
Example C08_merge_scenario :
  ack_seqs_m (init C08m_example.c0) C08m_example.prog = [1; 2; 3; 4] /\
  last_trace (init C08m_example.c0) C08m_example.prog = [1; 2; 3; 3; 4] /\
  lost_log (run_m C08m_example.c0 C08m_example.prog) = false.
Proof. vm_compute. repeat split; reflexivity. Qed.

From Coq Require Import String List NArith.
From KV Require RetentionFactsOk.
From KV.gen Require RetentionFacts.
Import ListNotations.

(* log retention (a replication primary retires closed log files once every replica has
   acknowledged them): the rule the model uses is the one the code spells (regenerated from
   pkg/wal/retention.go on every run), and under it a file whose highest number is not below the
   acknowledged one is kept - the highest number handed out stays on disk until a newer file
   holds an entry, so the counter does not fall back over a restart *)
Theorem C08_retention_keeps_highest_number :
  RetentionFacts.retention_delete_tests = [("fi.MaxSeq", "<", "config.MinSequenceKeep")]%string /\
  (forall acked f, (acked <= Engine.file_max f)%N -> Engine.retention_keeps acked f = true).
Proof. exact (conj RetentionFactsOk.retention_rule_is_the_codes RetentionFactsOk.retention_keeps_above). Qed.
Print Assumptions C08_retention_keeps_highest_number.
