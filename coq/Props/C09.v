(* Props/C09.v — property theorems for C09 only; each closed by `exact` of a lemma proved
   elsewhere, with Print Assumptions beneath. *)
From KV Require Import Bytes BytesProofs WalCodec.
Open Scope N_scope.

Theorem C09_le_roundtrip : forall n x, x < 256 ^ N.of_nat n -> unle (le n x) = x.
Proof. exact unle_le. Qed.
Print Assumptions C09_le_roundtrip.
