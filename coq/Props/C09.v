(* Props/C09.v — property theorems for C09 only; each closed by `exact` of a lemma proved
   elsewhere, with Print Assumptions beneath. *)
From KV Require Import Bytes BytesProofs WalCodec WalCodecProofs.
Open Scope N_scope.

Theorem C09_le_roundtrip : forall n x, x < 256 ^ N.of_nat n -> unle (le n x) = x.
Proof. exact unle_le. Qed.
Print Assumptions C09_le_roundtrip.

Theorem C09_parse_payload : forall e,
  wf_entry e = true -> parse_entry (payload e) = Some (canon e).
Proof. exact parse_payload. Qed.
Print Assumptions C09_parse_payload.

Theorem C09_read_record_phys : forall ty d rest,
  1 <= ty <= 4 -> len d <= 65535 ->
  read_record (phys ty d ++ rest) = RecOk ty d rest.
Proof. exact read_record_phys. Qed.
Print Assumptions C09_read_record_phys.

Theorem C09_read_entry_encode : forall e rest fuel,
  wf_entry e = true -> (length (encode_entry e) <= fuel)%nat ->
  read_entry fuel (encode_entry e ++ rest) [] = EntOk (canon e) rest [].
Proof. exact read_entry_encode. Qed.
Print Assumptions C09_read_entry_encode.

Theorem C09_roundtrip : forall es,
  forallb wf_entry es = true -> replay_file (encode_log es) = (map canon es, Clean).
Proof. exact WalCodecProofs.C09_roundtrip. Qed.
Print Assumptions C09_roundtrip.

Theorem C09_dir : forall ess,
  forallb (forallb wf_entry) ess = true ->
  replay_dir (map encode_log ess) = map canon (concat ess).
Proof. exact WalCodecProofs.C09_dir. Qed.
Print Assumptions C09_dir.

Theorem C09_from : forall s ess,
  forallb (forallb wf_entry) ess = true ->
  entries_from s (map encode_log ess) = filter (fun e => s <=? w_seq e) (map canon (concat ess)).
Proof. exact WalCodecProofs.C09_from. Qed.
Print Assumptions C09_from.

Theorem C09_writer : forall ops s0 w0,
  w0 = mkWal s0 [[]] -> forallb wop_wf ops = true ->
  replay_dir (wl_files (fold_left wal_step ops w0)) = map canon (run_logged w0 ops).
Proof. exact WalCodecProofs.C09_writer. Qed.
Print Assumptions C09_writer.

(* C08, proved with the writer model: see the remark on empty batches in WalCodecProofs.v *)
Theorem C09_wal_monotone : forall ops w,
  forallb no_explicit_seq ops = true ->
  sorted_by N.lt (run_assigned w ops) /\
  sorted_by N.le (run_rets w ops) /\
  (forall pre post, ops = pre ++ post ->
     wl_next w <= wl_next (fold_left wal_step pre w) /\
     wl_next (fold_left wal_step pre w) <= wl_next (fold_left wal_step ops w)).
Proof. exact C08_wal_monotone. Qed.
Print Assumptions C09_wal_monotone.

Theorem C09_wal_strict : forall ops w,
  forallb no_explicit_seq ops = true ->
  forallb (fun o => negb (is_empty_batch o)) ops = true ->
  sorted_by N.lt (run_rets w ops).
Proof. exact C08_wal_strict. Qed.
Print Assumptions C09_wal_strict.

Theorem C09_batch_error_no_effect : forall w ops w' r,
  wal_append_batch w ops = (w', r) -> (forall s, r <> WOk s) -> w' = w.
Proof. exact WalCodecProofs.C09_batch_error_no_effect. Qed.
Print Assumptions C09_batch_error_no_effect.
