(* C15 — replicas cannot stall or fail the primary.
   (1) static: table lemmas over the call graph generated from the source on every run
       (gen/Blocking.v by gofacts/blocking.go; checks in BlockView.v);
   (2) protocol: client-operation progress and session eviction in the session model
       (ReplSession.v);
   the stall itself is exhibited by the dynamic probes of harness/c15.go, whose observed call
   chains are checked against the same generated table (BlockView.known_blocked_path /
   known_inversion). *)
From Coq Require Import List NArith Bool String.
From KV.gen Require Import Blocking.
From KV Require Import BlockView ReplSession ReplSessionProofs.
Import ListNotations.
Open Scope N_scope.

(* C15_no_blocking_under_lock_statement: the property of the table at full strength *)
Definition C15_no_blocking_under_lock_statement : Prop := no_blocking_under_lock = true.

(* it is FALSE on the current tree (D19): the client write path reaches Stream.Send under the
   storage write lock, the WAL mutex and the session mutex; the witness is the exact call path *)
Theorem C15_refuted :
  no_blocking_under_lock = false /\
  exists s, In s blocking_sites /\ bs_root s = "storage.Manager.Put"%string /\
    bs_kind s = "grpc_stream"%string /\ bs_path s = d19_path /\
    In "storage.Manager.mu:W"%string (bs_held s) /\ In "wal.WAL.mu:W"%string (bs_held s) /\
    In "replication.ReplicaSession.mu:W"%string (bs_held s).
Proof. exact blocking_under_lock_refuted. Qed.
Print Assumptions C15_refuted.

(* everything else: no other peer-blocking operation is reachable from a client read/write path
   while a lock is held, and every client root was found in the source *)
Theorem C15_partial : only_observer_sends = true /\ missing_roots = [].
Proof. exact (conj only_observer_sends_ok roots_found). Qed.
Print Assumptions C15_partial.

(* lock order (D19b): both directions exist between the WAL mutex and the replication locks —
   the deadlock between a client write and the catch-up fetch — and nothing else is cyclic *)
Theorem C15_lock_order_refuted :
  lock_order_acyclic lock_edges = false /\
  (exists e1 e2, In e1 lock_edges /\ In e2 lock_edges /\
     le_from e1 = "wal.WAL.mu"%string /\ le_to e1 = "replication.ReplicaSession.mu"%string /\
     le_fn e1 = "replication.Primary.sendToReplica"%string /\
     le_from e2 = "replication.ReplicaSession.mu"%string /\ le_to e2 = "wal.WAL.mu"%string /\
     le_fn e2 = "wal.WAL.GetNextSequence"%string) /\
  (exists e1 e2, In e1 lock_edges /\ In e2 lock_edges /\
     le_from e1 = "wal.WAL.mu"%string /\ le_to e1 = "replication.Primary.mu"%string /\
     le_fn e1 = "replication.Primary.OnWALSync"%string /\
     le_from e2 = "replication.Primary.mu"%string /\ le_to e2 = "wal.WAL.mu"%string /\
     le_fn e2 = "wal.WAL.GetNextSequence"%string).
Proof. exact lock_order_refuted. Qed.
Print Assumptions C15_lock_order_refuted.

Theorem C15_lock_order_partial : lock_order_acyclic_otherwise = true.
Proof. exact lock_order_otherwise_ok. Qed.
Print Assumptions C15_lock_order_partial.

(* protocol model: with asynchronous sends every client operation returns, healthy replicas
   keep being served, a stalled one is evicted by the next write *)
Theorem C15_progress : forall now ss, exists ss', client_write false now ss = Done ss'.
Proof. exact progress_async. Qed.
Print Assumptions C15_progress.

Theorem C15_progress_serves_healthy : forall now ss s,
  In s ss -> s_connected s = true -> s_reads s = true -> s_broken s = false ->
  forall ss', client_write false now ss = Done ss' ->
  In (mkS (s_id s) true true false (s_room s) now) ss'.
Proof. exact async_serves_healthy. Qed.
Print Assumptions C15_progress_serves_healthy.

Theorem C15_progress_evicts_stalled : forall now ss s,
  In s ss -> s_connected s = true -> s_reads s = false -> s_broken s = false -> s_room s = O ->
  (forall t, In t ss -> s_id t = s_id s -> t = s) ->
  forall ss', client_write false now ss = Done ss' -> ~ In (s_id s) (topology ss').
Proof. exact async_evicts_stalled. Qed.
Print Assumptions C15_progress_evicts_stalled.

(* the code as it is (synchronous send under the locks): one stalled reader blocks the write *)
Theorem C15_progress_sync_refuted : forall now ss s,
  In s ss -> s_connected s = true -> s_reads s = false -> s_broken s = false -> s_room s = O ->
  exists i, client_write true now ss = Blocked i.
Proof. exact sync_blocks. Qed.
Print Assumptions C15_progress_sync_refuted.

(* eviction: a session silent for longer than the timeout is removed by a completed check ... *)
Theorem C15_dropped : forall h now ss ss' s,
  hb_check h now ss = Done ss' -> In s ss -> s_connected s = true ->
  hb_timeout h < now - s_last s ->
  (forall t, In t ss -> s_id t = s_id s -> t = s) ->
  ~ In (s_id s) (topology ss').
Proof. exact dropped_on_timeout. Qed.
Print Assumptions C15_dropped.

(* ... but a peer that never reads is kept alive by the primary's own heartbeats and finally
   blocks the checker *)
Theorem C15_dropped_silent_refuted :
  s_reads silent_peer = false /\
  (forall n, (n <= 5)%nat ->
     match hb_rounds (mkHB 10 30) 11 n 0 [silent_peer; mkS 8 true true false 0 0] with
     | Some ss => In 7 (topology ss)
     | None => False
     end) /\
  hb_rounds (mkHB 10 30) 11 6 0 [silent_peer; mkS 8 true true false 0 0] = None.
Proof. exact silent_peer_not_dropped_refuted. Qed.
Print Assumptions C15_dropped_silent_refuted.
