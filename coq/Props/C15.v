(* C15 — replicas cannot stall or fail the primary.
   (1) static: table lemmas over the call graph and lock order generated from the source on
       every run (gen/Blocking.v by gofacts/blocking.go; checks in BlockView.v);
   (2) protocol: client-operation progress and session eviction in the session model
       (ReplSession.v, the code since 5fc1d1b: per-session send queue);
   (3) the dynamic probes of harness/c15.go exercise the real primary with misbehaving peers; a
       blocked operation's call chain is checked against the same generated table.
   The defects of the pinned tree (D19 blocking send under the write lock, D19b lock-order
   deadlock, D19c stalled peer never evicted) were repaired by c7e8cb8 and 5fc1d1b; what was
   proved about them is kept in ReplSessionProofs.BeforeFixes. *)
From Coq Require Import List NArith Bool String.
From KV.gen Require Import Blocking.
From KV Require Import BlockView ReplSession ReplSessionProofs.
From KV Require LockDiscipline ReplLocksFacts.
From KV.gen Require Locks NilChecks.
Import ListNotations.
Open Scope N_scope.

(* no call that may block on a peer is reachable from a client read/write path (Manager.Put /
   Delete / ApplyBatch / Get, WAL.Append / AppendBatch) while a lock is held, and every client
   root was found in the source *)
Theorem C15_no_blocking_under_lock : no_blocking_under_lock = true /\ missing_roots = [].
Proof. exact (conj no_blocking_under_lock_ok roots_found). Qed.
Print Assumptions C15_no_blocking_under_lock.

(* the lock order over storage, WAL and replication locks has no cycle, and no lock is acquired
   while another instance of the same (type, field) lock is held *)
Theorem C15_lock_order_acyclic :
  lock_order_acyclic lock_edges = true /\ self_nestings lock_edges = [].
Proof. exact (conj lock_order_ok self_nestings_none). Qed.
Print Assumptions C15_lock_order_acyclic.

(* protocol model: every client operation returns whatever the replicas do ... *)
Theorem C15_progress : forall now ss, exists ss', client_write false now ss = Done ss'.
Proof. exact progress_async. Qed.
Print Assumptions C15_progress.

(* ... healthy replicas keep being served ... *)
Theorem C15_progress_serves_healthy : forall now ss s,
  In s ss -> s_connected s = true -> s_reads s = true -> s_broken s = false ->
  forall ss', client_write false now ss = Done ss' ->
  In (mkS (s_id s) true true false (s_room s) now 0) ss'.
Proof. exact async_serves_healthy. Qed.
Print Assumptions C15_progress_serves_healthy.

(* ... a stalled one is evicted when its queue is full ... *)
Theorem C15_progress_evicts_stalled : forall now ss s,
  In s ss -> stalled s -> s_queued s = QueueLen ->
  (forall t, In t ss -> s_id t = s_id s -> t = s) ->
  forall ss', client_write false now ss = Done ss' -> ~ In (s_id s) (topology ss').
Proof. exact async_evicts_stalled. Qed.
Print Assumptions C15_progress_evicts_stalled.

(* ... and a session silent for longer than the timeout is removed from the reported topology
   by the next heartbeat check, which never waits *)
Theorem C15_dropped : forall h now ss s,
  In s ss -> s_connected s = true -> hb_timeout h < now - s_last s ->
  (forall t, In t ss -> s_id t = s_id s -> t = s) ->
  ~ In (s_id s) (topology (hb_check_async h now ss)).
Proof. exact dropped_on_timeout. Qed.
Print Assumptions C15_dropped.

(* a stalled peer's activity time is not refreshed by what the primary queues for it, so it does
   reach the timeout (the pinned tree kept it alive with its own heartbeats) *)
Theorem C15_stalled_not_refreshed : forall now s s', stalled s -> enqueue now s = Some s' ->
  stalled s' /\ s_last s' = s_last s /\ s_queued s' = S (s_queued s) /\ s_id s' = s_id s.
Proof. exact stalled_enqueue. Qed.
Print Assumptions C15_stalled_not_refreshed.

Theorem C15_silent_peer_dropped :
  stalled silent_peer /\
  topology (hb_rounds_async (mkHB 10 30) 11 2 0 [silent_peer; mkS 8 true true false 0 0 0]) = [7; 8] /\
  topology (hb_rounds_async (mkHB 10 30) 11 3 0 [silent_peer; mkS 8 true true false 0 0 0]) = [8] /\
  forall n, (3 <= n <= 12)%nat ->
    topology (hb_rounds_async (mkHB 10 30) 11 n 0 [silent_peer; mkS 8 true true false 0 0 0]) = [8].
Proof. exact silent_peer_dropped. Qed.
Print Assumptions C15_silent_peer_dropped.

(* the state the primary shares between a client's write path and what replicas drive (session
   map, batcher, WAL pointer, session objects) is accessed under a common lock, writes
   exclusively — on the lock table regenerated from pkg/replication on every run
   (gen/Locks.v; the locations in Locks.gen_findings are genuine exceptions, reported, not
   covered by this statement); the session map in particular under Primary.mu *)
Theorem C15_replication_state_protected :
  LockDiscipline.protectedb ReplLocksFacts.repl_accesses = true /\
  forallb (LockDiscipline.guards ReplLocksFacts.primary_mu) ReplLocksFacts.sessions_rows = true.
Proof. exact (conj ReplLocksFacts.repl_fields_protected ReplLocksFacts.repl_sessions_under_primary_mu). Qed.
Print Assumptions C15_replication_state_protected.

(* ... so every conforming trace is race free on that state (no concurrent map write) ... *)
Theorem C15_replication_traces_race_free : forall tr,
  LockDiscipline.wf tr -> LockDiscipline.conforms ReplLocksFacts.repl_accesses tr -> ~ LockDiscipline.race tr.
Proof. exact ReplLocksFacts.repl_conforming_traces_race_free. Qed.
Print Assumptions C15_replication_traces_race_free.

(* ... and the lock order of the whole table, replication locks included, is acyclic with no
   replication lock nested in itself *)
Theorem C15_replication_lock_order :
  LockDiscipline.acyclicb Locks.gen_order = true /\
  existsb ReplLocksFacts.repl_self_nested Locks.gen_order = false.
Proof. exact (conj ReplLocksFacts.repl_lock_order_acyclic ReplLocksFacts.repl_no_self_nesting). Qed.
Print Assumptions C15_replication_lock_order.

(* every explicit Lock()/RLock() in pkg/replication is released exactly once on every way out:
   none of the ways out listed by the translator (a `return`/`continue`/`break` with the mutex
   still locked, an Unlock on a path that has released it already) is in pkg/replication *)
Theorem C15_replication_locks_released_exactly_once : ReplLocksFacts.repl_lock_exits = [].
Proof. exact ReplLocksFacts.repl_locks_released_exactly_once. Qed.
Print Assumptions C15_replication_locks_released_exactly_once.

(* no result of a look-up function of pkg/replication (nil = "no such session any more") is used
   before it is compared with nil: a Nack or Ack that races with the removal of its session is
   answered, it does not end the primary with a nil dereference *)
Theorem C15_replication_lookups_tested_before_use :
  ReplLocksFacts.repl_nil_unchecked = [] /\
  existsb (fun r => String.eqb (fst r) "pkg/replication" && String.eqb (snd r) "Primary.getSession")
          NilChecks.lookup_functions = true.
Proof. exact (conj ReplLocksFacts.repl_lookups_tested_before_use ReplLocksFacts.repl_lookups_nonvacuous). Qed.
Print Assumptions C15_replication_lookups_tested_before_use.
