(* C14 — a connected replica converges to the primary's state.
   Model: ReplProto.v (round-based protocol as the code behaves since cb2d442, 7f7e08d, 2996cf8,
   f62340e, 5fc1d1b); proofs: ReplProtoProofs.v.  The protocol of the pinned tree and the
   histories on which it never converged are kept in ReplProtoBefore.v (module BeforeFixes);
   each of them is a corpus case (corpus/C14/fixed-*.case). *)
From KV Require Import Bytes Spec WalCodec ReplProto ReplProtoProofs ReplProtoBefore.
Open Scope N_scope.

(* the property at full strength: every history of the primary (writes, deletes, transactions,
   flushes / log rotations) and of the replica (join before, during or after the writes, stop and
   start, link cut and healed); every delivery schedule with at most F swallowed or side-lined
   deliveries; bound in rounds; stable afterwards *)
Theorem C14_converges : forall evs cs F,
  let p := fst (run evs sys_init) in
  let r := snd (run evs sys_init) in
  connected r ->
  (bads cs <= F)%nat ->
  (2 * N.to_nat (p_next p - r_exp r) + 3 + F <= length cs)%nat ->
  views_agree p (ticks cs p r) = true /\
  forall cs', ticks cs' p (ticks cs p r) = ticks cs p r.
Proof. exact converges. Qed.
Print Assumptions C14_converges.

Theorem C14_converges_statement : converges_statement.
Proof. exact converges_statement_holds. Qed.
Print Assumptions C14_converges_statement.

(* the four former witnesses of non-convergence settle under the repaired protocol *)
Theorem C14_former_witnesses_converge :
  settled w_rotation = true /\ settled w_join_after_rotation = true /\
  settled w_last_write = true /\ settled w_tx_cut = true.
Proof. exact former_witnesses_converge. Qed.
Print Assumptions C14_former_witnesses_converge.

(* regression notes: what was proved about the pinned tree *)
Theorem C14_before_rotation_refuted :
  let p := fst (BeforeFixes.run BeforeFixes.w_rotation BeforeFixes.sys_init) in
  let r := snd (BeforeFixes.run BeforeFixes.w_rotation BeforeFixes.sys_init) in
  BeforeFixes.connected r /\ forall cs, BeforeFixes.views_agree p (BeforeFixes.ticks cs p r) = false.
Proof. exact BeforeFixes.rotation_refuted. Qed.
Print Assumptions C14_before_rotation_refuted.

Theorem C14_before_last_write_refuted :
  let p := fst (BeforeFixes.run BeforeFixes.w_last_write BeforeFixes.sys_init) in
  let r := snd (BeforeFixes.run BeforeFixes.w_last_write BeforeFixes.sys_init) in
  BeforeFixes.connected r /\ forall cs, BeforeFixes.views_agree p (BeforeFixes.ticks cs p r) = false.
Proof. exact BeforeFixes.last_write_refuted. Qed.
Print Assumptions C14_before_last_write_refuted.
