(* C14 — a connected replica converges to the primary's state *)
From KV Require Import Bytes Spec WalCodec ReplProto ReplProtoProofs.
Open Scope N_scope.
