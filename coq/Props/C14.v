(* C14 — a connected replica converges to the primary's state.
   Model: ReplProto.v (round-based protocol as the code behaves); proofs: ReplProtoProofs.v.
   The statement at full strength (converges_statement: every history, every running replica
   with the link up, every fair schedule) is FALSE of the faithful model; what is proved is the
   guarded theorem C14_converges_partial (guards: no log rotation on the primary; the last write is
   not the one numbered like the session start) and one witness per class of non-convergent histories
   (each replayed against the real code: corpus/C14/kf-*.case). *)
From KV Require Import Bytes Spec WalCodec ReplProto ReplProtoProofs.
Open Scope N_scope.

Theorem C14_converges_partial : forall evs cs F,
  Forall noflush evs ->
  let p := fst (run evs sys_init) in
  let r := snd (run evs sys_init) in
  r_mode r <> RDown -> r_link r = true -> ~ last_write_unsent p r ->
  (bads cs <= F)%nat ->
  (2 * N.to_nat (p_next p - r_exp r) + 3 + F <= length cs)%nat ->
  views_agree p (ticks cs p r) = true /\
  forall cs', ticks cs' p (ticks cs p r) = ticks cs p r.
Proof. exact converges_partial. Qed.
Print Assumptions C14_converges_partial.

Theorem C14_rotation_refuted :
  let p := fst (run w_rotation sys_init) in
  let r := snd (run w_rotation sys_init) in
  connected r /\ ~ last_write_unsent p r /\
  forall cs, views_agree p (ticks cs p r) = false.
Proof. exact rotation_refuted. Qed.
Print Assumptions C14_rotation_refuted.

Theorem C14_join_after_rotation_refuted :
  let p := fst (run w_join_after_rotation sys_init) in
  let r := snd (run w_join_after_rotation sys_init) in
  connected r /\ forall cs, views_agree p (ticks cs p r) = false.
Proof. exact join_after_rotation_refuted. Qed.
Print Assumptions C14_join_after_rotation_refuted.

Theorem C14_last_write_refuted :
  let p := fst (run w_last_write sys_init) in
  let r := snd (run w_last_write sys_init) in
  connected r /\ Forall noflush w_last_write /\
  last_write_unsent p r /\ forall cs, views_agree p (ticks cs p r) = false.
Proof. exact last_write_refuted. Qed.
Print Assumptions C14_last_write_refuted.

(* D18e (a transaction cut by the 100-entry response limit) was repaired by f62340e; the former
   witness now converges (regression example tx_cut_now_converges in ReplProtoProofs.v,
   corpus/C14/fixed-tx-*.case) *)
Theorem C14_tx_cut_fixed :
  let p := fst (run w_tx_cut sys_init) in
  let r := snd (run w_tx_cut sys_init) in
  connected r /\ Forall noflush w_tx_cut /\ ~ last_write_unsent p r /\
  view_get (r_store r) [200] = Some [1] /\ view_get (r_store r) [201] = Some [2] /\
  views_agree p r = true.
Proof. exact tx_cut_now_converges. Qed.
Print Assumptions C14_tx_cut_fixed.

Theorem C14_converges_statement_refuted : ~ converges_statement.
Proof. exact converges_statement_refuted. Qed.
Print Assumptions C14_converges_statement_refuted.
