(* Props/C16.v — a replica refuses client writes but keeps applying replicated ones.
   Property theorems only; each closed by `exact` of a lemma of ReadOnlyProofs.v. *)
From Coq Require Import List NArith Bool String.
From KV.gen Require ApplierFacts.
From KV Require Import Bytes Engine ReadOnly ReadOnlyProofs.
From KV.gen Require Import Api.
Import ListNotations.
Open Scope N_scope.
Open Scope list_scope.

(* (1) the fact table generated from the Go source on this run *)
Theorem C16_guarded : forall m, In m api_table -> is_facade m = true -> mutates m = true ->
  a_internal m = true \/ a_guarded m = true.
Proof. exact guarded_table. Qed.
Print Assumptions C16_guarded.

Theorem C16_service_routes : forall m, In m api_table -> is_facade m = false ->
  a_leaks m = false /\ forall c, In c (a_engine_calls m) -> safe_engine_method c = true.
Proof. exact service_routes. Qed.
Print Assumptions C16_service_routes.

Theorem C16_iface_safe : forall m, In m api_table -> is_facade m = true -> a_iface m = true ->
  a_leaks m = false /\ a_setsflag m = false /\ a_internal m = false.
Proof. exact iface_safe. Qed.
Print Assumptions C16_iface_safe.

Theorem C16_reflective_safe : forall c, In c registry_reflective_calls -> safe_engine_method c = true.
Proof. exact reflective_safe. Qed.
Print Assumptions C16_reflective_safe.

Theorem C16_internal_only_replication : forall p, In p internal_callers -> fst p = "pkg/replication"%string.
Proof. exact internal_only_replication. Qed.
Print Assumptions C16_internal_only_replication.

Theorem C16_applier_paths : 
  forallb assertion_ok ApplierFacts.applier_assertions = true /\
  In ("applyInReadOnlyMode"%string, "PutInternal"%string, true) ApplierFacts.applier_assertions /\
  In ("applyInReadOnlyMode"%string, "DeleteInternal"%string, true) ApplierFacts.applier_assertions.
Proof. exact applier_paths_satisfied. Qed.
Print Assumptions C16_applier_paths.

Theorem C16_leaks_known : incl leak_names ["GetWAL"%string].
Proof. exact leaks_known. Qed.
Print Assumptions C16_leaks_known.

(* (2) behaviour *)
Theorem C16_ro_step : forall n a, ro_inv n -> safe_act a = true ->
  let x := step_act n a in
  ro_inv (fst x) /\
  match a with
  | AClient c => eng (fst x) = maint c (eng n) /\ (must_reject n c = true -> ro_class (snd x) = true)
  | ARepl r => (eng (fst x), snd x) = apply_eng (eng n) r
  | ASetRO _ => eng (fst x) = eng n
  end.
Proof. exact ro_step. Qed.
Print Assumptions C16_ro_step.

(* safe_act excludes only an unknown unguarded mutator and SetReadOnly(false); in particular
   every client call the model has a constructor for, and every applied entry, is safe *)
Theorem C16_safe_acts : forall a, safe_act a = false ->
  a = AClient (CGeneric true false) \/ a = ASetRO false.
Proof. exact safe_act_exceptions. Qed.
Print Assumptions C16_safe_acts.

(* every interleaving of client calls with replication apply: the data is exactly what the
   applied entries make it (repl_only also lists one flush per Compact(force): maintenance, not
   a data change), every mutation attempt got a read-only error *)
Theorem C16_ro_trace : forall l n, ro_inv n -> forallb safe_act l = true ->
  let x := run_acts n l in
  ro_inv (fst x) /\ eng (fst x) = run_repl (eng n) (repl_only l) /\ all_rejected n l.
Proof. exact ro_trace. Qed.
Print Assumptions C16_ro_trace.

Theorem C16_apply : forall n r,
  step_repl n r = (set_eng n (fst (apply_eng (eng n) r)), snd (apply_eng (eng n) r)).
Proof. exact apply_takes_effect. Qed.
Print Assumptions C16_apply.

Theorem C16_apply_expand : forall n r b,
  expand b r = [ARepl r] /\ fst (run_acts n (expand b r)) = fst (step_repl n r).
Proof. exact expand_uninterrupted. Qed.
Print Assumptions C16_apply_expand.

Theorem C16_merge_no_effect : forall n k v, step_repl n (RMergeE k v) = (n, ROk).
Proof. exact merge_no_effect. Qed.
Print Assumptions C16_merge_no_effect.

Theorem C16_reads : forall n k univ,
  node_get n k = get (eng n) k /\ node_scan n univ = node_scan (set_ro n (negb (ro n))) univ.
Proof. exact reads_unaffected. Qed.
Print Assumptions C16_reads.

Theorem C16_node_info : forall n, has_mgr (rc n) = true ->
  i_role (node_info n) = mode (rc n) /\
  i_ro (node_info n) = ro n /\
  (mode (rc n) = RReplica -> i_paddr (node_info n) = primary_addr (rc n)) /\
  (mode (rc n) = RStandalone -> i_paddr (node_info n) = []).
Proof. exact node_info_truthful. Qed.
Print Assumptions C16_node_info.

Theorem C16_node_info_behaviour : forall n k v, has_mgr (rc n) = true ->
  (i_ro (node_info n) = true <-> snd (step_client n (CPut k v)) = RRoErr).
Proof. exact node_info_matches_behaviour. Qed.
Print Assumptions C16_node_info_behaviour.

Theorem C16_replica_start : forall c e, mode c = RReplica -> enabled c = true -> force_ro c = true ->
  ro_inv (start c e) /\ (has_mgr c = true -> node_info (start c e) = mkInfo RReplica (primary_addr c) true).
Proof. exact replica_start. Qed.
Print Assumptions C16_replica_start.

(* The two defects this check found (F1 accessor leak, F2 Merge-apply window) are repaired in
   /repo (b9d5905, 574c666); their witnesses are kept as regression documentation in
   ReadOnlyProofs.BeforeFixes, and corpus/C16/leak-txmanager.case, race-merge.case replay them. *)
