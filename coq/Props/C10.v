(* Props/C10.v — property theorems for C10 only; each closed by `exact` of a lemma proved
   elsewhere, with Print Assumptions beneath. *)
From KV Require Import Bytes BytesProofs WalCodec WalCodecProofs.
Open Scope N_scope.

Theorem C10_truncate : forall es n,
  forallb wf_entry es = true ->
  exists m,
    fst (replay_file (firstn n (encode_log es))) = map canon (firstn m es) /\
    (snd (replay_file (firstn n (encode_log es))) = Clean \/
     snd (replay_file (firstn n (encode_log es))) = TornTail) /\
    m = whole_within es n.
Proof. exact WalCodecProofs.C10_truncate. Qed.
Print Assumptions C10_truncate.

Theorem C10_truncate_exact : forall es n,
  forallb wf_entry es = true ->
  replay_file (firstn n (encode_log es)) =
    (map canon (firstn (whole_within es n) es), trunc_status es n).
Proof. exact WalCodecProofs.C10_truncate_exact. Qed.
Print Assumptions C10_truncate_exact.
