(* Props/C10.v — property theorems for C10 only; each closed by `exact` of a lemma proved
   elsewhere, with Print Assumptions beneath. *)
From KV Require Import Bytes BytesProofs WalCodec WalCodecProofs WalReuse WalReuseGen.
Open Scope N_scope.

Theorem C10_truncate : forall es n,
  forallb wf_entry es = true ->
  exists m,
    fst (replay_file (firstn n (encode_log es))) = map canon (firstn m es) /\
    (snd (replay_file (firstn n (encode_log es))) = Clean \/
     snd (replay_file (firstn n (encode_log es))) = TornTail) /\
    m = whole_within es n.
Proof. exact WalCodecProofs.C10_truncate. Qed.
Print Assumptions C10_truncate.

Theorem C10_truncate_exact : forall es n,
  forallb wf_entry es = true ->
  replay_file (firstn n (encode_log es)) =
    (map canon (firstn (whole_within es n) es), trunc_status es n).
Proof. exact WalCodecProofs.C10_truncate_exact. Qed.
Print Assumptions C10_truncate_exact.

(* the instrumented reader used by crc_accepted_over reads exactly what replay_file reads *)
Theorem C10_instrumented_faithful : forall bs, fst (replay_file_i bs) = replay_file bs.
Proof. exact replay_file_i_fst. Qed.
Print Assumptions C10_instrumented_faithful.

Theorem C10_corrupt : forall es i b,
  forallb wf_entry es = true ->
  (i < length (encode_log es))%nat -> b <> nth i (encode_log es) 0 ->
  let L' := set_nth i b (encode_log es) in
  let out := fst (replay_file L') in
  is_prefix (map canon (firstn (whole_within es i) es)) out /\
  (is_prefix out (map canon es) \/ crc_accepted_over L' i).
Proof. exact WalCodecProofs.C10_corrupt. Qed.
Print Assumptions C10_corrupt.

(* last sentence of C10: writes acknowledged after such a recovery are themselves recoverable.
   [reuse_append] is wal.ReuseWAL's decision (append behind a clean newest file, otherwise a
   new file); older files [pre] are arbitrary bytes and are never altered or discarded *)
Theorem C10_cut_then_writes : forall pre es n es',
  forallb wf_entry es = true -> forallb wf_entry es' = true ->
  let damaged := firstn n (encode_log es) in
  let files' := reuse_append (pre ++ [damaged]) (encode_log es') in
  replay_dir files' =
    replay_dir pre ++ map canon (firstn (whole_within es n) es) ++ map canon es' /\
  replay_dir files' = replay_dir (pre ++ [damaged]) ++ map canon es' /\
  firstn (length pre) files' = pre /\
  snd (replay_file (last files' [])) = Clean.
Proof. exact WalReuse.C10_cut_then_writes. Qed.
Print Assumptions C10_cut_then_writes.

(* the same for ANY newest file whose replay does not end cleanly (flipped bytes, garbage) *)
Theorem C10_damage_then_writes : forall pre L es',
  snd (replay_file L) <> Clean -> forallb wf_entry es' = true ->
  let files' := reuse_append (pre ++ [L]) (encode_log es') in
  replay_dir files' = replay_dir (pre ++ [L]) ++ map canon es' /\
  firstn (length (pre ++ [L])) files' = pre ++ [L] /\
  snd (replay_file (last files' [])) = Clean.
Proof. exact WalReuse.C10_damage_then_writes. Qed.
Print Assumptions C10_damage_then_writes.

(* ... and for EVERY newest file whatsoever (cut, altered bytes whether or not the reader
   notices them, garbage): no hypothesis on [L] or [pre] is left *)
Theorem C10_any_damage_then_writes : forall pre L es',
  forallb wf_entry es' = true ->
  let files' := reuse_append (pre ++ [L]) (encode_log es') in
  replay_dir files' = replay_dir (pre ++ [L]) ++ map canon es' /\
  firstn (length pre) files' = pre /\
  snd (replay_file (last files' [])) = Clean.
Proof. exact WalReuseGen.C10_any_damage_then_writes. Qed.
Print Assumptions C10_any_damage_then_writes.

(* appending behind a file that replays cleanly extends the replay and nothing else *)
Theorem C10_clean_then_writes : forall L es',
  snd (replay_file L) = Clean -> forallb wf_entry es' = true ->
  replay_file (L ++ encode_log es') = (fst (replay_file L) ++ map canon es', Clean).
Proof.
  intros L es' Hc Hes. apply WalReuseGen.C10_clean_then_writes_ok;
    [exact Hc | apply forallb_wf_enc_ok; exact Hes].
Qed.
Print Assumptions C10_clean_then_writes.

(* cycles of fault / recovery / writes: [dmg] is ANY function on the bytes of the newest file
   (the fault), [cs] any number of earlier cycles; the writes acknowledged after a recovery are
   delivered by the next one, behind exactly what that recovery delivered *)
Theorem C10_cycles : forall cs files dmg es',
  files <> [] -> forallb wf_entry es' = true ->
  let files' := fold_left cycle cs files in
  replay_dir (cycle files' (dmg, es')) =
    replay_dir (damage_newest dmg files') ++ map canon es'.
Proof. exact WalReuseGen.C10_cycles_ok. Qed.
Print Assumptions C10_cycles.
