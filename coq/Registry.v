(* Registry.v — executable model of the transaction life cycle of kevo (property C17):
   pkg/transaction/manager.go (one sync.RWMutex for all transactions), transaction.go (active
   flag, lock released exactly once by Commit/Rollback), registry.go (Begin with a creating
   goroutine, a deadline and the abandoned hand-off; Get/Remove; CleanupStaleTransactions by
   lifetime and idle time; CleanupConnection; GracefulShutdown) and the transaction RPCs of
   pkg/grpc/service/service.go, over a LOGICAL clock (milliseconds).

   The lock is Go's sync.RWMutex as the code uses it: a writer that has announced itself (head
   of the writer queue) keeps new readers out; when the active writer unlocks, every reader that
   queued behind it enters, then the next writer announces itself; waiters cannot leave the
   queue (a Begin whose caller gave up stays queued as a "zombie" and rolls itself back when it
   finally gets the lock — registry.go, `abandoned`).

   One event = one critical section sequence of the code that the other events cannot
   interleave with observably (every grant of the lock happens inside the event that released
   it; the goroutines woken by a release run to their next blocking point: `settle`).
   Model only; the theorems are in RegistryProofs.v. *)
From Coq Require Import NArith List Bool.
From KV.gen Require Import RegFacts.
Import ListNotations.
Open Scope N_scope.

(* ---------- configuration ---------- *)

Record config := mkConfig {
  c_idle : N;        (* RegistryImpl.idleTxTTL *)
  c_ttl_ro : N;      (* Manager.readOnlyTxTTL  (TransactionImpl.ttl of a read-only transaction) *)
  c_ttl_rw : N;      (* Manager.readWriteTxTTL *)
  c_btimeout : N;    (* the 10 s of RegistryImpl.Begin *)
  c_svc : bool;      (* clients call the gRPC service (true) or the registry + transaction objects *)
  c_peer : bool      (* the context carries a per-client "peer" value (else every transaction is
                        tracked under the connection "unknown" = 0) *)
}.

(* the limits the binary ships with (read off the source on every run: gen/RegFacts.v) *)
Definition shipped_config (svc peer : bool) : config :=
  mkConfig registry_default_idle_ms manager_ro_ttl_ms manager_rw_ttl_ms registry_begin_timeout_ms svc peer.

(* ---------- the reader-writer lock ---------- *)

Record lock := mkLock {
  l_wq : list N;     (* writers in arrival order; the head has announced itself *)
  l_wact : bool;     (* the head of l_wq holds the lock *)
  l_rd : list N;     (* read holders *)
  l_rq : list N      (* readers waiting behind the announced writer *)
}.

Definition lock0 : lock := mkLock [] false [] [].

Definition mem (b : N) (l : list N) : bool := existsb (N.eqb b) l.
Definition rem (b : N) (l : list N) : list N := filter (fun x => negb (N.eqb x b)) l.
Definition is_nil {A} (l : list A) : bool := match l with [] => true | _ => false end.

(* RWMutex.Lock *)
Definition acquire_w (b : N) (l : lock) : lock :=
  match l_wq l with
  | [] => mkLock [b] (is_nil (l_rd l)) (l_rd l) (l_rq l)
  | _ => mkLock (l_wq l ++ [b]) (l_wact l) (l_rd l) (l_rq l)
  end.

(* RWMutex.RLock *)
Definition acquire_r (b : N) (l : lock) : lock :=
  match l_wq l with
  | [] => mkLock [] (l_wact l) (l_rd l ++ [b]) (l_rq l)
  | _ => mkLock (l_wq l) (l_wact l) (l_rd l) (l_rq l ++ [b])
  end.

Definition acquire (ro : bool) (b : N) (l : lock) : lock :=
  if ro then acquire_r b l else acquire_w b l.

Definition holders (l : lock) : list N :=
  if l_wact l then firstn 1 (l_wq l) else l_rd l.

Definition lock_ids (l : lock) : list N := l_wq l ++ l_rd l ++ l_rq l.

Definition is_holder (b : N) (l : lock) : bool := mem b (holders l).

(* RWMutex.Unlock / RUnlock by the holder b (guarded in the code by hasWriteLock/hasReadLock:
   a transaction that does not hold the lock releases nothing) *)
Definition release (b : N) (l : lock) : lock :=
  if l_wact l then
    match l_wq l with
    | h :: t =>
      if N.eqb h b then
        mkLock t (negb (is_nil t) && is_nil (l_rq l)) (l_rq l) []
      else l
    | [] => l
    end
  else if mem b (l_rd l) then
    let rd' := rem b (l_rd l) in
    mkLock (l_wq l) (negb (is_nil (l_wq l)) && is_nil rd') rd' (l_rq l)
  else l.

(* ---------- state ---------- *)

(* a TransactionImpl; o_b is its identity (one per BeginTransaction call) *)
Record obj := mkObj {
  o_b : N;
  o_ro : bool;
  o_active : bool;
  o_created : N;                     (* creationTime: taken BEFORE the lock is requested *)
  o_last : N;                        (* lastActiveTime *)
  o_buf : list (N * option N)        (* write buffer: last operation per key *)
}.

(* a Begin whose creating goroutine has not handed over yet *)
Record pend := mkPend {
  p_b : N;
  p_client : N;
  p_deadline : N;
  p_aband : bool                     (* the caller stopped waiting (timeout / context) *)
}.

(* an entry of RegistryImpl.transactions (+ connectionTxs) *)
Record rent := mkRent { r_id : N; r_b : N; r_conn : N }.

Record state := mkState {
  now : N;
  lk : lock;
  objs : list obj;
  pends : list pend;
  reg : list rent;
  next_id : N;                       (* RegistryImpl.nextID *)
  next_b : N;
  handles : list (N * (N * N));      (* client -> (transaction id, object) it was last given *)
  db : list (N * N);                 (* committed data *)
  fail_next : bool;                  (* environment: the next ApplyBatch fails *)
  stopped : bool                     (* GracefulShutdown already ran (stopCleanup closed) *)
}.

Definition init : state := mkState 0 lock0 [] [] [] 0 0 [] [] false false.

Definition set_now s x := mkState x (lk s) (objs s) (pends s) (reg s) (next_id s) (next_b s) (handles s) (db s) (fail_next s) (stopped s).
Definition set_lk s x := mkState (now s) x (objs s) (pends s) (reg s) (next_id s) (next_b s) (handles s) (db s) (fail_next s) (stopped s).
Definition set_objs s x := mkState (now s) (lk s) x (pends s) (reg s) (next_id s) (next_b s) (handles s) (db s) (fail_next s) (stopped s).
Definition set_pends s x := mkState (now s) (lk s) (objs s) x (reg s) (next_id s) (next_b s) (handles s) (db s) (fail_next s) (stopped s).
Definition set_reg s x := mkState (now s) (lk s) (objs s) (pends s) x (next_id s) (next_b s) (handles s) (db s) (fail_next s) (stopped s).
Definition set_next_id s x := mkState (now s) (lk s) (objs s) (pends s) (reg s) x (next_b s) (handles s) (db s) (fail_next s) (stopped s).
Definition set_next_b s x := mkState (now s) (lk s) (objs s) (pends s) (reg s) (next_id s) x (handles s) (db s) (fail_next s) (stopped s).
Definition set_handles s x := mkState (now s) (lk s) (objs s) (pends s) (reg s) (next_id s) (next_b s) x (db s) (fail_next s) (stopped s).
Definition set_db s x := mkState (now s) (lk s) (objs s) (pends s) (reg s) (next_id s) (next_b s) (handles s) x (fail_next s) (stopped s).
Definition set_fail s x := mkState (now s) (lk s) (objs s) (pends s) (reg s) (next_id s) (next_b s) (handles s) (db s) x (stopped s).
Definition set_stopped s x := mkState (now s) (lk s) (objs s) (pends s) (reg s) (next_id s) (next_b s) (handles s) (db s) (fail_next s) x.

(* ---------- results and outputs ---------- *)

Inductive res :=
| ROk
| RWait        (* the Begin is waiting for the lock *)
| RClosed      (* ErrTransactionClosed *)
| RNotFound    (* "transaction not found" (registry/service), or key not found for a read *)
| RTimeout     (* "transaction creation timed out" *)
| RReadOnly    (* ErrReadOnlyTransaction / the service's read-only rejection *)
| RInvalid     (* the service's "invalid key size" *)
| RFail        (* Commit returned the error of ApplyBatch *)
| RNoHandle    (* the client was never given a transaction *)
| RBusy        (* the client still has a Begin in flight *)
| RPanic.      (* GracefulShutdown called twice: close of a closed channel *)

Inductive out :=
| OBegin (c : N) (r : res)              (* answer to the Begin call itself *)
| OAsync (c : N) (r : res)              (* a Begin that was waiting completes: ROk / RTimeout *)
| ORes (c : N) (r : res)                (* answer to put/delete/commit/rollback/remove *)
| OGet (c : N) (r : res) (v : option N) (* answer to a read: ROk (Some v) | ROk None = not found *)
| OMaint (r : res).                     (* cleanup / shutdown *)

(* ---------- objects ---------- *)

Definition get_obj (b : N) (s : state) : option obj := find (fun o => N.eqb (o_b o) b) (objs s).

Definition upd_obj (b : N) (f : obj -> obj) (l : list obj) : list obj :=
  map (fun o => if N.eqb (o_b o) b then f o else o) l.

Definition is_active (b : N) (s : state) : bool :=
  existsb (fun o => N.eqb (o_b o) b && o_active o) (objs s).

Definition deact (o : obj) : obj := mkObj (o_b o) (o_ro o) false (o_created o) (o_last o) (o_buf o).
Definition clear_buf (o : obj) : obj := mkObj (o_b o) (o_ro o) (o_active o) (o_created o) (o_last o) [].
Definition touch (t : N) (o : obj) : obj := mkObj (o_b o) (o_ro o) (o_active o) (o_created o) t (o_buf o).
Definition set_buf (bf : list (N * option N)) (o : obj) : obj :=
  mkObj (o_b o) (o_ro o) (o_active o) (o_created o) (o_last o) bf.

(* the CAS on `active` succeeded: mark closed and give the lock back *)
Definition finish_obj (b : N) (s : state) : state :=
  if is_active b s then set_lk (set_objs s (upd_obj b deact (objs s))) (release b (lk s)) else s.

(* ---------- data ---------- *)

Definition db_get (k : N) (d : list (N * N)) : option N :=
  match find (fun kv => N.eqb (fst kv) k) d with Some kv => Some (snd kv) | None => None end.
Definition db_del (k : N) (d : list (N * N)) : list (N * N) := filter (fun kv => negb (N.eqb (fst kv) k)) d.
Definition db_set (k v : N) (d : list (N * N)) : list (N * N) := (k, v) :: db_del k d.

Definition buf_get (k : N) (bf : list (N * option N)) : option (option N) :=
  match find (fun kv => N.eqb (fst kv) k) bf with Some kv => Some (snd kv) | None => None end.
Definition buf_set (k : N) (v : option N) (bf : list (N * option N)) : list (N * option N) :=
  (k, v) :: filter (fun kv => negb (N.eqb (fst kv) k)) bf.

Definition apply_buf (bf : list (N * option N)) (d : list (N * N)) : list (N * N) :=
  fold_right (fun kv acc => match snd kv with Some v => db_set (fst kv) v acc | None => db_del (fst kv) acc end) d bf.

(* ---------- the hand-off of granted Begins ---------- *)

Definition conn_of (cfg : config) (c : N) : N := if c_peer cfg then c else 0.

Definition set_handle (c : N) (h : N * N) (l : list (N * (N * N))) : list (N * (N * N)) :=
  (c, h) :: filter (fun x => negb (N.eqb (fst x) c)) l.

Definition handle_of (c : N) (s : state) : option (N * N) :=
  match find (fun x => N.eqb (fst x) c) (handles s) with Some x => Some (snd x) | None => None end.

Definition drop_pend (b : N) (l : list pend) : list pend := filter (fun p => negb (N.eqb (p_b p) b)) l.

(* registry.Begin, result branch: nextID++, transactions[id] = tx, connectionTxs[conn][id] *)
Definition register (cfg : config) (p : pend) (s : state) : state :=
  let id := next_id s + 1 in
  set_handles
    (set_next_id (set_reg s (reg s ++ [mkRent id (p_b p) (conn_of cfg (p_client p))])) id)
    (set_handle (p_client p) (id, p_b p) (handles s)).

(* Every creating goroutine that now holds the lock runs on: it delivers the transaction to a
   caller that still waits (which registers it), or — the caller gave up — rolls it back at
   once, which may wake further goroutines. *)
Fixpoint settle (cfg : config) (fuel : nat) (s : state) : state * list out :=
  match fuel with
  | O => (s, [])
  | S f =>
    match find (fun p => is_holder (p_b p) (lk s)) (pends s) with
    | None => (s, [])
    | Some p =>
      let s1 := set_pends s (drop_pend (p_b p) (pends s)) in
      if p_aband p then settle cfg f (finish_obj (p_b p) s1)
      else
        let r := settle cfg f (register cfg p s1) in
        (fst r, OAsync (p_client p) ROk :: snd r)
    end
  end.

Definition settle_all (cfg : config) (s : state) : state * list out :=
  settle cfg (length (pends s)) s.

(* ---------- cleanup ---------- *)

Definition reg_remove (id : N) (s : state) : state :=
  set_reg s (filter (fun r => negb (N.eqb (r_id r) id)) (reg s)).

(* tx.Rollback() (errors ignored) then delete from the maps *)
Definition purge (s : state) (r : rent) : state :=
  reg_remove (r_id r) (finish_obj (r_b r) s).

Definition is_stale (cfg : config) (s : state) (r : rent) : bool :=
  match get_obj (r_b r) s with
  | None => false
  | Some o =>
    let ttl := if o_ro o then c_ttl_ro cfg else c_ttl_rw cfg in
    (ttl <? now s - o_created o) || (c_idle cfg <? now s - o_last o)
  end.

(* CleanupStaleTransactions *)
Definition stale (cfg : config) (s : state) : state * list out :=
  settle_all cfg (fold_left purge (filter (is_stale cfg s) (reg s)) s).

(* CleanupConnection *)
Definition clean_conn (cfg : config) (conn : N) (s : state) : state * list out :=
  settle_all cfg (fold_left purge (filter (fun r => N.eqb (r_conn r) conn) (reg s)) s).

(* GracefulShutdown: close(r.stopCleanup) first — unguarded (fact from the source), so a second
   call panics before it does anything *)
Definition shutdown_panics (s : state) : bool := stopped s && negb registry_shutdown_close_guarded.

Definition shutdown (cfg : config) (s : state) : state * list out :=
  if shutdown_panics s then (s, [OMaint RPanic])
  else
    let r := settle_all cfg (fold_left purge (reg s) (set_stopped s true)) in
    (fst r, OMaint ROk :: snd r).

(* ---------- Begin ---------- *)

Definition has_pending (c : N) (s : state) : bool :=
  existsb (fun p => N.eqb (p_client p) c && negb (p_aband p)) (pends s).

Definition is_pending_b (b : N) (s : state) : bool := existsb (fun p => N.eqb (p_b p) b) (pends s).

Definition not_async_of (c : N) (o : out) : bool :=
  match o with OAsync c' ROk => negb (N.eqb c' c) | _ => true end.

Definition begin_core (cfg : config) (c : N) (ro : bool) (d : N) (s : state) : state :=
  let b := next_b s in
  let o := mkObj b ro true (now s) (now s) [] in
  let dl := now s + (if N.eqb d 0 then c_btimeout cfg else N.min d (c_btimeout cfg)) in
  set_next_b
    (set_pends (set_lk (set_objs s (objs s ++ [o])) (acquire ro b (lk s)))
               (pends s ++ [mkPend b c dl false]))
    (b + 1).

Definition begin_tx (cfg : config) (c : N) (ro : bool) (d : N) (s : state) : state * list out :=
  if has_pending c s then (s, [OBegin c RBusy])   (* the client is still inside its previous call *)
  else
    (* service.BeginTransaction: "force clean up of old transactions" first *)
    let r0 := if c_svc cfg then stale cfg s else (s, []) in
    let s0 := fst r0 in
    let b := next_b s0 in
    let r := settle_all cfg (begin_core cfg c ro d s0) in
    if is_pending_b b (fst r)
    then (fst r, snd r0 ++ OBegin c RWait :: snd r)
    else (fst r, snd r0 ++ OBegin c ROk :: filter (not_async_of c) (snd r)).

(* ---------- time ---------- *)

Definition expire (t : N) (p : pend) : pend :=
  if negb (p_aband p) && (p_deadline p <=? t) then mkPend (p_b p) (p_client p) (p_deadline p) true else p.

Definition timeouts (t : N) (l : list pend) : list out :=
  map (fun p => OAsync (p_client p) RTimeout)
      (filter (fun p => negb (p_aband p) && (p_deadline p <=? t)) l).

Definition tick (dt : N) (s : state) : state * list out :=
  let t := now s + dt in
  (set_pends (set_now s t) (map (expire t) (pends s)), timeouts t (pends s)).

(* ---------- operations on one transaction object ---------- *)

Definition registered (id : N) (s : state) : bool := existsb (fun r => N.eqb (r_id r) id) (reg s).

(* TransactionImpl.Get *)
Definition tx_get (c b k : N) (s : state) : state * list out :=
  match get_obj b s with
  | Some o =>
    if o_active o then
      let s' := set_objs s (upd_obj b (touch (now s)) (objs s)) in
      match buf_get k (o_buf o) with
      | Some v => (s', [OGet c ROk v])
      | None => (s', [OGet c ROk (db_get k (db s))])
      end
    else (s, [OGet c RClosed None])
  | None => (s, [OGet c RClosed None])
  end.

(* TransactionImpl.Put (v = Some _) / Delete (v = None) *)
Definition tx_write (c b k : N) (v : option N) (s : state) : state * list out :=
  match get_obj b s with
  | Some o =>
    if o_active o then
      if o_ro o then (set_objs s (upd_obj b (touch (now s)) (objs s)), [ORes c RReadOnly])
      else (set_objs s (upd_obj b (fun o => set_buf (buf_set k v (o_buf o)) (touch (now s) o)) (objs s)),
            [ORes c ROk])
    else (s, [ORes c RClosed])
  | None => (s, [ORes c RClosed])
  end.

(* TransactionImpl.Commit *)
Definition tx_commit (cfg : config) (c b : N) (s : state) : state * list out :=
  match get_obj b s with
  | Some o =>
    if o_active o then
      let apply := negb (o_ro o) && negb (is_nil (o_buf o)) in
      let failed := apply && fail_next s in
      let s1 := if apply then
                  (if fail_next s then set_fail s false else set_db s (apply_buf (o_buf o) (db s)))
                else s in
      let r := settle_all cfg (finish_obj b s1) in
      (fst r, ORes c (if failed then RFail else ROk) :: snd r)
    else (s, [ORes c RClosed])
  | None => (s, [ORes c RClosed])
  end.

(* TransactionImpl.Rollback *)
Definition tx_rollback (cfg : config) (c b : N) (s : state) : state * list out :=
  if is_active b s then
    let s1 := set_objs s (upd_obj b clear_buf (objs s)) in
    let r := settle_all cfg (finish_obj b s1) in
    (fst r, ORes c ROk :: snd r)
  else (s, [ORes c RClosed]).

(* ---------- events ---------- *)

Inductive event :=
| EBegin (c : N) (ro : bool) (d : N)   (* d = 0: no deadline of the client's own *)
| EGet (c k : N) | EPut (c k v : N) | EDel (c k : N) | ECommit (c : N) | ERollback (c : N)
      (* by handle: through the service, or registry.Get + the object when c_svc = false *)
| EOGet (c k : N) | EOPut (c k v : N) | EODel (c k : N) | EOCommit (c : N) | EORollback (c : N)
      (* on the object the client kept (embedded use) *)
| ERemove (c : N)                       (* registry.Remove of the client's handle *)
| ETick (dt : N)
| EStale | ECleanConn (c : N) | EShutdown
| EFailNext
| EOneShot (c : N) (valid : bool) (k : N) (v : option N).
      (* a BatchWrite of the service (service.go): the service begins a read-write transaction
         ITSELF (engine.BeginTransaction(false), not through the registry), buffers the operations,
         commits, and on any rejection rolls back in a deferred function — all inside one call.
         valid = true: the batch is the single operation put k v (Some) / delete k (None);
         valid = false: it additionally carries an operation the service rejects (empty or
         over-long key, over-long value, unknown operation type). *)

(* first line of a handle RPC: look the transaction up *)
Definition with_handle (c : N) (s : state) (nf : list out) (f : N -> N -> state * list out)
  : state * list out :=
  match handle_of c s with
  | None => (s, [ORes c RNoHandle])
  | Some (id, b) => if registered id s then f id b else (s, nf)
  end.

Definition obj_ro (b : N) (s : state) : bool :=
  match get_obj b s with Some o => o_ro o | None => false end.

(* the service hides the error of tx.Get behind "not found" *)
Definition svc_get_out (c : N) (r : state * list out) : state * list out :=
  (fst r, map (fun o => match o with OGet c' RClosed _ => OGet c' ROk None | o => o end) (snd r)).

Definition step (cfg : config) (s : state) (e : event) : state * list out :=
  match e with
  | EBegin c ro d => begin_tx cfg c ro d s
  | EGet c k =>
    with_handle c s [OGet c RNotFound None] (fun id b =>
      if c_svc cfg then
        if N.eqb k 0 then (s, [OGet c RInvalid None]) else svc_get_out c (tx_get c b k s)
      else tx_get c b k s)
  | EPut c k v =>
    with_handle c s [ORes c RNotFound] (fun id b =>
      if c_svc cfg then
        if obj_ro b s then (s, [ORes c RReadOnly])
        else if N.eqb k 0 then (s, [ORes c RInvalid]) else tx_write c b k (Some v) s
      else tx_write c b k (Some v) s)
  | EDel c k =>
    with_handle c s [ORes c RNotFound] (fun id b =>
      if c_svc cfg then
        if obj_ro b s then (s, [ORes c RReadOnly])
        else if N.eqb k 0 then (s, [ORes c RInvalid]) else tx_write c b k None s
      else tx_write c b k None s)
  | ECommit c =>
    with_handle c s [ORes c RNotFound] (fun id b =>
      let r := tx_commit cfg c b s in
      if c_svc cfg then (reg_remove id (fst r), snd r) else r)
  | ERollback c =>
    with_handle c s [ORes c RNotFound] (fun id b =>
      let r := tx_rollback cfg c b s in
      if c_svc cfg then (reg_remove id (fst r), snd r) else r)
  | EOGet c k =>
    match handle_of c s with None => (s, [ORes c RNoHandle]) | Some (_, b) => tx_get c b k s end
  | EOPut c k v =>
    match handle_of c s with None => (s, [ORes c RNoHandle]) | Some (_, b) => tx_write c b k (Some v) s end
  | EODel c k =>
    match handle_of c s with None => (s, [ORes c RNoHandle]) | Some (_, b) => tx_write c b k None s end
  | EOCommit c =>
    match handle_of c s with None => (s, [ORes c RNoHandle]) | Some (_, b) => tx_commit cfg c b s end
  | EORollback c =>
    match handle_of c s with None => (s, [ORes c RNoHandle]) | Some (_, b) => tx_rollback cfg c b s end
  | ERemove c =>
    match handle_of c s with
    | None => (s, [ORes c RNoHandle])
    | Some (id, _) => (reg_remove id s, [ORes c ROk])
    end
  | ETick dt => tick dt s
  | EStale => let r := stale cfg s in (fst r, OMaint ROk :: snd r)
  | ECleanConn c => let r := clean_conn cfg (conn_of cfg c) s in (fst r, OMaint ROk :: snd r)
  | EShutdown => shutdown cfg s
  | EFailNext => (set_fail s true, [OMaint ROk])
  | EOneShot c valid k v =>
    if is_nil (lock_ids (lk s)) then            (* nobody holds or waits for the lock *)
      if valid then
        if fail_next s then (set_fail s false, [ORes c RFail])   (* Commit returned ApplyBatch's error *)
        else (set_db s (match v with Some x => db_set k x (db s) | None => db_del k (db s) end),
              [ORes c ROk])
      else (s, [ORes c RInvalid])               (* rejected: the deferred Rollback gave the lock back *)
    else (s, [ORes c RBusy])                    (* the call would wait: the harness does not issue it *)
  end.

Fixpoint run (cfg : config) (s : state) (es : list event) : state * list out :=
  match es with
  | [] => (s, [])
  | e :: t => let r := step cfg s e in let r' := run cfg (fst r) t in (fst r', snd r ++ snd r')
  end.

(* ---------- what an observer outside can probe ---------- *)

Inductive lstate := LFree | LRead | LWrite.

(* TryLock succeeds = LFree; else TryRLock succeeds = LRead; else LWrite *)
Definition lock_state (s : state) : lstate :=
  if is_nil (lock_ids (lk s)) then LFree
  else if is_nil (l_wq (lk s)) then LRead else LWrite.

Definition reg_size (s : state) : N := N.of_nat (length (reg s)).
