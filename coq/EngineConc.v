(* EngineConc.v — the storage manager under concurrent clients as a labelled transition
   system whose atomic steps are the critical sections the code establishes
   (pkg/engine/storage/manager.go):

   - a client write (Put/Delete) is ONE section under Manager.mu held exclusively: the retry
     loop of RetryOnWALRotating around  getWAL -> WAL.Append -> memtable insert -> maybe
     scheduleFlush.  What the section sees of the log it loaded (the WAL status flags are
     atomics written by rotateWAL/Close WITHOUT Manager.mu) is an input of the section: one
     observation per attempt;
   - a client Get is ONE section under Manager.mu held shared: it reads the layer stack;
   - FlushMemTables (background goroutine or FlushImMemTables, serialised by flushMu) is a
     sequence of separately atomic steps: take the queue (under mu), look at the active table
     (pool lock only), rotate the log (no mu: sequence hand-over under the WAL mutex, atomic
     pointer swap), write + publish one SSTable per table (publish under mu).
   These steps interleave arbitrarily with the client sections.  The effect of every step is
   Engine.v's function (put, del, get, rotate, flush_table, clear_pending).

   The compaction worker is not a step: it works on files only; the manager's in-memory
   table list is never reloaded (ReloadSSTables has no caller), so nothing a Get reads
   changes.  Close racing with clients is outside the property.

   The state also carries the bookkeeping needed to state the property: a clock that ticks
   at every label, the threads' open calls, and the records of completed calls.
   Model file: definitions only. *)
From KV Require Export Engine Hist.
Open Scope N_scope.

(* ---------- client requests ---------- *)

Inductive creq := CPut (k v : bytes) | CDel (k : bytes) | CGet (k : bytes).
Inductive cresp := PAck | PErr | PVal (v : bytes) | PNotFound.

Definition req_key (r : creq) : bytes := match r with CPut k _ => k | CDel k => k | CGet k => k end.
Definition req_kind (r : creq) : okind :=
  match r with CPut _ v => KPut v | CDel _ => KDel | CGet _ => KGet end.
Definition resp_res (p : cresp) : ores :=
  match p with PAck => ROk | PErr => RFail | PVal v => RVal v | PNotFound => RNotFound end.

(* ---------- the writer's section ---------- *)

(* what one attempt observes of the WAL object it loaded with getWAL(). WAL.Append reads the
   status flag once, under the WAL mutex, before it writes anything (the sync behind the
   buffered record no longer looks at it):
   WActive    Active: the record is appended, the attempt completes;
   WRotating  Rotating: ErrWALRotating, nothing written, RetryOnWALRotating tries again;
   WClosed    Closed (an old WAL object loaded before the pointer swap, used after rotateWAL
              closed it): ErrWALClosed, nothing written, not retried. *)
Inductive wstat := WActive | WRotating | WClosed.

Inductive wreq := WPutReq (k v : bytes) | WDelReq (k : bytes).

Definition do_write (s : st) (w : wreq) : st * wr_res :=
  match w with WPutReq k v => put s k v | WDelReq k => del s k end.

Inductive attempt_res := AOk (s : st) | ARetry (s : st) | AFail (s : st).

Definition attempt (w : wreq) (o : wstat) (s : st) : attempt_res :=
  match o with
  | WRotating => ARetry s
  | WClosed => AFail s
  | WActive => match do_write s w with
               | (s', WrOk _) => AOk s'
               | (s', WrOverflow) => AFail s'
               end
  end.

(* Manager.RetryOnWALRotating: at most n attempts; observations missing from the list
   default to WActive *)
Fixpoint retry (n : nat) (obs : list wstat) (w : wreq) (s : st) : st * cresp :=
  match n with
  | O => (s, PErr)                    (* "operation failed after 3 retries" *)
  | S n' =>
    match attempt w (hd WActive obs) s with
    | AOk s' => (s', PAck)
    | AFail s' => (s', PErr)
    | ARetry s' => retry n' (tl obs) w s'
    end
  end.

Definition max_retries : nat := 3.     (* maxRetries in RetryOnWALRotating *)

Definition section (s : st) (r : creq) (obs : list wstat) : st * cresp :=
  match r with
  | CGet k => (s, match get s k with Some v => PVal v | None => PNotFound end)
  | CPut k v => retry max_retries obs (WPutReq k v) s
  | CDel k => retry max_retries obs (WDelReq k) s
  end.

(* ---------- FlushMemTables, step by step ---------- *)

(* a table the flusher holds: an immutable table (a value), or a reference to the table that
   was active when the flusher looked (FlushMemTables flushes tables[0] when nothing is
   queued): it is read when it is flushed, with whatever writers added meanwhile. The pool
   only ever appends to its list of immutable tables, so "the table that was active when
   g tables had been retired" is the g-th immutable table, or the active one. *)
Inductive qitem := QTab (m : memtable) | QLive (g : nat).

Definition resolve (s : st) (q : qitem) : memtable :=
  match q with QTab m => m | QLive g => nth g (imms s) (active s) end.

Inductive bphase := BIdle | BPeek | BRot | BFlushing.
Record bgstate := mkBg { b_phase : bphase; b_queue : list qitem }.
Definition bg_idle : bgstate := mkBg BIdle [].

Inductive bstep :=
| BTake       (* lock flushMu; under mu: pending := immutableMTs; immutableMTs := [] *)
| BLook       (* nothing queued: GetMemTables()[0], flush it if it holds data *)
| BRotate     (* rotateWAL *)
| BFlushOne.  (* flushMemTable of the next table: write the SSTable, publish it under mu *)

Definition bg_step (b : bgstate) (s : st) (l : bstep) : option (bgstate * st) :=
  match l, b_phase b with
  | BTake, BIdle =>
    match pending s with
    | [] => Some (mkBg BPeek [], s)
    | ps => Some (mkBg BRot (map QTab ps), clear_pending s)
    end
  | BLook, BPeek =>
    if 0 <? mt_size (active s)
    then Some (mkBg BRot [QLive (length (imms s))], s)
    else Some (bg_idle, s)
  | BRotate, BRot => Some (mkBg BFlushing (b_queue b), rotate s)
  | BFlushOne, BFlushing =>
    match b_queue b with
    | [] => Some (bg_idle, s)
    | q :: r => Some (mkBg (match r with [] => BIdle | _ => BFlushing end) r,
                      flush_table s (resolve s q))
    end
  | _, _ => None
  end.

(* ---------- threads, labels, runs ---------- *)

Inductive tphase :=
| TCalled (call : N) (r : creq)                 (* invoked, section not yet run *)
| TDone (call : N) (r : creq) (p : cresp).      (* section done, response not yet delivered *)

Record cstate := mkC {
  eng : st; bg : bgstate;
  thr : list (N * tphase);      (* threads with an open call *)
  now : N;                      (* clock: one tick per label *)
  closed : list orec            (* completed calls *)
}.

Definition tget (t : N) (l : list (N * tphase)) : option tphase :=
  match find (fun x => fst x =? t) l with Some x => Some (snd x) | None => None end.
Definition tdel (t : N) (l : list (N * tphase)) : list (N * tphase) :=
  filter (fun x => negb (fst x =? t)) l.
Definition tset (t : N) (p : tphase) (l : list (N * tphase)) : list (N * tphase) :=
  (t, p) :: tdel t l.

Inductive label :=
| LInv (t : N) (r : creq)            (* thread t calls *)
| LSec (t : N) (obs : list wstat)    (* t's critical section runs *)
| LRes (t : N)                       (* t's call returns *)
| LBg (b : bstep).                   (* a step of FlushMemTables *)

Definition cstep (c : cstate) (l : label) : option cstate :=
  match l with
  | LInv t r =>
    match tget t (thr c) with
    | None => Some (mkC (eng c) (bg c) (tset t (TCalled (now c) r) (thr c)) (now c + 1) (closed c))
    | Some _ => None
    end
  | LSec t obs =>
    match tget t (thr c) with
    | Some (TCalled call r) =>
      let sp := section (eng c) r obs in
      Some (mkC (fst sp) (bg c) (tset t (TDone call r (snd sp)) (thr c)) (now c + 1) (closed c))
    | _ => None
    end
  | LRes t =>
    match tget t (thr c) with
    | Some (TDone call r p) =>
      Some (mkC (eng c) (bg c) (tdel t (thr c)) (now c + 1)
                (closed c ++ [mkOp t (req_key r) (req_kind r) (resp_res p) call (now c)]))
    | _ => None
    end
  | LBg b =>
    match bg_step (bg c) (eng c) b with
    | Some (b', s') => Some (mkC s' b' (thr c) (now c + 1) (closed c))
    | None => None
    end
  end.

Fixpoint crun (c : cstate) (tr : list label) : option cstate :=
  match tr with
  | [] => Some c
  | l :: r => match cstep c l with Some c' => crun c' r | None => None end
  end.

Definition cinit (s : st) : cstate := mkC s bg_idle [] 0 [].

(* the history a run leaves: completed calls, and the calls still open as pending *)
Definition pending_rec (x : N * tphase) : orec :=
  match snd x with
  | TCalled call r => mkOp (fst x) (req_key r) (req_kind r) RPending call 0
  | TDone call r _ => mkOp (fst x) (req_key r) (req_kind r) RPending call 0
  end.
Definition history_of (c : cstate) : history := closed c ++ map pending_rec (thr c).

(* tr is a trace of the system started in engine state s0 *)
Definition lts_trace (s0 : st) (tr : list label) : Prop := exists c, crun (cinit s0) tr = Some c.
Definition history (s0 : st) (tr : list label) : history :=
  match crun (cinit s0) tr with Some c => history_of c | None => [] end.
