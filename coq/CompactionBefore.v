(* Compaction.v — executable model of pkg/compaction (tiered_strategy.go, base_strategy.go,
   executor.go, tombstone.go, coordinator.go) on top of the storage-manager model Engine.v.

   What is modelled, as coded:
   * the SST directory (file name = level_number_timestamp, directory order = name order),
     separate from the storage manager's reader list (Engine.ssts), which is only refreshed
     by a reopen;
   * LoadSSTables: files per level in (number, timestamp) order; first/last key per file;
   * SelectCompaction: L0 rule (len(L0) >= MaxMemTables, at least 2 files, the first
     MaxMemTables files, plus the L1 files overlapping their key range), promotion (next
     level empty), size ratio (one file + overlapping files of the next level), and
     CompactRange (every overlapping file of every level, target = deepest level + 1);
   * CompactFiles: hierarchical merge in which an EARLIER source wins, sources listed level
     0..target and inside a level in strategy order; duplicate skipping; the tombstone filter
     (the tracker decides alone whenever it exists: it always exists); outputs written with
     sequence number 0, split after SSTableMaxSize ENTRIES, named target_<1,2,..>_<now>;
   * the swap: inputs removed from the directory, outputs added;
   * the tombstone tracker: keys deleted through EngineFacade.Delete / ApplyBatch in this
     process (not by transaction commits), empty after a restart; the 24 h retention is not
     modelled (every tracked key is "recent").
   File sizes (os.Stat) are inputs of the steps that create files: the theorems quantify
   over all of them. *)
From KV Require Export Engine.
Open Scope N_scope.

Record dfile := mkD { d_sst : sst; d_size : N }.
Definition d_level (f : dfile) : N := s_level (d_sst f).
Definition d_entries (f : dfile) : list sentry := s_entries (d_sst f).

(* compaction-related configuration; MaxMemTables is Engine's c_maxmem *)
Record ccfg := mkCC { cc_ratio : N; cc_sstmax : N }.

(* ---------- HierarchicalIterator over the input files ---------- *)

(* advance one source past prev: drop keys <= prev *)
Fixpoint drop_le (prev : bytes) (l : list sentry) : list sentry :=
  match l with
  | [] => []
  | x :: r => match bcmp (sk x) prev with
              | Gt => l
              | _ => drop_le prev r
              end
  end.

(* findNextUniqueKey: the smallest head key; among equal keys the EARLIEST source *)
Fixpoint best_head (srcs : list (list sentry)) : option sentry :=
  match srcs with
  | [] => None
  | s :: r =>
    match s with
    | [] => best_head r
    | x :: _ => match best_head r with
                | None => Some x
                | Some y => match bcmp (sk y) (sk x) with
                            | Lt => Some y
                            | _ => Some x
                            end
                end
    end
  end.

Fixpoint merge_loop (fuel : nat) (srcs : list (list sentry)) : list sentry :=
  match fuel with
  | O => []
  | S f => match best_head srcs with
           | None => []
           | Some e => e :: merge_loop f (map (drop_le (sk e)) srcs)
           end
  end.

Definition merge (srcs : list (list sentry)) : list sentry :=
  merge_loop (S (length (concat srcs))) srcs.

(* ---------- CompactFiles ---------- *)

Definition is_tomb (e : sentry) : bool := match sval e with None => true | Some _ => false end.
Definition zero_seq (e : sentry) : sentry := mkS (sk e) 0 (sval e).

(* main loop; cur = entries of the current output file, n = entriesInCurrentFile,
   outs = finished files; last = lastKey *)
Fixpoint exec_loop (keep : bytes -> bool) (max : N) (merged : list sentry) (last : option bytes)
         (cur : list sentry) (n : N) (outs : list (list sentry))
  : list (list sentry) * list sentry :=
  match merged with
  | [] => (outs, cur)
  | e :: r =>
    if match last with Some l => beq (sk e) l | None => false end
    then exec_loop keep max r last cur n outs
    else
      let kept := if is_tomb e then keep (sk e) else true in
      let cur1 := if kept then cur ++ [zero_seq e] else cur in
      let n1 := if kept then n + 1 else n in
      if max <=? n1
      then exec_loop keep max r (Some (sk e)) [] 0 (outs ++ [cur1])
      else exec_loop keep max r (Some (sk e)) cur1 n1 outs
  end.

Definition exec_outputs (keep : bytes -> bool) (max : N) (srcs : list (list sentry))
  : list (list sentry) :=
  let '(outs, cur) := exec_loop keep max (merge srcs) None [] 0 [] in
  match cur with [] => outs | _ => outs ++ [cur] end.

(* ---------- LoadSSTables / key ranges ---------- *)

Definition first_key (f : dfile) : bytes :=
  match d_entries f with [] => [] | e :: _ => sk e end.
Definition last_key (f : dfile) : bytes :=
  match rev (d_entries f) with [] => [] | e :: _ => sk e end.

Definition blt (a b : bytes) : bool := match bcmp a b with Lt => true | _ => false end.
Definition isnil (a : bytes) : bool := match a with [] => true | _ => false end.

(* SSTableInfo.Overlaps on two key ranges *)
Definition overlaps (f1 l1 f2 l2 : bytes) : bool :=
  if isnil f1 || isnil l1 || isnil f2 || isnil l2 then false
  else negb (blt l1 f2 || blt l2 f1).

(* the order of the pinned code: file name order = (level, number, timestamp) *)
Definition name_le (a b : sst) : bool :=
  if s_level a <? s_level b then true else if s_level b <? s_level a then false else
  if s_num a <? s_num b then true else if s_num b <? s_num a then false else
  s_ts a <=? s_ts b.
Fixpoint name_insert (x : sst) (l : list sst) : list sst :=
  match l with
  | [] => [x]
  | y :: r => if name_le x y then x :: l else y :: name_insert x r
  end.
Definition name_sort (l : list sst) : list sst := fold_right name_insert [] l.
Definition dfile_le (a b : dfile) : bool := name_le (d_sst a) (d_sst b).
Fixpoint dinsert (x : dfile) (l : list dfile) : list dfile :=
  match l with
  | [] => [x]
  | y :: r => if dfile_le x y then x :: l else y :: dinsert x r
  end.
(* directory order = file name order = (level, number, timestamp) *)
Definition dsort (l : list dfile) : list dfile := fold_right dinsert [] l.

(* s.levels[L]: directory order, then sorted by number: (number, timestamp) order *)
Definition level_files (L : N) (dir : list dfile) : list dfile :=
  filter (fun f => d_level f =? L) (dsort dir).

Definition level_size (L : N) (dir : list dfile) : N :=
  fold_left (fun a f => a + d_size f) (level_files L dir) 0.

Definition max_level (dir : list dfile) : N :=
  fold_left (fun a f => N.max a (d_level f)) dir 0.

(* ---------- tasks ---------- *)

(* inputs in the order CompactFiles lists the sources: level 0..target, strategy order inside *)
Record task := mkT { t_inputs : list dfile; t_target : N }.

(* selectL0Compaction: key range of the selected files, with the code's "len == 0" tests *)
Definition l0_range (sel : list dfile) : bytes * bytes :=
  fold_left (fun mm f =>
               let '(mn, mx) := mm in
               (if isnil mn || blt (first_key f) mn then first_key f else mn,
                if isnil mx || blt mx (last_key f) then last_key f else mx))
            sel ([], []).

Definition select_l0 (maxmem : N) (dir : list dfile) : option task :=
  let l0 := level_files 0 dir in
  if N.of_nat (length l0) <? 2 then None else
  let sel := firstn (N.to_nat maxmem) l0 in
  let '(mn, mx) := l0_range sel in
  let l1 := filter (fun f => overlaps (first_key f) (last_key f) mn mx) (level_files 1 dir) in
  Some (mkT (sel ++ l1) 1).

Definition select_promotion (L : N) (dir : list dfile) : option task :=
  match level_files L dir with
  | [] => None
  | f :: _ => Some (mkT [f] (L + 1))
  end.

Definition select_overlapping (L : N) (dir : list dfile) : option task :=
  match level_files L dir with
  | [] => None
  | f :: _ =>
    let nxt := filter (fun g => overlaps (first_key f) (last_key f) (first_key g) (last_key g))
                      (level_files (L + 1) dir) in
    Some (mkT (f :: nxt) (L + 1))
  end.

Definition isnil_files (l : list dfile) : bool := match l with [] => true | _ => false end.

(* the loop "for level := 0; level < maxLevel; level++" *)
Fixpoint select_levels (n : nat) (L : N) (ratio : N) (dir : list dfile) : option task :=
  match n with
  | O => None
  | S n' =>
    let this := level_size L dir in
    let next := level_size (L + 1) dir in
    if this =? 0 then select_levels n' (L + 1) ratio dir
    else if (next =? 0) && negb (isnil_files (level_files L dir))
         then select_promotion L dir
         else if ratio * next <=? this then select_overlapping L dir
              else select_levels n' (L + 1) ratio dir
  end.

(* SelectCompaction *)
Definition select (maxmem : N) (cc : ccfg) (dir : list dfile) : option task :=
  if maxmem <=? N.of_nat (length (level_files 0 dir))
  then select_l0 maxmem dir
  else select_levels (N.to_nat (max_level dir)) 0 (cc_ratio cc) dir.

(* CompactRange *)
Fixpoint range_inputs (n : nat) (L : N) (lo hi : bytes) (dir : list dfile) : list dfile :=
  let here := filter (fun f => overlaps (first_key f) (last_key f) lo hi) (level_files L dir) in
  match n with
  | O => here
  | S n' => here ++ range_inputs n' (L + 1) lo hi dir
  end.

Definition select_range (lo hi : bytes) (dir : list dfile) : option task :=
  let ml := max_level dir in
  match range_inputs (N.to_nat ml) 0 lo hi dir with
  | [] => None
  | ins => Some (mkT ins (ml + 1))
  end.

(* ---------- executing a task on the directory ---------- *)

Definition same_file (a b : dfile) : bool :=
  (s_level (d_sst a) =? s_level (d_sst b)) && (s_num (d_sst a) =? s_num (d_sst b))
  && (s_ts (d_sst a) =? s_ts (d_sst b)).

Definition remove_files (ins dir : list dfile) : list dfile :=
  filter (fun f => negb (existsb (same_file f) ins)) dir.

(* sources of CompactFiles: only levels 0..target take part in the merge *)
Definition task_sources (t : task) : list (list sentry) :=
  map d_entries (filter (fun f => d_level f <=? t_target t) (t_inputs t)).

Fixpoint nth_size (i : nat) (sizes : list N) : N :=
  match sizes, i with
  | [], _ => 0
  | x :: _, O => x
  | _ :: r, S j => nth_size j r
  end.

(* output files: target_<1..>_<clock..> *)
Fixpoint name_outputs (target : N) (i : nat) (clock : N) (sizes : list N) (outs : list (list sentry))
  : list dfile :=
  match outs with
  | [] => []
  | es :: r => mkD (mkSst target (N.of_nat i + 1) (clock + N.of_nat i) es) (nth_size i sizes)
               :: name_outputs target (S i) clock sizes r
  end.

Definition task_outputs (keep : bytes -> bool) (cc : ccfg) (clock : N) (sizes : list N) (t : task)
  : list dfile :=
  name_outputs (t_target t) 0 clock sizes (exec_outputs keep (cc_sstmax cc) (task_sources t)).

Definition apply_task (keep : bytes -> bool) (cc : ccfg) (clock : N) (sizes : list N) (t : task)
           (dir : list dfile) : list dfile :=
  remove_files (t_inputs t) dir ++ task_outputs keep cc clock sizes t.

(* ---------- the database with compaction ---------- *)

Record cst := mkC {
  eng : st;
  disk : list dfile;            (* the SST directory *)
  tracked : list bytes;         (* TombstoneTracker.deletions of this process *)
  cc : ccfg;
  retirable : nat               (* number of leading log files whose entries are all in SSTs *)
}.

Definition cinit (c : config) (k : ccfg) : cst := mkC (init c) [] [] k 0.

Definition keep_of (tr : list bytes) (k : bytes) : bool := existsb (beq k) tr.

Definition with_eng (s : cst) (e : st) : cst := mkC e (disk s) (tracked s) (cc s) (retirable s).

Definition set_clock (e : st) (c : N) : st :=
  mkSt (cfg e) (wal_next e) (wal_files e) (last_seq e) (active e) (imms e) (pending e)
       (flush_pending e) (ssts e) (next_file e) c (lost_log e).
Definition set_ssts (e : st) (l : list sst) : st :=
  mkSt (cfg e) (wal_next e) (wal_files e) (last_seq e) (active e) (imms e) (pending e)
       (flush_pending e) l (next_file e) (clock e) (lost_log e).

Definition is_ok (r : wr_res) : bool := match r with WrOk _ => true | WrOverflow => false end.

Definition cput (s : cst) (k v : bytes) : cst * wr_res :=
  let '(e, r) := put (eng s) k v in (with_eng s e, r).

(* EngineFacade.Delete: storage delete, then TrackTombstone *)
Definition cdel (s : cst) (k : bytes) : cst * wr_res :=
  let '(e, r) := del (eng s) k in
  (mkC e (disk s) (if is_ok r then k :: tracked s else tracked s) (cc s) (retirable s), r).

Definition del_keys (ops : list bop) : list bytes :=
  flat_map (fun o => match snd o with None => [fst o] | Some _ => [] end) ops.

(* EngineFacade.ApplyBatch: tracks the deletes of the batch *)
Definition cbatch (s : cst) (ops : list bop) : cst * wr_res :=
  let '(e, r) := apply_batch (eng s) ops in
  (mkC e (disk s) (if is_ok r then rev (del_keys ops) ++ tracked s else tracked s) (cc s)
       (retirable s), r).

(* transaction commit: straight to the storage manager, nothing tracked *)
Definition ccommit (s : cst) (ops : list bop) : cst * wr_res :=
  let '(e, r) := tx_commit (eng s) ops in (with_eng s e, r).

Fixpoint with_sizes (i : nat) (sizes : list N) (l : list sst) : list dfile :=
  match l with
  | [] => []
  | x :: r => mkD x (nth_size i sizes) :: with_sizes (S i) sizes r
  end.

(* FlushImMemTables: the files the storage manager appends to its list also appear in the
   directory *)
Definition cflush (s : cst) (sizes : list N) : cst :=
  let e := flush (eng s) in
  let fresh := skipn (length (ssts (eng s))) (ssts e) in
  mkC e (disk s ++ with_sizes 0 sizes fresh) (tracked s) (cc s) (retirable s).

Definition nfresh (s : cst) : nat := length (ssts (flush (eng s))) - length (ssts (eng s)).

(* flush until every acknowledged write is in an SSTable: a second call flushes the active
   table when the first one had queued tables to write. Afterwards every log file but the
   current one is fully contained in SSTables. *)
Definition cfull (s : cst) (sizes : list N) : cst :=
  let had_pending := match pending (eng s) with [] => false | _ => true end in
  let s1 := cflush s sizes in
  let s2 := if had_pending then cflush s1 (skipn (nfresh s) sizes) else s1 in
  mkC (eng s2) (disk s2) (tracked s2) (cc s2) (length (wal_files (eng s2)) - 1).

(* one compaction cycle (TriggerCompaction / the background worker's tick) *)
Definition ctrigger (s : cst) (sizes : list N) : cst :=
  match select (c_maxmem (cfg (eng s))) (cc s) (disk s) with
  | None => s
  | Some t =>
    let outs := task_outputs (keep_of (tracked s)) (cc s) (clock (eng s)) sizes t in
    mkC (set_clock (eng s) (clock (eng s) + N.of_nat (length outs)))
        (remove_files (t_inputs t) (disk s) ++ outs) (tracked s) (cc s) (retirable s)
  end.

Definition crange (s : cst) (lo hi : bytes) (sizes : list N) : cst :=
  match select_range lo hi (disk s) with
  | None => s
  | Some t =>
    let outs := task_outputs (keep_of (tracked s)) (cc s) (clock (eng s)) sizes t in
    mkC (set_clock (eng s) (clock (eng s) + N.of_nat (length outs)))
        (remove_files (t_inputs t) (disk s) ++ outs) (tracked s) (cc s) (retirable s)
  end.

(* close + open; with retire = true the log files that are fully contained in SSTables are
   removed while the database is closed (what WAL retention does to flushed files) *)
Definition creopen (s : cst) (retire : bool) : cst :=
  let e0 := eng s in
  let e1 := if retire then upd_wal e0 (wal_next e0) (skipn (retirable s) (wal_files e0)) else e0 in
  let e2 := reopen (set_ssts e1 (map d_sst (disk s))) in
  mkC (set_ssts e2 (name_sort (map d_sst (disk s)))) (disk s) [] (cc s) (if retire then 0%nat else retirable s).

Definition cget (s : cst) (k : bytes) : option bytes := get (eng s) k.

(* what a database opened on the SST directory alone reads (no log, empty memtables) *)
Definition ssts_read (tables : list sst) (k : bytes) : option bytes :=
  match ssts_get k (rev (name_sort tables)) with
  | Some (Some v) => Some v
  | _ => None
  end.
Definition disk_read (s : cst) (k : bytes) : option bytes := ssts_read (map d_sst (disk s)) k.

Inductive cop :=
| CPut (k v : bytes) | CDel (k : bytes) | CBatch (ops : list bop) | CCommit (ops : list bop)
| CFlush (sizes : list N) | CFull (sizes : list N) | CTrigger (sizes : list N)
| CRange (lo hi : bytes) (sizes : list N) | CReopen (retire : bool) | CGet (k : bytes).

Definition cstep (s : cst) (o : cop) : cst :=
  match o with
  | CPut k v => fst (cput s k v)
  | CDel k => fst (cdel s k)
  | CBatch ops => fst (cbatch s ops)
  | CCommit ops => fst (ccommit s ops)
  | CFlush z => cflush s z
  | CFull z => cfull s z
  | CTrigger z => ctrigger s z
  | CRange lo hi z => crange s lo hi z
  | CReopen r => creopen s r
  | CGet _ => s
  end.

Definition crun (c : config) (k : ccfg) (ops : list cop) : cst := fold_left cstep ops (cinit c k).
