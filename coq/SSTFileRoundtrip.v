(* SSTFileRoundtrip.v — C11, file layer, end to end: OpenReader on the bytes that Writer.Finish
   produced yields a table whose blocks, index keys and filters are exactly those of the writer
   (so that every theorem of SSTableProofs.v applies to what is read from the BYTES). No axioms. *)
From Coq Require Import List NArith Arith PeanoNat Bool Lia ZifyN ZifyNat.
From KV Require Import Bytes BytesProofs Engine Xxhash Block BlockProofs SSTable SSTableProofs SSTFile SSTFileProofs.
From KV.gen Require Import Consts.
Import ListNotations.
Open Scope N_scope.

(* ------------------------------------------------------------------------------------- *)
(* 0. slices                                                                              *)
(* ------------------------------------------------------------------------------------- *)

Lemma slice_in_prefix : forall (a b : bytes) off n, off + n <= len a -> slice (a ++ b) off n = slice a off n.
Proof.
  intros a b off n H. unfold slice. rewrite skipn_app, firstn_app.
  replace (N.to_nat n - length (skipn (N.to_nat off) a))%nat with 0%nat.
  2:{ rewrite skipn_length. unfold len in H. lia. }
  cbn [firstn]. rewrite app_nil_r. reflexivity.
Qed.

Lemma slice_suffix : forall (a b : bytes), slice (a ++ b) (len (a ++ b) - len b) (len b) = b.
Proof.
  intros a b. rewrite len_app. replace (len a + len b - len b) with (len a) by lia.
  rewrite <- (app_nil_r b) at 1. apply slice_mid.
Qed.

Lemma slice_all : forall (a : bytes), slice a 0 (len a) = a.
Proof. intros a. unfold slice. cbn [N.to_nat skipn]. rewrite to_nat_len. apply firstn_all. Qed.

(* ------------------------------------------------------------------------------------- *)
(* 1. every block the writer cuts can be encoded                                          *)
(* ------------------------------------------------------------------------------------- *)

Lemma encode_some : forall b, b <> [] -> Forall wfe b ->
  exists body rs, block_body b = (body, rs, true) /\ encode_block b = Some (enc_trailer body rs).
Proof.
  intros b NE W. unfold encode_block. destruct b as [|e b]; [congruence|].
  destruct (block_body (e :: b)) as [[body rs] ok] eqn:BB.
  pose proof (enc_entries_ok _ _ _ _ _ _ _ _ BB W). subst ok. eauto.
Qed.

Lemma len_encoded_ge : forall b d, encode_block b = Some d -> 12 <= len d.
Proof.
  intros b d H. unfold encode_block in H. destruct b as [|e b]; [discriminate|].
  destruct (block_body (e :: b)) as [[body rs] ok]. destruct ok; [|discriminate].
  inversion H; subst. unfold enc_trailer. rewrite !len_app, !len_le. lia.
Qed.

Lemma body_le_encoded : forall b d body rs ok, encode_block b = Some d -> block_body b = (body, rs, ok) ->
  len body <= len d.
Proof.
  intros b d body rs ok H BB. unfold encode_block in H. destruct b as [|e b]; [discriminate|].
  rewrite BB in H. destruct ok; [|discriminate]. inversion H; subst.
  unfold enc_trailer. rewrite !len_app. lia.
Qed.

Lemma Forall_concat_in : forall (A : Type) (P : A -> Prop) (ls : list (list A)) l,
  Forall P (concat ls) -> In l ls -> Forall P l.
Proof.
  intros A P ls l H Hin. rewrite Forall_forall in *. intros x Hx. apply H. apply in_concat. eauto.
Qed.

(* a block of the partition satisfies the guards of the block codec as soon as its encoding is
   smaller than 4 GB *)
Lemma block_wf : forall es b d, Forall wfe es -> Forall keyne es -> In b (cut es) ->
  encode_block b = Some d -> len d < 2 ^ 32 -> wf_block b.
Proof.
  intros es b d W K Hin E Hd. destruct (cut_partition es) as [P N].
  constructor.
  - unfold nonempty_blocks in N. rewrite Forall_forall in N. apply N. exact Hin.
  - eapply Forall_concat_in; [|exact Hin]. rewrite P. exact W.
  - eapply Forall_concat_in; [|exact Hin]. rewrite P. exact K.
  - intros body rs ok BB. pose proof (body_le_encoded _ _ _ _ _ E BB). lia.
Qed.

(* ------------------------------------------------------------------------------------- *)
(* 2. layout of the data blocks                                                           *)
(* ------------------------------------------------------------------------------------- *)

Definition pb_off (pb : N * bytes * block) : N := fst (fst pb).
Definition pb_bytes (pb : N * bytes * block) : bytes := snd (fst pb).
Definition pb_block (pb : N * bytes * block) : block := snd pb.

Lemma place_snd : forall ds o, map snd (place_blocks ds o) = ds.
Proof. induction ds as [|d ds IH]; intros o; cbn; [reflexivity|]. f_equal. apply IH. Qed.

Lemma place_length : forall ds o, length (place_blocks ds o) = length ds.
Proof. intros. rewrite <- (place_snd ds o) at 2. rewrite map_length. reflexivity. Qed.

(* every placed block sits at its offset in any file that contains the data section at `pre` *)
Lemma layout : forall blocks pre post,
  Forall (fun b => is_some (encode_block b) = true) blocks ->
  let ds := map unopt (map encode_block blocks) in
  let F := pre ++ concat ds ++ post in
  Forall (fun pb => slice F (pb_off pb) (len (pb_bytes pb)) = pb_bytes pb /\
                    pb_off pb + len (pb_bytes pb) <= len F /\ len pre <= pb_off pb /\
                    encode_block (pb_block pb) = Some (pb_bytes pb))
         (combine (place_blocks ds (len pre)) blocks).
Proof.
  induction blocks as [|b blocks IH]; intros pre post HS; [constructor|].
  inversion HS as [|? ? Hb Hbs]; subst. cbn [map place_blocks combine].
  destruct (encode_block b) as [d|] eqn:E; [|discriminate]. cbn [unopt concat].
  constructor.
  - unfold pb_off, pb_bytes, pb_block. cbn [fst snd]. rewrite <- app_assoc. split; [apply slice_mid|].
    split; [rewrite !len_app; lia|]. split; [lia|exact E].
  - specialize (IH (pre ++ d) post Hbs). cbv zeta in IH.
    replace (pre ++ (d ++ concat (map unopt (map encode_block blocks))) ++ post)
      with ((pre ++ d) ++ concat (map unopt (map encode_block blocks)) ++ post)
      by (rewrite <- !app_assoc; reflexivity).
    replace (len pre + len d) with (len (pre ++ d)) by apply len_app.
    eapply Forall_impl; [|exact IH]. cbn. intros pb (A & B & C & D).
    repeat split; try assumption. rewrite len_app in C. lia.
Qed.

(* offsets of later blocks are larger *)
Lemma place_offsets_ge : forall ds o, Forall (fun od => o <= fst od) (place_blocks ds o).
Proof.
  induction ds as [|d ds IH]; intros o; cbn; constructor; [cbn; lia|].
  eapply Forall_impl; [|apply IH]. cbn. intros a Ha. lia.
Qed.

(* ------------------------------------------------------------------------------------- *)
(* 3. filters                                                                             *)
(* ------------------------------------------------------------------------------------- *)

Lemma bl_of_block_wf : forall b, bl_wf (bl_of_block b).
Proof. intros b. unfold bl_of_block. apply fold_add_wf. exact bl_new_wf. Qed.

Lemma bl_fields_bound : forall b, bl_ins (bl_of_block b) = N.of_nat (length b) /\ bl_n (bl_of_block b) = 1000.
Proof.
  intros b. unfold bl_of_block.
  assert (G : forall ks b0, bl_ins (fold_left bl_add ks b0) = bl_ins b0 + N.of_nat (length ks) /\
                            bl_n (fold_left bl_add ks b0) = bl_n b0).
  { induction ks as [|k ks IH]; intros b0; cbn [fold_left length]; [split; lia|].
    destruct (IH (bl_add b0 k)) as [I1 I2]. rewrite I1, I2. cbn. split; lia. }
  destruct (G (map sk b) bl_new) as [G1 G2]. rewrite G1, G2, map_length. cbn. split; reflexivity.
Qed.

Lemma bl_header : forall f0 f1 f2 f3 bits : bytes,
  length f0 = 8%nat -> length f1 = 8%nat -> length f2 = 8%nat -> length f3 = 8%nat ->
  let fb := f0 ++ f1 ++ f2 ++ f3 ++ bits in
  firstn 8 fb = f0 /\ firstn 8 (skipn 8 fb) = f1 /\ firstn 8 (skipn 16 fb) = f2 /\
  firstn 8 (skipn 24 fb) = f3 /\ skipn 32 fb = bits.
Proof.
  intros f0 f1 f2 f3 bits H0 H1 H2 H3.
  repeat (match goal with
          | H : length ?f = S _ |- _ => destruct f; [discriminate H|cbn [length] in H; apply Nat.succ_inj in H]
          | H : length ?f = O |- _ => destruct f; [clear H|discriminate H]
          end).
  cbn. repeat split.
Qed.

Lemma bl_load_bytes : forall b, N.of_nat (length b) < 2 ^ 64 -> bl_load (bl_bytes (bl_of_block b)) = Some (bl_of_block b).
Proof.
  intros b Hn. destruct (bl_of_block_wf b) as [S K L]. destruct (bl_fields_bound b) as [I Nn].
  destruct (bl_of_block b) as [size k n ins bits] eqn:E. cbn in S, K, L, I, Nn. subst size k n ins.
  unfold bl_load, bl_bytes. cbn [bl_size bl_k bl_n bl_ins bl_bits].
  destruct (bl_header (le 8 bl_m) (le 8 bl_kk) (le 8 1000) (le 8 (N.of_nat (length b))) bits)
    as (A0 & A1 & A2 & A3 & A4); try apply le_length.
  cbv zeta in *. rewrite A0, A1, A2, A3, A4.
  rewrite !len_app, !len_le, L.
  replace (8 + (8 + (8 + (8 + 1199))) <? 32) with false by reflexivity.
  rewrite !unle_le8 by (try exact Hn; vm_compute; reflexivity).
  replace ((bl_m =? 0) || (bl_kk =? 0) || (bl_max_k <? bl_kk)) with false by reflexivity.
  replace ((18446744073709551608 <? bl_m) || negb ((bl_m + 7) / 8 =? 8 + (8 + (8 + (8 + 1199))) - 32)) with false by reflexivity.
  reflexivity.
Qed.

Lemma len_bl_bytes : forall b, len (bl_bytes (bl_of_block b)) = 1231.
Proof.
  intros b. destruct (bl_of_block_wf b) as [_ _ L]. unfold bl_bytes. rewrite !len_app, !len_le, L. reflexivity.
Qed.

(* the loop of OpenReader over a filter section written by the writer *)
Lemma load_filters_written : forall (obs : list (N * block)) fuel pre acc,
  Forall (fun ob => fst ob < 2 ^ 64 /\ N.of_nat (length (snd ob)) < 2 ^ 64) obs ->
  (length obs < fuel)%nat ->
  let sec := pre ++ filters_bytes (map (fun ob => (fst ob, bl_bytes (bl_of_block (snd ob)))) obs) in
  load_filters fuel sec (len pre) acc =
  inl (rev acc ++ map (fun ob => (fst ob, bl_of_block (snd ob))) obs).
Proof.
  induction obs as [|[o b] obs IH]; intros fuel pre acc HB Hf sec; subst sec.
  - cbn [map filters_bytes concat]. rewrite !app_nil_r.
    destruct fuel as [|fuel]; [cbn in Hf; lia|]. cbn [load_filters].
    replace (len pre <=? len pre) with true by (symmetry; apply N.leb_refl). reflexivity.
  - destruct fuel as [|fuel]; [cbn in Hf; lia|]. cbn [load_filters].
    inversion HB as [|? ? [Ho Hb] HBs]; subst. cbn [fst snd] in Ho, Hb.
    cbn [map filters_bytes concat fst snd].
    set (fb := bl_bytes (bl_of_block b)).
    set (rest := concat (map filter_entry (map (fun ob => (fst ob, bl_bytes (bl_of_block (snd ob)))) obs))).
    assert (Lfb : len fb = 1231) by apply len_bl_bytes.
    assert (Esec : pre ++ filter_entry (o, fb) ++ rest = pre ++ le 8 o ++ le 4 (len fb) ++ fb ++ rest).
    { unfold filter_entry. cbn [fst snd]. rewrite <- !app_assoc. reflexivity. }
    rewrite Esec.
    assert (LT : len (pre ++ le 8 o ++ le 4 (len fb) ++ fb ++ rest) = len pre + 12 + 1231 + len rest).
    { rewrite !len_app, !len_le, Lfb. lia. }
    rewrite LT.
    replace (len pre + 12 + 1231 + len rest <=? len pre) with false by (symmetry; apply N.leb_gt; lia).
    replace (len pre + 12 + 1231 + len rest <? len pre + 12) with false by (symmetry; apply N.ltb_ge; lia).
    assert (S1 : slice (pre ++ le 8 o ++ le 4 (len fb) ++ fb ++ rest) (len pre) 8 = le 8 o).
    { replace 8 with (len (le 8 o)) at 2 by apply len_le. apply slice_mid. }
    assert (S2 : slice (pre ++ le 8 o ++ le 4 (len fb) ++ fb ++ rest) (len pre + 8) 4 = le 4 (len fb)).
    { replace (len pre + 8) with (len (pre ++ le 8 o)) by (rewrite len_app, len_le; lia).
      rewrite (app_assoc pre (le 8 o)). replace 4 with (len (le 4 (len fb))) at 2 by apply len_le. apply slice_mid. }
    assert (S3 : slice (pre ++ le 8 o ++ le 4 (len fb) ++ fb ++ rest) (len pre + 12) (len fb) = fb).
    { replace (len pre + 12) with (len (pre ++ le 8 o ++ le 4 (len fb))) by (rewrite !len_app, !len_le; lia).
      replace (pre ++ le 8 o ++ le 4 (len fb) ++ fb ++ rest)
        with ((pre ++ le 8 o ++ le 4 (len fb)) ++ fb ++ rest) by (rewrite <- !app_assoc; reflexivity).
      apply slice_mid. }
    rewrite S1, S2, unle_le8, unle_le4 by (try exact Ho; rewrite Lfb; vm_compute; reflexivity).
    rewrite Lfb in *.
    replace ((1231 =? 0) || (len pre + 12 + 1231 + len rest <? 1231) ||
             (len pre + 12 + 1231 + len rest <? len pre + 12 + 1231) || (67108864 <? 1231)) with false.
    2:{ symmetry. rewrite !orb_false_iff. repeat split; try reflexivity; apply N.ltb_ge; lia. }
    rewrite S3. unfold fb at 1. rewrite (bl_load_bytes b Hb).
    specialize (IH fuel (pre ++ le 8 o ++ le 4 1231 ++ fb) ((o, bl_of_block b) :: acc) HBs).
    cbv zeta in IH. rewrite !len_app, !len_le, Lfb in IH.
    replace (len pre + (N.of_nat 8 + (N.of_nat 4 + 1231))) with (len pre + 12 + 1231) in IH by (cbn; lia).
    rewrite <- !app_assoc in IH. unfold filters_bytes in IH. fold rest in IH.
    rewrite IH by (cbn in Hf; lia).
    cbn [rev]. rewrite <- app_assoc. reflexivity.
Qed.

(* ------------------------------------------------------------------------------------- *)
(* 4. list helpers for the index-wise arguments                                           *)
(* ------------------------------------------------------------------------------------- *)

Lemma map_snd_combine : forall (A B : Type) (l1 : list A) (l2 : list B),
  length l1 = length l2 -> map snd (combine l1 l2) = l2.
Proof.
  induction l1 as [|a l1 IH]; intros [|b l2] H; cbn in *; try discriminate; [reflexivity|].
  f_equal. apply IH. lia.
Qed.

Lemma map_fst_combine : forall (A B : Type) (l1 : list A) (l2 : list B),
  length l1 = length l2 -> map fst (combine l1 l2) = l1.
Proof.
  induction l1 as [|a l1 IH]; intros [|b l2] H; cbn in *; try discriminate; [reflexivity|].
  f_equal. apply IH. lia.
Qed.

Lemma map_ext_Forall : forall (A B : Type) (f g : A -> B) l,
  Forall (fun x => f x = g x) l -> map f l = map g l.
Proof. intros A B f g l H. induction H as [|x l Hx _ IH]; cbn; [reflexivity|]. rewrite Hx, IH. reflexivity. Qed.

Lemma nth_map_Some : forall (A : Type) (l : list A) j d, nth j (map Some l) (Some d) = Some (nth j l d).
Proof. intros A l j d. change (Some d) with (Some d : option A). rewrite (map_nth (@Some A) l d j). reflexivity. Qed.

Lemma length_concat_le : forall (bs : list block) (ds : list bytes),
  Forall2 (fun b d => (length b <= length d)%nat) bs ds -> (length (concat bs) <= length (concat ds))%nat.
Proof.
  intros bs ds H. induction H as [|b d bs ds Hbd _ IH]; cbn; [lia|]. rewrite !app_length. lia.
Qed.

Lemma encoded_entries_le : forall b d, encode_block b = Some d -> (length b <= length d)%nat.
Proof.
  intros b d H. unfold encode_block in H. destruct b as [|e b]; [discriminate|].
  destruct (block_body (e :: b)) as [[body rs] ok] eqn:BB. destruct ok; [|discriminate].
  inversion H; subst. destruct (enc_entries_len _ _ _ _ _ _ _ _ BB) as [L _].
  unfold enc_trailer. rewrite !app_length. lia.
Qed.

Lemma len_enc_footer : forall ts a b c d e, len (enc_footer ts a b c d e) = 68.
Proof. intros. unfold enc_footer. rewrite !len_app, !len_le. reflexivity. Qed.

(* the filter of block j is found under block j's offset (offsets increase strictly) *)
Lemma find_filter_placed : forall (blocks : list block) ds o j b,
  length ds = length blocks -> Forall (fun d : bytes => 0 < len d) ds ->
  nth_error blocks j = Some b ->
  exists off d, nth_error (place_blocks ds o) j = Some (off, d) /\
    find_filter (map (fun ob : N * block => (fst ob, bl_of_block (snd ob)))
                     (combine (map fst (place_blocks ds o)) blocks)) off = Some (bl_of_block b).
Proof.
  induction blocks as [|b0 blocks IH]; intros ds o j b L P H; [destruct j; discriminate|].
  destruct ds as [|d0 ds]; [discriminate|]. inversion P as [|? ? Pd Pds]; subst.
  cbn [place_blocks map combine fst snd find_filter].
  destruct j as [|j]; cbn [nth_error] in *.
  - inversion H; subst. exists o, d0. split; [reflexivity|]. rewrite N.eqb_refl. reflexivity.
  - destruct (IH ds (o + len d0) j b) as (off & d & N1 & N2); [cbn in L; lia|exact Pds|exact H|].
    exists off, d. split; [exact N1|].
    pose proof (place_offsets_ge ds (o + len d0)) as G. rewrite Forall_forall in G.
    apply nth_error_In in N1. specialize (G _ N1). cbn in G.
    replace (o =? off) with false by (symmetry; apply N.eqb_neq; lia). exact N2.
Qed.

Lemma nth_error_combine : forall (A B : Type) (l1 : list A) (l2 : list B) j a b,
  nth_error l1 j = Some a -> nth_error l2 j = Some b -> nth_error (combine l1 l2) j = Some (a, b).
Proof.
  induction l1 as [|x l1 IH]; intros [|y l2] [|j] a b H1 H2; cbn in *; try discriminate.
  - inversion H1; inversion H2; reflexivity.
  - apply IH; assumption.
Qed.

Lemma nth_map_default : forall (A B : Type) (f : A -> B) l j x d,
  nth_error l j = Some x -> nth j (map f l) d = f x.
Proof.
  induction l as [|y l IH]; intros [|j] x d H; cbn in *; try discriminate.
  - inversion H; reflexivity.
  - apply IH. exact H.
Qed.

(* ------------------------------------------------------------------------------------- *)
(* 5. OpenReader on the bytes of Finish                                                   *)
(* ------------------------------------------------------------------------------------- *)

Lemma parse_locator_ok : forall off size, off < 2 ^ 64 -> size < 2 ^ 32 ->
  parse_locator (Some (locator off size)) = Some (off, size).
Proof.
  intros off size Ho Hs. unfold parse_locator, locator. rewrite len_app, !len_le.
  replace (N.of_nat 8 + N.of_nat 4 <? 12) with false by reflexivity.
  rewrite firstn_le_app, skipn_le_app, unle_le8 by exact Ho.
  rewrite <- (app_nil_r (le 4 size)), firstn_le_app, unle_le4 by exact Hs. reflexivity.
Qed.

(* small case analyses on the bloom switch, kept outside the main proof *)
Lemma has_bloom : forall (bloom : bool) (blocks : list block), blocks <> [] ->
  bloom && negb (match blocks with [] => true | _ => false end) = bloom.
Proof. intros [|] [|b bl] H; try congruence; reflexivity. Qed.

Lemma if_lt : forall (c : bool) a b m, a < m -> b < m -> (if c then a else b) < m.
Proof. intros [|]; auto. Qed.

Lemma vh_bloom : forall (bloom : bool) dl fl fsize,
  (bloom = true -> 0 < dl /\ 0 < fl) -> dl + fl + 68 <= fsize ->
  (if 0 <? (if bloom then dl else 0)
   then ((if bloom then dl else 0) <? fsize) && negb ((if bloom then fl else 0) =? 0) &&
        ((if bloom then dl else 0) + (if bloom then fl else 0) <=? fsize) &&
        ((if bloom then dl else 0) + (if bloom then fl else 0) <=? fsize - 68)
   else true) = true.
Proof.
  intros [|] dl fl fsize H L; [|reflexivity]. destruct (H eq_refl) as [H1 H2].
  replace (0 <? dl) with true by (symmetry; apply N.ltb_lt; exact H1).
  rewrite !andb_true_iff. repeat split.
  - apply N.ltb_lt. lia.
  - apply negb_true_iff. apply N.eqb_neq. lia.
  - apply N.leb_le. lia.
  - apply N.leb_le. lia.
Qed.

Lemma has_filters : forall (bloom : bool) dl fl, (bloom = true -> 0 < dl /\ 0 < fl) ->
  (0 <? (if bloom then dl else 0)) && (0 <? (if bloom then fl else 0)) = bloom.
Proof.
  intros [|] dl fl H; [|reflexivity]. destruct (H eq_refl) as [H1 H2].
  rewrite andb_true_iff. split; apply N.ltb_lt; assumption.
Qed.

Lemma open_tail : forall (c : bool) (X : list (N * bloom) + oerr) (R : bool -> list (N * bloom) -> reader) fs,
  (c = true -> X = inl fs) ->
  (if c then match X with inr e => inr e | inl f => inl (R true f) end else inl (R false [])) =
  inl (R c (if c then fs else [])).
Proof. intros [|] X R fs H; [rewrite (H eq_refl)|]; reflexivity. Qed.

Theorem file_roundtrip : forall bloom ts es parts,
  es <> [] -> Forall wfe es -> Forall keyne es -> ts < 2 ^ 64 ->
  file_parts bloom ts es = Some parts -> len (parts_bytes parts) < 2 ^ 32 ->
  exists tb, read_file (parts_bytes parts) = inl tb /\
    t_blocks tb = cut es /\ t_ikeys tb = map bfirst (cut es) /\ (forall j, t_bad tb j = false) /\
    t_hasf tb = bloom /\ filters_ok tb.
Proof.
  intros bloom ts es parts NE W K Hts HP Hsmall.
  destruct (cut_partition es) as [Pcat Pne].
  remember (cut es) as blocks eqn:Eb.
  assert (Bne : blocks <> []) by (intros E; rewrite E in Pcat; cbn in Pcat; congruence).
  assert (Wb : forall b, In b blocks -> Forall wfe b)
    by (intros b Hb; eapply Forall_concat_in; [rewrite Pcat; exact W|exact Hb]).
  assert (Kb : forall b, In b blocks -> Forall keyne b)
    by (intros b Hb; eapply Forall_concat_in; [rewrite Pcat; exact K|exact Hb]).
  assert (Nb : forall b, In b blocks -> b <> []).
  { unfold nonempty_blocks in Pne. rewrite Forall_forall in Pne. exact Pne. }
  (* unfold the writer *)
  unfold file_parts in HP. rewrite <- Eb in HP. rewrite (has_bloom bloom blocks Bne) in HP.
  set (encs := map encode_block blocks) in *.
  destruct (forallb is_some encs) eqn:FA; [|discriminate].
  set (ds := map unopt encs) in *.
  set (placed := place_blocks ds 0) in *.
  set (ients := map (fun pb : N * bytes * block =>
                       mkS (bfirst (snd pb)) 0 (Some (locator (fst (fst pb)) (len (snd (fst pb))))))
                    (combine placed blocks)) in *.
  destruct (encode_block ients) as [ib|] eqn:EI; [|discriminate].
  injection HP as HP'. subst parts.
  unfold parts_bytes in *. cbn [fp_blocks fp_filters fp_index fp_footer] in *.
  set (filters := if bloom then map (fun ob : N * block => (fst ob, bl_bytes (bl_of_block (snd ob))))
                                     (combine (map fst placed) blocks) else []) in *.
  set (DATA := concat (map snd placed)) in *.
  set (FILT := filters_bytes filters) in *.
  set (FOOT := enc_footer ts (len DATA + len FILT) (len ib) (N.of_nat (length es))
                          (if bloom then len DATA else 0) (if bloom then len FILT else 0)) in *.
  set (F := DATA ++ FILT ++ ib ++ FOOT) in *.
  (* lengths *)
  assert (LF : len F = len DATA + len FILT + len ib + 68).
  { unfold F. rewrite !len_app. unfold FOOT. rewrite len_enc_footer. lia. }
  assert (Hds : DATA = concat ds) by (unfold DATA, placed; rewrite place_snd; reflexivity).
  assert (Lds : length ds = length blocks) by (unfold ds, encs; rewrite !map_length; reflexivity).
  assert (Lpl : length placed = length blocks) by (unfold placed; rewrite place_length; exact Lds).
  assert (ES : Forall (fun b => is_some (encode_block b) = true) blocks).
  { rewrite forallb_forall in FA. rewrite Forall_forall. intros b Hb. apply FA. unfold encs. apply in_map. exact Hb. }
  (* the data blocks in the file *)
  pose proof (layout blocks [] (FILT ++ ib ++ FOOT) ES) as LAY. cbv zeta in LAY.
  fold encs ds in LAY. cbn [app] in LAY. change (len []) with 0 in LAY. fold placed in LAY.
  rewrite <- Hds in LAY. fold F in LAY.
  assert (FETCH : Forall (fun pb : N * bytes * block =>
                            pb_off pb < 2 ^ 64 /\ len (pb_bytes pb) < 2 ^ 32 /\ 0 < len (pb_bytes pb) /\
                            fetch_block F (pb_off pb) (len (pb_bytes pb)) = Some (pb_block pb))
                         (combine placed blocks)).
  { rewrite Forall_forall in LAY |- *. intros pb Hin. destruct (LAY pb Hin) as (A & B & _ & D).
    assert (Hb : In (pb_block pb) blocks).
    { destruct pb as [[o d] b]. apply in_combine_r in Hin. exact Hin. }
    pose proof (len_encoded_ge _ _ D) as G12.
    assert (Hd32 : len (pb_bytes pb) < 2 ^ 32) by lia.
    split; [lia|]. split; [exact Hd32|]. split; [lia|].
    unfold fetch_block. replace (len F <? pb_off pb + len (pb_bytes pb)) with false by (symmetry; apply N.ltb_ge; exact B).
    rewrite A. apply C11_block_roundtrip; [|exact D].
    apply (block_wf es (pb_block pb) (pb_bytes pb) W K); [rewrite <- Eb; exact Hb|exact D|exact Hd32]. }
  (* index block *)
  assert (IW : wf_block ients).
  { constructor.
    - unfold ients. destruct blocks as [|b0 bl]; [congruence|]. destruct placed; [cbn in Lpl; discriminate|]. discriminate.
    - unfold ients. rewrite Forall_map. rewrite Forall_forall. intros pb Hin. unfold wfe. cbn [sk sseq sval].
      assert (Hb : In (snd pb) blocks) by (destruct pb as [[o d] b]; apply in_combine_r in Hin; exact Hin).
      split; [|split].
      + pose proof (Wb _ Hb) as Wbb. pose proof (Nb _ Hb) as Nbb. destruct (snd pb) as [|e0 r]; [congruence|].
        cbn. inversion Wbb as [|? ? We Wr]. destruct We as (Hk & _). exact Hk.
      + vm_compute. reflexivity.
      + unfold locator. rewrite len_app, !len_le. vm_compute. reflexivity.
    - unfold ients. rewrite Forall_map. rewrite Forall_forall. intros pb Hin. unfold keyne. cbn [sk].
      assert (Hb : In (snd pb) blocks) by (destruct pb as [[o d] b]; apply in_combine_r in Hin; exact Hin).
      pose proof (Kb _ Hb) as Kbb. pose proof (Nb _ Hb) as Nbb. destruct (snd pb) as [|e0 r]; [congruence|].
      cbn. inversion Kbb as [|? ? Ke Kr]. exact Ke.
    - intros body rs ok BB. pose proof (body_le_encoded _ _ _ _ _ EI BB). lia. }
  destruct (block_roundtrip ients IW) as (ib' & ix & E1 & E2 & E3 & E4).
  rewrite EI in E1. inversion E1 as [E1']. rewrite <- E1' in E2, E3. clear E1 E1' ib'.
  pose proof (len_encoded_ge _ _ EI) as Lib.
  (* number of entries *)
  assert (ENC2 : Forall2 (fun (b : block) (d : bytes) => (length b <= length d)%nat) blocks ds).
  { unfold ds, encs. clear - ES. induction blocks as [|b bl IH]; [constructor|].
    inversion ES as [|? ? Eb0 ESr]. cbn [map]. constructor; [|apply IH; assumption].
    destruct (encode_block b) as [d|] eqn:E; [|discriminate]. cbn. eapply encoded_entries_le; eauto. }
  assert (Lnent : N.of_nat (length es) <= len DATA).
  { rewrite <- Pcat, Hds. unfold len. pose proof (length_concat_le _ _ ENC2). lia. }
  assert (Nent0 : N.of_nat (length es) <> 0) by (destruct es; [congruence|cbn; lia]).
  assert (P0 : Forall (fun d : bytes => 0 < len d) ds).
  { unfold ds, encs. clear - ES. induction blocks as [|b0 bl IH]; [constructor|]. inversion ES as [|? ? Eb0 ESr].
    cbn [map]. constructor; [|apply IH; assumption].
    destruct (encode_block b0) as [d|] eqn:E; [|discriminate]. cbn. pose proof (len_encoded_ge _ _ E). lia. }
  assert (LD0 : 0 < len DATA).
  { rewrite Hds. destruct ds as [|d0 dr]; [destruct blocks; [congruence|discriminate]|].
    inversion P0 as [|? ? Pd Pr]. cbn [concat]. rewrite len_app. lia. }
  assert (LFI : bloom = true -> 0 < len DATA /\ 0 < len FILT).
  { intros Hb. split; [exact LD0|]. unfold FILT, filters. rewrite Hb.
    destruct blocks as [|b0 bl]; [congruence|]. destruct placed as [|p0 pl]; [cbn in Lpl; discriminate|].
    cbn [map combine filters_bytes concat]. unfold filter_entry at 1. rewrite !len_app, !len_le. lia. }
  (* open_file *)
  unfold read_file, open_file. rewrite LF. unfold FSIZE, footer_FooterSize.
  replace (len DATA + len FILT + len ib + 68 <? 68) with false by (symmetry; apply N.ltb_ge; lia).
  assert (SF : slice F (len DATA + len FILT + len ib + 68 - 68) 68 = FOOT).
  { replace (len DATA + len FILT + len ib + 68 - 68) with (len F - len FOOT)
      by (rewrite LF; unfold FOOT; rewrite len_enc_footer; lia).
    replace 68 with (len FOOT) at 2 by (unfold FOOT; apply len_enc_footer).
    unfold F. rewrite !app_assoc. apply slice_suffix. }
  rewrite SF. unfold FOOT at 1. rewrite footer_roundtrip.
  2:{ unfold footer_fields_ok. repeat split; try lia; apply if_lt; lia. }
  cbn [ft_ioff ft_isize ft_boff ft_bsize ft_nent].
  assert (VH : validate_header (mkFt 2 ts (len DATA + len FILT) (len ib) (N.of_nat (length es))
                                     (if bloom then len DATA else 0) (if bloom then len FILT else 0))
                               (len DATA + len FILT + len ib + 68) = true).
  { unfold validate_header. cbn [ft_ioff ft_isize ft_boff ft_bsize ft_nent]. unfold FSIZE, footer_FooterSize.
    rewrite (vh_bloom bloom (len DATA) (len FILT) (len DATA + len FILT + len ib + 68) LFI) by lia.
    rewrite !andb_true_iff. repeat split.
    - apply N.ltb_lt. lia.
    - apply negb_true_iff. apply N.eqb_neq. lia.
    - apply N.leb_le. lia.
    - apply N.leb_le. lia.
    - apply negb_true_iff. apply N.eqb_neq. exact Nent0. }
  rewrite VH. cbn [negb].
  assert (SI : slice F (len DATA + len FILT) (len ib) = ib).
  { unfold F. rewrite app_assoc. replace (len DATA + len FILT) with (len (DATA ++ FILT)) by apply len_app.
    apply slice_mid. }
  rewrite SI, E2.
  (* filters *)
  assert (OBS : Forall (fun ob : N * block => fst ob < 2 ^ 64 /\ N.of_nat (length (snd ob)) < 2 ^ 64)
                       (combine (map fst placed) blocks)).
  { rewrite Forall_forall. intros [o b] Hin. cbn [fst snd].
    assert (Hb : In b blocks) by (apply in_combine_r in Hin; exact Hin).
    assert (Ho : In o (map fst placed)) by (apply in_combine_l in Hin; exact Hin).
    apply in_map_iff in Ho. destruct Ho as ([o' d] & Eo & Hod). cbn in Eo. rewrite Eo in Hod. clear Eo o'.
    split.
    - (* offsets are below the file size *)
      rewrite Forall_forall in LAY.
      assert (exists b', In ((o, d), b') (combine placed blocks)) as [b' Hin'].
      { clear - Hod Lpl. revert Lpl Hod. generalize blocks. induction placed as [|p pl IH]; intros [|b0 bl] L H; cbn in *; try lia; try contradiction.
        destruct H as [->|H]; [eexists; left; reflexivity|].
        destruct (IH bl) as [b' Hb']; [lia|exact H|]. exists b'. right. exact Hb'. }
      destruct (LAY _ Hin') as (_ & B & _ & _). unfold pb_off, pb_bytes in B. cbn in B. lia.
    - assert (HL : (length b <= length (concat blocks))%nat).
      { clear - Hb. induction blocks as [|b0 bl IH]; [destruct Hb|]. cbn. rewrite app_length.
        destruct Hb as [->|Hb]; [lia|]. specialize (IH Hb). lia. }
      rewrite Pcat in HL. lia. }
  rewrite (has_filters bloom (len DATA) (len FILT) LFI).
  set (fs := map (fun ob : N * block => (fst ob, bl_of_block (snd ob))) (combine (map fst placed) blocks)).
  assert (LFW : bloom = true ->
                load_filters (S (N.to_nat (if bloom then len FILT else 0)))
                             (slice F (if bloom then len DATA else 0) (if bloom then len FILT else 0)) 0 [] = inl fs).
  { intros Hb. rewrite Hb.
    assert (SFi : slice F (len DATA) (len FILT) = FILT) by (unfold F; apply slice_mid).
    rewrite SFi.
    pose proof (load_filters_written (combine (map fst placed) blocks) (S (N.to_nat (len FILT))) [] [] OBS) as G.
    cbv zeta in G. cbn [app rev] in G. change (len []) with 0 in G.
    assert (EF : FILT = filters_bytes (map (fun ob : N * block => (fst ob, bl_bytes (bl_of_block (snd ob))))
                                           (combine (map fst placed) blocks))).
    { unfold FILT, filters. rewrite Hb. reflexivity. }
    rewrite <- EF in G. apply G.
    (* fuel: every stored filter takes more than one byte *)
    rewrite to_nat_len, EF.
    assert (GL : forall l : list (N * block),
              (length l <= length (filters_bytes (map (fun ob : N * block => (fst ob, bl_bytes (bl_of_block (snd ob)))) l)))%nat).
    { induction l as [|ob l IH]; cbn [map filters_bytes concat length]; [lia|].
      unfold filter_entry at 1. rewrite !app_length, !le_length. unfold filters_bytes in IH. lia. }
    specialize (GL (combine (map fst placed) blocks)). lia. }
  rewrite (open_tail bloom _ (fun h f => mkRd F (mkFt 2 ts (len DATA + len FILT) (len ib) (N.of_nat (length es))
                                                    (if bloom then len DATA else 0) (if bloom then len FILT else 0)) ix h f) fs LFW).
  eexists. split; [reflexivity|].
  (* the view *)
  unfold view. cbn [rd_index rd_data rd_hasf rd_filters]. rewrite E4.
  assert (M1 : map (fun e => parse_locator (sval e)) ients =
               map (fun pb : N * bytes * block => Some (pb_off pb, len (pb_bytes pb))) (combine placed blocks)).
  { unfold ients. rewrite map_map. apply map_ext_Forall.
    eapply Forall_impl; [|exact FETCH]. cbn. intros pb (A & B & _ & _). apply parse_locator_ok; assumption. }
  assert (M2 : map (fun l : option (N * N) => match l with
                                            | Some (off, size) => fetch_block F off size
                                            | None => None
                                            end)
                   (map (fun e => parse_locator (sval e)) ients) = map Some blocks).
  { rewrite M1, map_map.
    rewrite <- (map_snd_combine _ _ placed blocks Lpl) at 2. rewrite map_map. apply map_ext_Forall.
    eapply Forall_impl; [|exact FETCH]. cbn. intros pb (_ & _ & _ & D). exact D. }
  cbn [t_blocks t_ikeys t_bad t_hasf t_filter]. rewrite M2.
  split; [|split; [|split; [|split]]].
  - rewrite map_map. cbn. apply map_id.
  - unfold ients. rewrite map_map. cbn [sk].
    rewrite <- (map_snd_combine _ _ placed blocks Lpl) at 2. rewrite map_map. reflexivity.
  - intros j. rewrite nth_map_Some. reflexivity.
  - reflexivity.
  - (* filters: the one found for block j was built from block j *)
    intros HF j b f Hj Hf e He. cbn [t_hasf t_blocks t_filter] in *.
    rewrite map_map in Hj. cbn in Hj. rewrite map_id in Hj.
    destruct (find_filter_placed blocks ds 0 j b Lds P0 Hj) as (off & d & N1 & N2). fold placed in N1, N2. fold fs in N2.
    rewrite M1 in Hf.
    rewrite (nth_map_default _ _ _ (combine placed blocks) j ((off, d), b) None) in Hf
      by (apply nth_error_combine; assumption).
    unfold pb_off in Hf. cbn [fst snd] in Hf. rewrite HF in Hf. rewrite N2 in Hf. cbn in Hf.
    inversion Hf as [Hf']. apply bloom_complete. exact He.
Qed.

(* everything the logical layer proves holds for the table read from the bytes *)
Corollary file_holds : forall bloom ts es parts,
  es <> [] -> ascending es = true -> Forall wfe es -> Forall keyne es -> ts < 2 ^ 64 ->
  file_parts bloom ts es = Some parts -> len (parts_bytes parts) < 2 ^ 32 ->
  exists tb, read_file (parts_bytes parts) = inl tb /\ holds tb es /\ filters_ok tb.
Proof.
  intros bloom ts es parts NE A W K Hts HP Hs.
  destruct (file_roundtrip bloom ts es parts NE W K Hts HP Hs) as (tb & R & B & I & G & _ & Fo).
  exists tb. split; [exact R|]. split; [|exact Fo].
  destruct (cut_partition es) as [P N]. constructor.
  - exact A.
  - unfold keys_ok. eapply Forall_impl; [|exact K]. cbn. intros e Ke. unfold keyne in Ke.
    destruct (sk e); [congruence|reflexivity].
  - rewrite B. exact P.
  - rewrite B. exact N.
  - exact G.
  - unfold ikeys. rewrite I, B. reflexivity.
Qed.

(* non-vacuity: two blocks (a value large enough to close the first one), filters on *)
Example ex_file_roundtrip :
  let es := [mkS [97] 1 (Some (N.iter 65503 (cons 0) [])); mkS [98] 2 None; mkS [98; 99] 3 (Some [])] in
  match file_parts true 5 es with
  | Some parts =>
    match read_file (parts_bytes parts) with
    | inl tb => map (map sk) (t_blocks tb) = [[[97]]; [[98]; [98; 99]]] /\
                t_get tb [98] = GTomb /\ t_get tb [98; 99] = GVal [] /\ t_get tb [99] = GNotFound /\
                map sk (collect tb 4 (ti_seek_first tb)) = [[97]; [98]; [98; 99]]
    | inr _ => False
    end
  | None => False
  end.
Proof. vm_compute. repeat split. Qed.

(* ------------------------------------------------------------------------------------- *)
(* 6. the statements exported to Props/C11.v                                              *)
(* ------------------------------------------------------------------------------------- *)

(* guards of the byte format, as a boolean on the logical guard of SSTable.v *)
Lemma wf_sentry_wfe : forall e, wf_sentry e = true -> wfe e /\ keyne e.
Proof.
  intros e H. unfold wf_sentry in H. repeat (apply andb_true_iff in H; destruct H as [H ?]).
  apply N.leb_le in H. apply N.leb_le in H4. apply N.ltb_lt in H3. apply N.ltb_lt in H2.
  split.
  - unfold wfe. split; [exact H4|]. split; [exact H2|]. unfold val_len in H3.
    destruct (sval e); [exact H3|exact I].
  - unfold keyne. intros E. rewrite E in H. cbn in H. lia.
Qed.

Lemma wf_all : forall es, forallb wf_sentry es = true -> Forall wfe es /\ Forall keyne es.
Proof.
  intros es H. rewrite forallb_forall in H. split; rewrite Forall_forall; intros e He;
    destruct (wf_sentry_wfe e (H e He)); assumption.
Qed.

(* C11 on bytes: the table that OpenReader builds from the bytes Finish wrote reads back exactly
   es — forward iteration, Seek + Next, SeekToLast, Get (with the filters really stored) *)
Theorem file_reads_back : forall bloom ts es parts,
  es <> [] -> ascending es = true -> forallb wf_sentry es = true -> ts < 2 ^ 64 ->
  file_parts bloom ts es = Some parts -> len (parts_bytes parts) < 2 ^ 32 ->
  exists tb, read_file (parts_bytes parts) = inl tb /\
    collect tb (S (length es)) (ti_seek_first tb) = es /\
    collect tb (S (length es)) (fst (ti_next tb (ti_new tb))) = es /\
    (forall t, collect tb (S (length es)) (fst (ti_seek tb t)) = drop_lt t es /\
               ti_cur tb (fst (ti_seek tb t)) = first_ge t es /\
               snd (ti_seek tb t) = ti_valid tb (fst (ti_seek tb t))) /\
    ti_cur tb (ti_seek_last tb) = Some (last es (mkS [] 0 None)) /\
    (forall k, t_get tb k = lookup k es).
Proof.
  intros bloom ts es parts NE A WF Hts HP Hs. destruct (wf_all es WF) as [W K].
  destruct (file_holds bloom ts es parts NE A W K Hts HP Hs) as (tb & R & H & Fo).
  exists tb. split; [exact R|].
  destruct (iterate_partition tb es H) as [I1 I2].
  split; [exact I1|]. split; [exact I2|]. split.
  - intros t. destruct (seek_partition tb es t H NE) as (S1 & S2 & S3 & _). auto.
  - split.
    + apply (seek_last_partition tb es H NE).
    + intros k. apply get_partition; assumption.
Qed.

(* the writer never fails on entries inside the guards *)
Theorem file_written : forall bloom ts es,
  es <> [] -> forallb wf_sentry es = true -> exists parts, file_parts bloom ts es = Some parts.
Proof.
  intros bloom ts es NE WF. destruct (wf_all es WF) as [W K].
  destruct (cut_partition es) as [Pcat Pne].
  unfold file_parts.
  assert (FA : forallb is_some (map encode_block (cut es)) = true).
  { rewrite forallb_forall. intros o Ho. apply in_map_iff in Ho. destruct Ho as (b & <- & Hb).
    destruct (encode_some b) as (body & rs & _ & E).
    - unfold nonempty_blocks in Pne. rewrite Forall_forall in Pne. apply Pne. exact Hb.
    - eapply Forall_concat_in; [rewrite Pcat; exact W|exact Hb].
    - rewrite E. reflexivity. }
  rewrite FA.
  set (placed := place_blocks (map unopt (map encode_block (cut es))) 0).
  set (ients := map _ (combine placed (cut es))).
  destruct (encode_some ients) as (body & rs & _ & E).
  - intros E0. apply (f_equal (@length _)) in E0. unfold ients in E0.
    rewrite map_length, combine_length in E0. unfold placed in E0.
    rewrite place_length, !map_length, Nat.min_id in E0.
    destruct (cut es); [cbn in Pcat; congruence|discriminate].
  - unfold ients. rewrite Forall_map, Forall_forall. intros pb Hin. unfold wfe. cbn [sk sseq sval].
    assert (Hb : In (snd pb) (cut es)) by (destruct pb as [[o d] b]; apply in_combine_r in Hin; exact Hin).
    assert (Wb : Forall wfe (snd pb)) by (eapply Forall_concat_in; [rewrite Pcat; exact W|exact Hb]).
    assert (Nb : snd pb <> []) by (unfold nonempty_blocks in Pne; rewrite Forall_forall in Pne; apply Pne; exact Hb).
    split; [|split].
    + destruct (snd pb) as [|e0 r]; [congruence|]. cbn. inversion Wb as [|? ? We Wr]. destruct We as (Hk & _). exact Hk.
    + vm_compute. reflexivity.
    + unfold locator. rewrite len_app, !len_le. vm_compute. reflexivity.
  - rewrite E. eauto.
Qed.

(* the complete statement about single-byte alterations of a whole file, not yet proved as one
   theorem: what remains is the composition of the region lemmas (block_detect for the data and
   index blocks, footer_detect for the footer, the filter section handled by
   get_missing_filters / C11_filter_bit_refuted) with the locality of slices under upd *)
Definition accepted_altered_bytes : Prop :=
  (exists p p' : bytes, length p = length p' /\ p <> p' /\ xxh64 p = xxh64 p') \/
  (exists d : bytes, unle (slice d 8 4) < 2 /\ unle (slice d 44 8) = xxh64 (slice d 0 44)).

Definition C11_corrupt_statement : Prop :=
  forall bloom ts es parts i x,
  es <> [] -> ascending es = true -> forallb wf_sentry es = true -> ts < 2 ^ 64 ->
  file_parts bloom ts es = Some parts -> len (parts_bytes parts) < 2 ^ 32 ->
  (i < length (parts_bytes parts))%nat -> x < 256 -> nth i (parts_bytes parts) 0 <> x ->
  match read_file (upd (parts_bytes parts) i x) with
  | inr _ => True
  | inl tb' =>
    (forall j e, t_bad tb' j = false -> In e (nth j (t_blocks tb') []) -> In e es) \/
    accepted_altered_bytes
  end.
