(* EngineCrashProofs.v — crash and recovery (C02), transaction atomicity (C03), on top of
   EngineProofs.v.
     Part G: the log files split the history at write boundaries ([InvF]); one preservation
             lemma per operation; [CInv] = Inv /\ InvF holds for every run.
     Part H: crash = cut of the newest file; recovery from the surviving prefix
             (crash_recover_CInv) and the C02 theorems.
     Part I: C03 (atomic batches, torn write, last-op-wins of the transaction buffer). *)
From Coq Require Import PeanoNat Lia ZifyN ZifyNat ZifyBool Sorted Permutation.
From KV Require Import Bytes Spec Memtable MemtableProofs WalCodec Engine EngineProofs.
Open Scope N_scope.

(* ------------------------------------------------------------------------------------ *)
(* Specification-side definitions                                                        *)
(* ------------------------------------------------------------------------------------ *)

(* sequence numbers logged in already closed (non-newest) log files *)
Definition closed_seqs (s : st) : list N := map w_seq (concat (removelast (wal_files s))).

(* a write with number n survives a process stop with bound q *)
Definition survives (s : st) (q : N) (n : N) : bool :=
  (n <? q) || existsb (N.eqb n) (closed_seqs s).

(* how many of the acknowledged writes (numbers qs, in order) survive *)
Definition surv_count (s : st) (q : N) (qs : list N) : nat := length (filter (survives s q) qs).

Module TestsC.
  Definition k1 : bytes := [1]. Definition k2 : bytes := [2]. Definition k3 : bytes := [1;0].
  Definition v (n : N) : bytes := [n; n].
  Definition cA := mkCfg 40 10.
  Definition pA : list op :=
    [OPut k1 (v 1); OPut k2 (v 2); OPut k3 (v 3); OFlush; OPut k1 (v 4); ODel k2;
     OBatch [(k2, Some (v 5)); (k3, None); (k2, Some (v 6)); (k1, None)]; OBatch [];
     OReopen; OPut k3 (v 7); OCommit [(k1, Some (v 8)); (k1, Some (v 9)); (k2, None)];
     OPut k2 (v 10)].
  Definition chk (c : config) (p : list op) (q : N) (ks : list bytes) :=
    let s := run c p in
    let m := surv_count s q (ack_seqs (init c) p) in
    (lost_log (recover (crash s q)), m,
     map (fun k => (get (recover (crash s q)) k, spec_get (firstn m (acked (init c) p)) k)) ks).
  (* per bound q: log lost?, prefix length m, per key (get after recovery, spec of the prefix) *)
  Eval vm_compute in map (fun q => chk cA pA q [k1; k2; k3]) [0; 5; 7; 9; 100].
End TestsC.

(* ------------------------------------------------------------------------------------ *)
(* Part G: the log files split the history at write boundaries                             *)
(* ------------------------------------------------------------------------------------ *)

Lemma wentries_concat : forall hs, wentries (concat hs) = concat (map wentries hs).
Proof.
  induction hs as [|h hs IH]; [reflexivity|].
  cbn [concat map]. rewrite wentries_app, IH. reflexivity.
Qed.

Lemma log_append_snoc : forall F f es, log_append (F ++ [f]) es = F ++ [f ++ es].
Proof.
  intros F f es. unfold log_append. rewrite rev_app_distr. cbn [rev app].
  rewrite rev_involutive. reflexivity.
Qed.

Lemma map_last_snoc : forall (A : Type) (g : A -> A) F f, map_last g (F ++ [f]) = F ++ [g f].
Proof.
  intros A g F f. unfold map_last. rewrite rev_app_distr. cbn [rev app].
  rewrite rev_involutive. reflexivity.
Qed.

(* hs0: the writes logged in the closed files, file by file; hl: those of the newest file.
   The SSTables only hold keys written in closed files: a flush rotates the log first. *)
Definition InvF (s : st) (h : hist) : Prop :=
  exists hs0 hl,
    h = concat hs0 ++ hl /\
    wal_files s = map wentries hs0 ++ [wentries hl] /\
    (lost_log s = false -> Forall (Forall (key_written (concat hs0))) (tabs_of s)).

Lemma InvF_init : forall c, InvF (init c) [].
Proof.
  intros c. exists [], []. split; [reflexivity|]. split; [reflexivity|].
  intros _. constructor.
Qed.

Lemma InvF_write : forall s h ops w,
  Inv s h -> InvF s h -> effects w = ops ->
  InvF (write_state s ops) (h ++ [(wal_next s, w)]).
Proof.
  intros s h ops w I (hs0 & hl & Hh & Hf & Hs) Hw.
  pose proof (add_all_spec (wal_next s) ops
    (upd_wal s (wal_next s + 1)
       (log_append (wal_files s) (map (bop_entry (wal_next s)) ops)))) as A.
  cbn zeta in A. fold (write_state s ops) in A.
  set (s2 := write_state s ops) in *. clearbody s2. unfold upd_wal in A.
  revert A. proj. intros (A1 & A2 & A3 & A4 & A5 & A6 & A7 & A8 & A9 & A10 & A11).
  exists hs0, (hl ++ [(wal_next s, w)]). split; [|split].
  - rewrite Hh, app_assoc. reflexivity.
  - rewrite A3, Hf, log_append_snoc, wentries_app, wentries_single.
    unfold wstamp. cbn [fst snd]. rewrite Hw. reflexivity.
  - unfold tabs_of in *. rewrite A9, A6. exact Hs.
Qed.

Lemma InvF_maybe_schedule : forall s h, InvF s h -> InvF (maybe_schedule s) h.
Proof.
  intros s h F. unfold maybe_schedule. destruct (flush_pending s); [|exact F].
  destruct F as (hs0 & hl & Hh & Hf & Hs). exists hs0, hl.
  unfold schedule_flush, tabs_of in *; proj. repeat split; assumption.
Qed.

Lemma InvF_apply_batch : forall s h ops w,
  Inv s h -> InvF s h -> effects w = ops ->
  InvF (fst (apply_batch s ops))
       (match ops, snd (apply_batch s ops) with
        | _ :: _, WrOk q => h ++ [(q, w)]
        | _, _ => h
        end).
Proof.
  intros s h ops w I F Hw. destruct ops as [|o r]; [exact F|].
  destruct (MaxSeq <=? wal_next s) eqn:M.
  - rewrite apply_batch_overflow by (assumption || discriminate). exact F.
  - rewrite apply_batch_ok by (assumption || discriminate). cbn [fst snd].
    apply InvF_maybe_schedule. apply InvF_write; assumption.
Qed.

(* FlushMemTables either does nothing or starts a new log file *)
Lemma flush_wal_files : forall s, flush s = s \/ wal_files (flush s) = wal_files s ++ [[]].
Proof.
  intros s. unfold flush. destruct (pending s) as [|p ps] eqn:P.
  - destruct (0 <? mt_size (active s)); [right|left; reflexivity].
    destruct (flush_table_spec (rotate s) (active s)) as (_ & _ & G3 & _). rewrite G3. reflexivity.
  - right. destruct (fold_flush_table_spec (p :: ps) (rotate (clear_pending s))) as (_ & _ & G3 & _).
    rewrite G3. reflexivity.
Qed.

Lemma InvF_flush : forall s h, Inv s h -> InvF s h -> InvF (flush s) h.
Proof.
  intros s h I F. destruct (flush_wal_files s) as [E|E]; [rewrite E; exact F|].
  destruct F as (hs0 & hl & Hh & Hf & Hs). exists (hs0 ++ [hl]), []. split; [|split].
  - rewrite concat_app. cbn [concat]. rewrite !app_nil_r. exact Hh.
  - rewrite E, Hf, map_app. reflexivity.
  - intros Hl. rewrite concat_app. cbn [concat]. rewrite app_nil_r, <- Hh.
    exact (inv_ssts _ _ (Inv_flush s h I) Hl).
Qed.

Lemma tabs_sst_sort : forall (P : list sentry -> Prop) l,
  Forall P (map s_entries l) -> Forall P (map s_entries (sst_sort l)).
Proof.
  intros P l H. rewrite Forall_forall in *. intros t Ht. apply in_map_iff in Ht.
  destruct Ht as (x & <- & Hx). apply (proj1 (sst_sort_in _ _)) in Hx. apply H. apply in_map. exact Hx.
Qed.

Lemma reopen_files_snoc : forall s F f, wal_files s = F ++ [f] -> reopen_files s = F ++ [f].
Proof.
  intros s F f H. unfold reopen_files. rewrite H. destruct F; reflexivity.
Qed.

Lemma InvF_reopen_ok : forall s h tbls maxseq,
  InvF s h -> recovered s = Some (tbls, maxseq) -> InvF (reopen s) h.
Proof.
  intros s h tbls maxseq (hs0 & hl & Hh & Hf & Hs) R. rewrite (reopen_some s tbls maxseq R).
  exists hs0, hl. unfold tabs_of in *; proj. split; [exact Hh|]. split.
  - apply reopen_files_snoc. exact Hf.
  - intros Hl. apply tabs_sst_sort. exact (Hs Hl).
Qed.

Lemma InvF_reopen_fail : forall s, recovered s = None -> InvF (reopen s) [].
Proof.
  intros s R. rewrite (reopen_none s R). exists [], []. proj.
  split; [reflexivity|]. split; [reflexivity|discriminate].
Qed.

Definition CInv (s : st) (h : hist) : Prop := Inv s h /\ InvF s h.

Lemma CInv_step : forall s h o, CInv s h -> CInv (step s o) (step_hist s o h).
Proof.
  intros s h o [I F]. split; [apply Inv_step; exact I|].
  destruct o as [k v|k|ops|ops|ops| | |k]; cbn [step step_hist]; try exact F.
  - rewrite put_as_batch. exact (InvF_apply_batch s h [(k, Some v)] (WPut k v) I F eq_refl).
  - rewrite del_as_batch. exact (InvF_apply_batch s h [(k, None)] (WDel k) I F eq_refl).
  - exact (InvF_apply_batch s h ops (WBatch ops) I F eq_refl).
  - rewrite tx_commit_as_batch.
    pose proof (InvF_apply_batch s h (buffer_ops ops) (WBatch (buffer_ops ops)) I F eq_refl) as B.
    destruct (buffer_ops ops); exact B.
  - apply InvF_flush; assumption.
  - destruct (recovered s) as [[tbls maxseq]|] eqn:R.
    + eapply InvF_reopen_ok; eassumption.
    + apply InvF_reopen_fail. exact R.
Qed.

Lemma CInv_steps : forall ops s h, CInv s h -> CInv (fold_left step ops s) (epoch s ops h).
Proof.
  induction ops as [|o r IH]; intros s h C; [exact C|].
  cbn [fold_left epoch]. apply IH. apply CInv_step. exact C.
Qed.

Lemma CInv_run : forall c ops, CInv (run c ops) (epoch (init c) ops []).
Proof. intros. unfold run. apply CInv_steps. split; [apply Inv_init|apply InvF_init]. Qed.

(* ------------------------------------------------------------------------------------ *)
(* Part H: crash and recovery                                                              *)
(* ------------------------------------------------------------------------------------ *)

Definition below (q : N) (p : N * wop) : bool := fst p <? q.

Lemma cut_seq_wstamp : forall q p, cut_seq q (wstamp p) = if below q p then wstamp p else [].
Proof.
  intros q p. unfold cut_seq, wstamp, below.
  induction (effects (snd p)) as [|o l IH]; cbn [map filter].
  - destruct (fst p <? q); reflexivity.
  - rewrite wseq_bop_entry, IH. destruct (fst p <? q); reflexivity.
Qed.

Lemma cut_seq_wentries : forall q l, cut_seq q (wentries l) = wentries (filter (below q) l).
Proof.
  intros q l. induction l as [|p l IH]; [reflexivity|].
  change (wentries (p :: l)) with (wstamp p ++ wentries l).
  unfold cut_seq in *. rewrite filter_app. fold (cut_seq q (wstamp p)).
  rewrite cut_seq_wstamp, IH. cbn [filter]. destruct (below q p); reflexivity.
Qed.

Lemma filter_below_nil : forall q a l,
  Forall (fun n => a < n) (map fst l) -> (a <? q) = false -> filter (below q) l = [].
Proof.
  intros q a l H B. induction l as [|p l IH]; [reflexivity|].
  cbn [map] in H. inversion H as [|? ? Hp Hl]; subst. cbn [filter]. unfold below at 1.
  assert (E : (fst p <? q) = false) by lia. rewrite E. apply IH. exact Hl.
Qed.

(* on a strictly increasing list the writes below q are a prefix *)
Lemma filter_below_prefix : forall q l,
  StronglySorted N.lt (map fst l) ->
  filter (below q) l = firstn (length (filter (below q) l)) l.
Proof.
  intros q l. induction l as [|p l IH]; intros Hs; [reflexivity|].
  cbn [map] in Hs. inversion Hs as [|? ? Hs' Hf]; subst. cbn [filter].
  destruct (below q p) eqn:B.
  - cbn [length firstn]. rewrite <- IH by exact Hs'. reflexivity.
  - assert (E : filter (below q) l = []).
    { apply filter_below_nil with (a := fst p); [exact Hf|exact B]. }
    rewrite E. reflexivity.
Qed.

Lemma SS_firstn : forall (A : Type) (R : A -> A -> Prop) n l,
  StronglySorted R l -> StronglySorted R (firstn n l).
Proof.
  intros A R n l H. rewrite <- (firstn_skipn n l) in H. apply SS_app in H. tauto.
Qed.

Lemma Forall_firstn_ : forall (A : Type) (P : A -> Prop) n l, Forall P l -> Forall P (firstn n l).
Proof.
  intros A P n l H. rewrite <- (firstn_skipn n l) in H. apply Forall_app in H. tauto.
Qed.

Lemma existsb_eqb_in : forall n l, existsb (N.eqb n) l = true <-> In n l.
Proof.
  intros n l. rewrite existsb_exists. split.
  - intros (x & Hx & E). apply N.eqb_eq in E. subst. exact Hx.
  - intros H. exists n. split; [exact H|apply N.eqb_refl].
Qed.

Lemma filter_map_length : forall (A B : Type) (f : B -> bool) (g : A -> B) l,
  length (filter f (map g l)) = length (filter (fun x => f (g x)) l).
Proof.
  intros A B f g l. induction l as [|x l IH]; [reflexivity|].
  cbn [map filter]. destruct (f (g x)); cbn [length]; rewrite IH; reflexivity.
Qed.

Lemma seq_in_wentries : forall l p,
  In p l -> effects (snd p) <> [] -> In (fst p) (map w_seq (wentries l)).
Proof.
  intros l p Hp Hne. destruct (effects (snd p)) as [|o r] eqn:E; [congruence|].
  apply in_map_iff. exists (bop_entry (fst p) o). split; [apply wseq_bop_entry|].
  apply in_wentries. exists p, o. split; [exact Hp|]. split; [rewrite E; left; reflexivity|reflexivity].
Qed.

Lemma wentries_seq_from : forall l n, In n (map w_seq (wentries l)) -> In n (map fst l).
Proof.
  intros l n H. apply in_map_iff in H. destruct H as (e & <- & He).
  apply in_wentries in He. destruct He as (p & o & Hp & _ & ->). rewrite wseq_bop_entry.
  apply in_map. exact Hp.
Qed.

(* the number of survivors, from the file split *)
Lemma surv_count_split : forall s q hs0 hl,
  wal_files s = map wentries hs0 ++ [wentries hl] ->
  StronglySorted N.lt (map fst (concat hs0 ++ hl)) ->
  Forall (fun p => effects (snd p) <> []) (concat hs0 ++ hl) ->
  surv_count s q (map fst (concat hs0 ++ hl))
  = (length (concat hs0) + length (filter (below q) hl))%nat.
Proof.
  intros s q hs0 hl Hf Hs Hne.
  assert (Hc : closed_seqs s = map w_seq (wentries (concat hs0))).
  { unfold closed_seqs. rewrite Hf, removelast_last, wentries_concat. reflexivity. }
  unfold surv_count. rewrite map_app, filter_app, app_length.
  rewrite map_app in Hs. apply SS_app in Hs. destruct Hs as (_ & _ & Hcross).
  apply Forall_app in Hne. destruct Hne as [Hne0 _]. f_equal.
  - rewrite filter_all; [apply map_length|].
    intros n Hn. apply in_map_iff in Hn. destruct Hn as (p & <- & Hp).
    unfold survives. apply orb_true_iff. right. apply existsb_eqb_in. rewrite Hc.
    apply seq_in_wentries; [exact Hp|]. rewrite Forall_forall in Hne0. exact (Hne0 p Hp).
  - rewrite filter_map_length. f_equal. apply filter_ext_in. intros p Hp. unfold survives, below.
    destruct (existsb (N.eqb (fst p)) (closed_seqs s)) eqn:E; [|apply orb_false_r].
    exfalso. apply existsb_eqb_in in E. rewrite Hc in E. apply wentries_seq_from in E.
    specialize (Hcross (fst p) (fst p) E (in_map fst _ _ Hp)). lia.
Qed.

Lemma key_written_mono : forall h1 h2 x, key_written h1 x -> key_written (h1 ++ h2) x.
Proof.
  intros h1 h2 x H. unfold key_written in *. rewrite entries_app, map_app.
  apply in_or_app. left. exact H.
Qed.

(* what is on disk after a process stop with bound q: the files of a prefix of the history *)
Lemma crash_split : forall s h q, CInv s h ->
  exists hs0 hl',
    firstn (surv_count s q (map fst h)) h = concat hs0 ++ hl' /\
    wal_files (crash s q) = map wentries hs0 ++ [wentries hl'] /\
    (lost_log s = false -> Forall (Forall (key_written (concat hs0))) (tabs_of s)).
Proof.
  intros s h q [I (hs0 & hl & Hh & Hf & Hs)].
  assert (Hm : surv_count s q (map fst h) = (length (concat hs0) + length (filter (below q) hl))%nat).
  { rewrite Hh. apply surv_count_split; [exact Hf| |]; rewrite <- Hh.
    - exact (inv_sorted s h I).
    - exact (inv_nonempty s h I). }
  assert (Hsl : StronglySorted N.lt (map fst hl)).
  { pose proof (inv_sorted s h I) as S. rewrite Hh, map_app in S. apply SS_app in S. tauto. }
  exists hs0, (filter (below q) hl). split; [|split].
  - rewrite Hm. rewrite Hh. rewrite firstn_app_2, <- filter_below_prefix by exact Hsl. reflexivity.
  - unfold crash, on_disk; proj. rewrite Hf, map_last_snoc, cut_seq_wentries. reflexivity.
  - exact Hs.
Qed.

Lemma crash_log : forall s h q, CInv s h ->
  concat (wal_files (crash s q)) = wentries (firstn (surv_count s q (map fst h)) h).
Proof.
  intros s h q C. destruct (crash_split s h q C) as (hs0 & hl' & Hpre & Hcf & _).
  rewrite Hcf, Hpre, concat_app, wentries_app, wentries_concat. cbn [concat].
  rewrite app_nil_r. reflexivity.
Qed.

(* The state after a process stop with bound q and recovery: the invariants hold again, for
   the prefix of the history that survived. [h] is the history of the crashed state. *)
Lemma crash_recover_CInv : forall s h q tbls maxseq,
  CInv s h -> recovered (crash s q) = Some (tbls, maxseq) ->
  CInv (recover (crash s q)) (firstn (surv_count s q (map fst h)) h).
Proof.
  intros s h q tbls maxseq C R.
  destruct (crash_split s h q C) as (hs0 & hl' & Hpre & Hcf & Hs). destruct C as [I _].
  assert (D : DiskInv (crash s q) (firstn (surv_count s q (map fst h)) h)).
  { constructor.
    - rewrite <- firstn_map. apply SS_firstn. exact (inv_sorted s h I).
    - apply Forall_firstn_. exact (inv_nonempty s h I).
    - rewrite Hcf, Hpre, concat_app, wentries_app, wentries_concat. cbn [concat].
      rewrite app_nil_r. reflexivity.
    - unfold crash at 1 2, on_disk; proj. intros Hl. rewrite Hpre.
      eapply Forall_impl; [|exact (Hs Hl)]. intros l Hlf. eapply Forall_impl; [|exact Hlf].
      intros x Hx. apply key_written_mono. exact Hx. }
  unfold recover. split.
  - eapply Inv_reopen_disk; eassumption.
  - rewrite (reopen_some _ tbls maxseq R). exists hs0, hl'.
    unfold tabs_of; proj. split; [exact Hpre|]. split.
    + apply reopen_files_snoc. exact Hcf.
    + unfold crash at 1 2, on_disk; proj. intros Hl. apply tabs_sst_sort. exact (Hs Hl).
Qed.

(* ---------- C02 theorems ---------- *)

(* acknowledged writes with their numbers *)
Definition history (c : config) (ops : list op) : hist :=
  combine (ack_seqs (init c) ops) (acked (init c) ops).

Lemma epoch_history : forall c ops, lost_log (run c ops) = false ->
  epoch (init c) ops [] = history c ops /\
  map fst (epoch (init c) ops []) = ack_seqs (init c) ops /\
  map snd (epoch (init c) ops []) = acked (init c) ops.
Proof.
  intros c ops Hl. unfold run in Hl.
  pose proof (epoch_fst ops (init c) [] Hl) as E1. pose proof (epoch_snd ops (init c) [] Hl) as E2.
  cbn [map app] in E1, E2. split; [|split; assumption].
  unfold history. rewrite <- E1, <- E2, combine_fst_snd. reflexivity.
Qed.

Lemma recovered_of_lost_log : forall s,
  lost_log (reopen s) = false -> exists tbls maxseq, recovered s = Some (tbls, maxseq).
Proof.
  intros s H. rewrite lost_log_reopen in H. destruct (recovered s) as [[t m]|]; [|discriminate].
  eexists _, _. reflexivity.
Qed.

(* C02a: after a process stop and recovery every key reads as after a PREFIX of the
   acknowledged writes (batches whole). The length of the prefix is the number of
   acknowledged writes that survive: those with a number below q and those logged in an
   already closed log file (whatever q). *)
Theorem C02_crash_prefix : forall c ops q,
  lost_log (run c ops) = false ->
  lost_log (recover (crash (run c ops) q)) = false ->
  forall k,
    get (recover (crash (run c ops) q)) k =
    spec_get (firstn (surv_count (run c ops) q (ack_seqs (init c) ops)) (acked (init c) ops)) k.
Proof.
  intros c ops q Hl Hr k. destruct (epoch_history c ops Hl) as (_ & E1 & E2).
  destruct (recovered_of_lost_log _ Hr) as (tbls & maxseq & R).
  destruct (crash_recover_CInv _ _ q tbls maxseq (CInv_run c ops) R) as [I _].
  rewrite (get_inv _ _ k I Hr), <- firstn_map, E1, E2. reflexivity.
Qed.

(* when q is above everything in the closed files only the bound matters *)
Lemma surv_count_simple : forall s q qs,
  Forall (fun n => n < q) (closed_seqs s) ->
  surv_count s q qs = length (filter (fun n => n <? q) qs).
Proof.
  intros s q qs H. unfold surv_count. f_equal. apply filter_ext. intros n. unfold survives.
  destruct (existsb (N.eqb n) (closed_seqs s)) eqn:E; [|apply orb_false_r].
  apply existsb_eqb_in in E. rewrite Forall_forall in H. specialize (H n E).
  assert (L : (n <? q) = true) by lia. rewrite L. reflexivity.
Qed.

Lemma reachable_CInv : forall s, reachable s -> exists h, CInv s h.
Proof. intros s (c & ops & ->). eexists. apply CInv_run. Qed.

Lemma cut_seq_all : forall q f, Forall (fun e => w_seq e < q) f -> cut_seq q f = f.
Proof.
  intros q f H. unfold cut_seq. apply filter_all. intros e He.
  rewrite Forall_forall in H. specialize (H e He). lia.
Qed.

Lemma reopen_on_disk : forall s, reopen (on_disk s (wal_files s)) = reopen s.
Proof. intros s. unfold reopen, on_disk; proj. reflexivity. Qed.

(* synchronous logging: with the whole log on disk a crash is a clean reopen *)
Lemma crash_all_survive : forall s q, reachable s -> wal_next s <= q ->
  recover (crash s q) = reopen s.
Proof.
  intros s q R Hq. destruct (reachable_CInv s R) as (h & I & (hs0 & hl & Hh & Hf & _)).
  unfold recover, crash. rewrite Hf, map_last_snoc, cut_seq_all, <- Hf; [apply reopen_on_disk|].
  rewrite Forall_forall. intros e He. apply in_wentries in He.
  destruct He as (p & o & Hp & _ & ->). rewrite wseq_bop_entry.
  pose proof (inv_bound s h I) as B. rewrite Forall_forall in B.
  assert (Hin : In (fst p) (map fst h)).
  { apply in_map. rewrite Hh. apply in_or_app. right. exact Hp. }
  specialize (B _ Hin). lia.
Qed.

Theorem C02_sync_durable : forall s q k,
  reachable s -> wal_next s <= q -> lost_log (recover (crash s q)) = false ->
  get (recover (crash s q)) k = get s k.
Proof.
  intros s q k R Hq Hl. rewrite (crash_all_survive s q R Hq) in *.
  apply C01_reopen_invariant; assumption.
Qed.

Lemma last_effect_in : forall k l x, last_effect k l = Some x -> In (k, x) l.
Proof.
  intros k l x. induction l as [|[k' v] r IH]; cbn [last_effect]; [discriminate|].
  destruct (last_effect k r) as [y|].
  - intros E. right. apply IH. exact E.
  - destruct (beq k' k) eqn:B; [|discriminate]. intros E. injection E as <-.
    apply beq_true_iff in B. subst. left. reflexivity.
Qed.

Lemma flat_firstn_incl : forall m (l : list wop), incl (flat (firstn m l)) (flat l).
Proof.
  intros m l x H. rewrite <- (firstn_skipn m l). unfold flat in *. rewrite flat_map_app.
  apply in_or_app. left. exact H.
Qed.

(* whatever is readable after recovery was acknowledged, with that value, for that key *)
Theorem C02_nothing_invented : forall c ops q k v,
  lost_log (run c ops) = false ->
  lost_log (recover (crash (run c ops) q)) = false ->
  get (recover (crash (run c ops) q)) k = Some v ->
  In (k, Some v) (flat (acked (init c) ops)).
Proof.
  intros c ops q k v Hl Hr G. rewrite (C02_crash_prefix c ops q Hl Hr k) in G.
  unfold spec_get, latest in G.
  destruct (last_effect k (flat (firstn _ (acked (init c) ops)))) as [[v'|]|] eqn:L; try discriminate.
  injection G as ->. apply last_effect_in in L. eapply flat_firstn_incl. exact L.
Qed.

Theorem C02_clean_reopen : forall s k,
  reachable s -> lost_log (reopen s) = false -> get (reopen s) k = get s k.
Proof. exact C01_reopen_invariant. Qed.

(* the recovered state satisfies the invariant again, for the surviving prefix; so everything
   proved for runs applies to what is written after the recovery *)
Theorem C02_again : forall c ops q,
  lost_log (run c ops) = false ->
  lost_log (recover (crash (run c ops) q)) = false ->
  let s' := recover (crash (run c ops) q) in
  let m := surv_count (run c ops) q (ack_seqs (init c) ops) in
  Inv s' (firstn m (history c ops)) /\
  forall ops' k,
    lost_log (fold_left step ops' s') = false ->
    get (fold_left step ops' s') k =
    spec_get (firstn m (acked (init c) ops) ++ acked s' ops') k.
Proof.
  intros c ops q Hl Hr. cbn zeta. destruct (epoch_history c ops Hl) as (E0 & E1 & E2).
  destruct (recovered_of_lost_log _ Hr) as (tbls & maxseq & R).
  destruct (crash_recover_CInv _ _ q tbls maxseq (CInv_run c ops) R) as [I _].
  rewrite E1, E0 in I. split; [exact I|].
  intros ops' k Hl'. rewrite (get_inv _ _ k (Inv_steps ops' _ _ I) Hl').
  rewrite (epoch_snd ops' _ _ Hl'), <- firstn_map. unfold history.
  rewrite <- E1, <- E2, combine_fst_snd. reflexivity.
Qed.

(* the recovered counter is (largest surviving number) + 1: numbers of lost writes are handed
   out again, but the numbers of the surviving writes followed by those of later writes
   increase strictly *)
Theorem C08_after_crash : forall c ops q ops',
  lost_log (run c ops) = false ->
  let s' := recover (crash (run c ops) q) in
  let m := surv_count (run c ops) q (ack_seqs (init c) ops) in
  lost_log (fold_left step ops' s') = false ->
  StronglySorted N.lt (firstn m (ack_seqs (init c) ops) ++ ack_seqs s' ops').
Proof.
  intros c ops q ops' Hl. cbn zeta. intros Hl'.
  destruct (epoch_history c ops Hl) as (_ & E1 & _).
  pose proof (lost_log_steps_false ops' _ Hl') as Hr.
  destruct (recovered_of_lost_log _ Hr) as (tbls & maxseq & R).
  destruct (crash_recover_CInv _ _ q tbls maxseq (CInv_run c ops) R) as [I _].
  pose proof (inv_sorted _ _ (Inv_steps ops' _ _ I)) as S.
  rewrite (epoch_fst ops' _ _ Hl'), <- firstn_map, E1 in S. exact S.
Qed.

(* a run with a flush (closed log file), a batch and a transaction with repeated keys, a
   reopen, then a process stop in the middle of the newest file (bound 8: the writes numbered
   8 and 9 are lost), recovery, and two more writes (numbered 8 and 9 again) *)
Module C02_example.
  Definition k1 : bytes := [1]. Definition k2 : bytes := [2]. Definition k3 : bytes := [1;0].
  Definition cfg0 := mkCfg 40 10.
  Definition prog : list op :=
    [OPut k1 [11]; OPut k2 [12]; OPut k3 [13]; OFlush; OPut k1 [14]; ODel k2;
     OBatch [(k2, Some [15]); (k3, None); (k2, Some [16]); (k1, None)]; OBatch [];
     OReopen; OPut k3 [17]; OCommit [(k1, Some [18]); (k1, Some [19]); (k2, None)];
     OPut k2 [20]].
  Definition s0 := run cfg0 prog.
  Definition s1 := recover (crash s0 8).
  Definition prog' : list op := [OPut k1 [21]; ODel k3].
  Example hyps : lost_log s0 = false /\ lost_log s1 = false /\
                 lost_log (fold_left step prog' s1) = false.
  Proof. vm_compute. repeat split; reflexivity. Qed.
  Example files : map (map w_seq) (wal_files s0) = [[1; 2; 3]; [4; 5; 6; 6; 6; 6; 7; 8; 8; 9]] /\
                  map (map w_seq) (wal_files (crash s0 8)) = [[1; 2; 3]; [4; 5; 6; 6; 6; 6; 7]] /\
                  map (map w_seq) (wal_files (crash s0 2)) = [[1; 2; 3]; []].
  Proof. vm_compute. repeat split; reflexivity. Qed.
  Example prefix : ack_seqs (init cfg0) prog = [1; 2; 3; 4; 5; 6; 7; 8; 9] /\
                   surv_count s0 8 (ack_seqs (init cfg0) prog) = 7%nat /\
                   surv_count s0 2 (ack_seqs (init cfg0) prog) = 3%nat.
  Proof. vm_compute. repeat split; reflexivity. Qed.
  Example reads :
    map (get s0) [k1; k2; k3] = [Some [19]; Some [20]; Some [17]] /\
    map (get s1) [k1; k2; k3] = [None; Some [16]; Some [17]] /\
    map (spec_get (firstn 7 (acked (init cfg0) prog))) [k1; k2; k3] = [None; Some [16]; Some [17]] /\
    map (get (fold_left step prog' s1)) [k1; k2; k3] = [Some [21]; Some [16]; None] /\
    firstn 7 (ack_seqs (init cfg0) prog) ++ ack_seqs s1 prog' = [1; 2; 3; 4; 5; 6; 7; 8; 9].
  Proof. vm_compute. repeat split; reflexivity. Qed.
End C02_example.

(* ---------- repeated crash / recover cycles ---------- *)
Inductive xop := XOp (o : op) | XCrash (q : N).

Definition xstep (s : st) (x : xop) : st :=
  match x with XOp o => step s o | XCrash q => recover (crash s q) end.

(* the history of surviving acknowledged writes *)
Definition xstep_hist (s : st) (x : xop) (h : hist) : hist :=
  match x with
  | XOp o => step_hist s o h
  | XCrash q => match recovered (crash s q) with
                | None => []
                | Some _ => firstn (surv_count s q (map fst h)) h
                end
  end.

Fixpoint xepoch (s : st) (xs : list xop) (h : hist) : hist :=
  match xs with
  | [] => h
  | x :: r => xepoch (xstep s x) r (xstep_hist s x h)
  end.

Lemma CInv_xstep : forall s h x, CInv s h -> CInv (xstep s x) (xstep_hist s x h).
Proof.
  intros s h [o|q] C; cbn [xstep xstep_hist]; [apply CInv_step; exact C|].
  destruct (recovered (crash s q)) as [[tbls maxseq]|] eqn:R.
  - eapply crash_recover_CInv; eassumption.
  - unfold recover. split; [apply Inv_reopen_fail|apply InvF_reopen_fail]; exact R.
Qed.

Lemma CInv_xsteps : forall xs s h, CInv s h -> CInv (fold_left xstep xs s) (xepoch s xs h).
Proof.
  induction xs as [|x r IH]; intros s h C; [exact C|].
  cbn [fold_left xepoch]. apply IH. apply CInv_xstep. exact C.
Qed.

Theorem C02_cycles : forall c xs,
  let s := fold_left xstep xs (init c) in
  let h := xepoch (init c) xs [] in
  lost_log s = false ->
  (forall k, get s k = spec_get (map snd h) k) /\ StronglySorted N.lt (map fst h).
Proof.
  intros c xs. cbn zeta. intros Hl.
  destruct (CInv_xsteps xs (init c) [] (conj (Inv_init c) (InvF_init c))) as [I _]. split.
  - intros k. exact (get_inv _ _ k I Hl).
  - exact (inv_sorted _ _ I).
Qed.

(* ---------- C02b: the recovery budget (known finding D11) ---------- *)
Module C02_budget.
  Definition c0 := mkCfg 1 1.
  Definition prog : list op := [OPut [1] [10]; OPut [2] [20]].
End C02_budget.

Theorem C02_budget_refuted : exists c ops q k v,
  lost_log (run c ops) = false /\
  lost_log (recover (crash (run c ops) q)) = true /\
  In (WPut k v) (firstn (surv_count (run c ops) q (ack_seqs (init c) ops)) (acked (init c) ops)) /\
  In (mkW OpPut 1 k v) (concat (wal_files (crash (run c ops) q))) /\
  spec_get (firstn (surv_count (run c ops) q (ack_seqs (init c) ops)) (acked (init c) ops)) k = Some v /\
  get (recover (crash (run c ops) q)) k = None.
Proof.
  exists C02_budget.c0, C02_budget.prog, 3, [1], [10]. vm_compute.
  repeat split; try reflexivity; left; reflexivity.
Qed.

(* ---------- finding D20: log retention by acknowledged sequence number alone ---------- *)
(* A flush with a queued memtable rotates the log and writes the queued table only: the writes in
   the active memtable live in memory and in the closed log file.  Retention with every write
   acknowledged by the replicas deletes that file; the next process stop loses an acknowledged,
   synced write (q = wal_next: nothing of the newest file is cut). *)
Module C02_retention.
  Definition c0 := mkCfg 40 5.
  Definition big : bytes := [1;2;3;4;5;6;7;8;9;10;11;12].
  (* the first put fills the memtable and queues it; [3] is in the active table when the flush runs *)
  Definition prog : list op := [OPut [1] big; OPut [2] [20]; OPut [3] [30]; OFlush].
End C02_retention.

Theorem C02_retention_refuted : exists c ops acked k v,
  let s := run c ops in
  acked <= wal_next s /\
  lost_log s = false /\
  get s k = Some v /\
  get (retain acked s) k = Some v /\
  lost_log (recover (crash (retain acked s) (wal_next s))) = false /\
  get (recover (crash (retain acked s) (wal_next s))) k = None.
Proof.
  exists C02_retention.c0, C02_retention.prog, 4, [3], [30]. vm_compute.
  repeat split; try reflexivity; discriminate.
Qed.

(* retention never touches the current file, and keeps everything when nothing is acknowledged *)
Lemma retain_zero : forall s, retain 0 s = s.
Proof. reflexivity. Qed.

Lemma retain_last : forall acked s, wal_files s <> [] ->
  last (wal_files (retain acked s)) [] = last (wal_files s) [].
Proof.
  intros acked s Hne. unfold retain. destruct (acked =? 0); [reflexivity|].
  simpl. destruct (rev (wal_files s)) as [|cur older] eqn:E.
  - apply (f_equal (@rev _)) in E. rewrite rev_involutive in E. simpl in E. congruence.
  - rewrite last_last. apply (f_equal (@rev _)) in E. rewrite rev_involutive in E. simpl in E.
    rewrite E. rewrite last_last. reflexivity.
Qed.

(* a file is deleted only if all its entries are numbered below the acknowledged number *)
Lemma fold_max_ge_init : forall (f : list wentry) m, m <= fold_left (fun m e => N.max m (w_seq e)) f m.
Proof.
  induction f as [|y f IH]; intros m; simpl; [lia|].
  etransitivity; [|apply IH]. lia.
Qed.

Lemma file_max_ge : forall f m e, In e f -> w_seq e <= fold_left (fun m e => N.max m (w_seq e)) f m.
Proof.
  induction f as [|x f IH]; intros m e H; [destruct H|]. simpl. destruct H as [->|H].
  - etransitivity; [|apply fold_max_ge_init]. lia.
  - apply IH. exact H.
Qed.

Lemma retain_drops_only_acked : forall acked s f e,
  In f (wal_files s) -> ~ In f (wal_files (retain acked s)) -> In e f -> w_seq e < acked.
Proof.
  intros acked s f e Hf Hn He. unfold retain in Hn. destruct (acked =? 0) eqn:Ez; [contradiction|].
  simpl in Hn. destruct (rev (wal_files s)) as [|cur older] eqn:E.
  - apply (f_equal (@rev _)) in E. rewrite rev_involutive in E. simpl in E. rewrite E in Hf. destruct Hf.
  - assert (Hf' : In f (rev (cur :: older))) by (rewrite <- E, rev_involutive; exact Hf).
    simpl in Hf'. apply in_app_or in Hf'. destruct Hf' as [Hf'|[<-|[]]].
    + assert (Hk : retention_keeps acked f = false).
      { destruct (retention_keeps acked f) eqn:K; [|reflexivity]. exfalso. apply Hn.
        apply in_or_app. left. rewrite <- in_rev. apply filter_In. split; [rewrite in_rev; exact Hf'|exact K]. }
      unfold retention_keeps in Hk. destruct f as [|x f]; [discriminate|].
      apply Bool.negb_false_iff, N.ltb_lt in Hk.
      pose proof (file_max_ge (x :: f) 0 e He). unfold file_max in Hk. lia.
    + exfalso. apply Hn. apply in_or_app. right. left. reflexivity.
Qed.

(* ------------------------------------------------------------------------------------ *)
(* Part I: C03 — transactions                                                              *)
(* ------------------------------------------------------------------------------------ *)

Module TestsT.
  Definition k1 : bytes := [1]. Definition k2 : bytes := [2]. Definition k3 : bytes := [1;0].
  Definition tx : list bop := [(k2, Some [1]); (k1, Some [2]); (k2, None); (k3, Some [3]); (k1, Some [4]); (k2, Some [5])].
  Definition c0 := mkCfg 1000 5.
  Definition p0 : list op := [OPut k1 [0]; OFlush; OCommit [(k1, Some [1]); (k2, Some [2]); (k3, Some [3])]].
  Eval vm_compute in map (fun n => (map (get (recover (crash_torn (run c0 p0) n))) [k1; k2; k3])) [0; 1; 2; 3]%nat.
End TestsT.

(* ---------- C03a: a process stop keeps whole writes ---------- *)

Lemma in_wstamp_seq : forall p e, In e (wstamp p) -> w_seq e = fst p.
Proof.
  intros p e H. unfold wstamp in H. apply in_map_iff in H. destruct H as (o & <- & _).
  apply wseq_bop_entry.
Qed.

(* On disk after a process stop: the log of the first m acknowledged writes; of every
   acknowledged write either all log entries are there (the write is one of the first m) or
   none. With C02_crash_prefix: reads after recovery see all operations of a batch or none. *)
Theorem C03_crash_atomic : forall c ops q,
  lost_log (run c ops) = false ->
  let s := run c ops in
  let m := surv_count s q (ack_seqs (init c) ops) in
  concat (wal_files (crash s q)) =
    log_of (firstn m (ack_seqs (init c) ops)) (firstn m (acked (init c) ops)) /\
  forall i n w, nth_error (history c ops) i = Some (n, w) ->
    ((i < m)%nat /\ incl (wstamp (n, w)) (concat (wal_files (crash s q)))) \/
    ((m <= i)%nat /\ forall e, In e (wstamp (n, w)) -> ~ In e (concat (wal_files (crash s q)))).
Proof.
  intros c ops q Hl. cbn zeta. destruct (epoch_history c ops Hl) as (E0 & E1 & E2).
  pose proof (CInv_run c ops) as C. pose proof (crash_log _ _ q C) as L.
  rewrite E1, E0 in L. split.
  - rewrite L. unfold log_of, history. rewrite combine_firstn. reflexivity.
  - intros i n w Hn. rewrite L.
    set (m := surv_count (run c ops) q (ack_seqs (init c) ops)) in *.
    apply nth_error_split in Hn. destruct Hn as (l1 & l2 & Eh & Hlen).
    destruct (Nat.lt_ge_cases i m) as [Hi|Hi].
    + left. split; [exact Hi|]. intros e He. apply in_wentries.
      unfold wstamp in He. cbn [fst snd] in He. apply in_map_iff in He. destruct He as (o & <- & Ho).
      exists (n, w), o. split; [|split; [exact Ho|reflexivity]].
      rewrite Eh, firstn_app. apply in_or_app. right.
      replace (m - length l1)%nat with (S (m - length l1 - 1)) by lia. left. reflexivity.
    + right. split; [exact Hi|]. intros e He Hin. apply in_wstamp_seq in He. cbn [fst] in He.
      apply in_wentries in Hin. destruct Hin as (p & o & Hp & _ & ->). rewrite wseq_bop_entry in He.
      pose proof (inv_sorted _ _ (proj1 C)) as S. rewrite E0, Eh, map_app in S.
      apply SS_app in S. destruct S as (_ & _ & Hcross).
      rewrite Eh, firstn_app in Hp. replace (m - length l1)%nat with 0%nat in Hp by lia.
      cbn [firstn] in Hp. rewrite app_nil_r in Hp.
      assert (Hp1 : In p l1).
      { rewrite <- (firstn_skipn m l1). apply in_or_app. left. exact Hp. }
      specialize (Hcross (fst p) n (in_map fst _ _ Hp1) (or_introl eq_refl)). lia.
Qed.

(* ---------- C03b: a torn final write (known finding D13) ---------- *)
Module C03_torn.
  Definition k1 : bytes := [1]. Definition k2 : bytes := [2]. Definition k3 : bytes := [1;0].
  Definition c0 := mkCfg 1000 5.
  Definition prog : list op :=
    [OPut k1 [0]; OFlush; OCommit [(k1, Some [1]); (k2, Some [2]); (k3, Some [3])]].
End C03_torn.

(* the committed transaction wrote k1, k3, k2; after the torn write only k1's operation is there *)
Theorem C03_torn_refuted : exists c ops n ka kb va vb tx,
  lost_log (run c ops) = false /\
  In (WBatch tx) (acked (init c) ops) /\ In (ka, Some va) tx /\ In (kb, Some vb) tx /\
  lost_log (recover (crash_torn (run c ops) n)) = false /\
  get (recover (crash_torn (run c ops) n)) ka = Some va /\
  get (recover (crash_torn (run c ops) n)) kb = None /\
  get (run c ops) kb = Some vb.
Proof.
  exists C03_torn.c0, C03_torn.prog, 1%nat, C03_torn.k1, C03_torn.k2, [1], [2],
         [(C03_torn.k1, Some [1]); (C03_torn.k3, Some [3]); (C03_torn.k2, Some [2])].
  vm_compute. repeat split; try reflexivity.
  - right. left. reflexivity.
  - left. reflexivity.
  - right. right. left. reflexivity.
Qed.

Lemma wentries_firstn : forall j hl,
  firstn (length (wentries (firstn j hl))) (wentries hl) = wentries (firstn j hl).
Proof.
  intros j hl.
  assert (E : wentries hl = wentries (firstn j hl) ++ wentries (skipn j hl))
    by (rewrite <- wentries_app, firstn_skipn; reflexivity).
  rewrite E at 1. rewrite firstn_app, firstn_all, Nat.sub_diag. cbn [firstn]. apply app_nil_r.
Qed.

(* a torn write that ends on a write boundary is a process stop *)
Theorem C03_torn_partial : forall c ops q,
  lost_log (run c ops) = false ->
  let s := run c ops in
  crash_torn s (length (cut_seq q (last (wal_files s) []))) = crash s q.
Proof.
  intros c ops q Hl. cbn zeta. destruct (CInv_run c ops) as [I (hs0 & hl & Hh & Hf & _)].
  unfold crash_torn, crash. f_equal. rewrite Hf, last_last, !map_last_snoc. f_equal. f_equal.
  rewrite cut_seq_wentries.
  assert (Hsl : StronglySorted N.lt (map fst hl)).
  { pose proof (inv_sorted _ _ I) as S. rewrite Hh, map_app in S. apply SS_app in S. tauto. }
  rewrite (filter_below_prefix q hl Hsl). apply wentries_firstn.
Qed.

Lemma filter_below_all : forall q l, Forall (fun n => n < q) (map fst l) -> filter (below q) l = l.
Proof.
  intros q l H. apply filter_all. intros p Hp. rewrite Forall_forall in H.
  specialize (H (fst p) (in_map fst _ _ Hp)). unfold below. lia.
Qed.

(* every write boundary of the newest file is such a point *)
Theorem C03_torn_boundary : forall c ops,
  lost_log (run c ops) = false ->
  let s := run c ops in
  exists hs0 hl,
    history c ops = concat hs0 ++ hl /\
    wal_files s = map wentries hs0 ++ [wentries hl] /\
    forall j, exists q, crash_torn s (length (wentries (firstn j hl))) = crash s q.
Proof.
  intros c ops Hl. cbn zeta. destruct (epoch_history c ops Hl) as (E0 & _ & _).
  destruct (CInv_run c ops) as [I (hs0 & hl & Hh & Hf & _)]. rewrite E0 in *.
  exists hs0, hl. split; [exact Hh|]. split; [exact Hf|]. intros j.
  assert (Hsl : StronglySorted N.lt (map fst hl)).
  { pose proof (inv_sorted _ _ I) as S. rewrite Hh, map_app in S. apply SS_app in S. tauto. }
  assert (Hq : exists q, filter (below q) hl = firstn j hl).
  { destruct (Nat.lt_ge_cases j (length hl)) as [Hj|Hj].
    - destruct (nth_error hl j) as [x|] eqn:Nx; [|apply nth_error_None in Nx; lia].
      apply nth_error_split in Nx. destruct Nx as (l1 & l2 & El & Hlen). exists (fst x).
      rewrite El, map_app in Hsl. cbn [map] in Hsl. apply SS_app in Hsl.
      destruct Hsl as (_ & S2 & Hcross). inversion S2 as [|? ? _ Hf2]; subst.
      rewrite firstn_app, Nat.sub_diag, firstn_all, filter_app. cbn [firstn filter].
      rewrite filter_below_all.
      + unfold below at 1. rewrite N.ltb_irrefl.
        rewrite (filter_below_nil (fst x) (fst x) l2 Hf2 (N.ltb_irrefl _)). reflexivity.
      + rewrite Forall_forall. intros n Hn. exact (Hcross n (fst x) Hn (or_introl eq_refl)).
    - exists (wal_next (run c ops)). rewrite firstn_all2 by exact Hj. apply filter_below_all.
      pose proof (inv_bound _ _ I) as B. rewrite Hh, map_app in B. apply Forall_app in B. tauto. }
  destruct Hq as (q & Eq). exists q.
  unfold crash_torn, crash. f_equal. rewrite Hf, !map_last_snoc. f_equal. f_equal.
  rewrite cut_seq_wentries, Eq. apply wentries_firstn.
Qed.

(* ---------- C03c: the transaction buffer: sorted by key, last operation per key ---------- *)

Definition bkey_lt (a b : bop) : Prop := bcmp (fst a) (fst b) = Lt.

Lemma last_effect_above : forall k (l : list bop),
  Forall (fun x => bcmp k (fst x) = Lt) l -> last_effect k l = None.
Proof.
  intros k l H. induction l as [|[k' v] r IH]; [reflexivity|].
  inversion H as [|? ? Hx Hr]; subst. cbn [last_effect fst] in *. rewrite (IH Hr).
  rewrite (beq_false_gt k' k); [reflexivity|]. apply bcmp_gt_lt. exact Hx.
Qed.

Lemma buf_set_sorted : forall o l, StronglySorted bkey_lt l -> StronglySorted bkey_lt (buf_set o l).
Proof.
  intros o l H. induction H as [|x r Hs IH Hf]; cbn [buf_set]; [repeat constructor|].
  destruct (bcmp (fst x) (fst o)) eqn:C.
  - apply bcmp_eq in C. constructor; [exact Hs|]. eapply Forall_impl; [|exact Hf].
    intros y Hy. unfold bkey_lt in *. rewrite <- C. exact Hy.
  - constructor; [exact IH|]. rewrite Forall_forall in *. intros y Hy.
    assert (Hy' : y = o \/ In y r).
    { clear - Hy. induction r as [|z r IHr]; cbn [buf_set] in Hy.
      - destruct Hy as [<-|[]]. left. reflexivity.
      - destruct (bcmp (fst z) (fst o)).
        + destruct Hy as [<-|Hy]; [left; reflexivity|right; right; exact Hy].
        + destruct Hy as [<-|Hy]; [right; left; reflexivity|].
          destruct (IHr Hy) as [->|H]; [left; reflexivity|right; right; exact H].
        + destruct Hy as [<-|Hy]; [left; reflexivity|right; exact Hy]. }
    destruct Hy' as [->|Hy']; [exact C|exact (Hf y Hy')].
  - apply bcmp_gt_lt in C. constructor; [constructor; assumption|].
    constructor; [exact C|]. eapply Forall_impl; [|exact Hf]. intros y Hy. unfold bkey_lt in *.
    eapply bcmp_lt_trans; eassumption.
Qed.

Lemma last_effect_buf_set : forall k o l, StronglySorted bkey_lt l ->
  last_effect k (buf_set o l) = if beq (fst o) k then Some (snd o) else last_effect k l.
Proof.
  intros k [ko vo] l H. cbn [fst snd]. induction H as [|[kx vx] r Hs IH Hf]; cbn [buf_set].
  - cbn [last_effect]. reflexivity.
  - cbn [fst] in *. unfold bkey_lt in Hf. cbn [fst] in Hf.
    destruct (bcmp kx ko) eqn:C.
    + apply bcmp_eq in C. subst kx. cbn [last_effect]. destruct (beq ko k) eqn:B.
      * apply beq_true_iff in B. subst k. rewrite last_effect_above; [reflexivity|exact Hf].
      * reflexivity.
    + cbn [last_effect]. rewrite IH. destruct (beq ko k) eqn:B; [reflexivity|reflexivity].
    + apply bcmp_gt_lt in C. cbn [last_effect]. destruct (beq ko k) eqn:B.
      * apply beq_true_iff in B. subst k. rewrite last_effect_above.
        -- rewrite (beq_false_gt kx ko) by (apply bcmp_gt_lt; exact C). reflexivity.
        -- eapply Forall_impl; [|exact Hf]. intros y Hy. eapply bcmp_lt_trans; eassumption.
      * destruct (last_effect k r); [reflexivity|]. destruct (beq kx k); reflexivity.
Qed.

Lemma buffer_fold_spec : forall ops b, StronglySorted bkey_lt b ->
  StronglySorted bkey_lt (fold_left (fun b o => buf_set o b) ops b) /\
  forall k, last_effect k (fold_left (fun b o => buf_set o b) ops b) =
            match last_effect k ops with Some x => Some x | None => last_effect k b end.
Proof.
  induction ops as [|[ko vo] r IH]; intros b Hb; [split; [exact Hb|reflexivity]|].
  cbn [fold_left]. destruct (IH (buf_set (ko, vo) b) (buf_set_sorted _ _ Hb)) as [S L].
  split; [exact S|]. intros k. rewrite L, (last_effect_buf_set k (ko, vo) b Hb).
  cbn [last_effect fst snd]. destruct (last_effect k r); [reflexivity|].
  destruct (beq ko k); reflexivity.
Qed.

(* commit = last-op-wins *)
Theorem C03_last_op_wins : forall ops,
  StronglySorted (fun a b : bop => bcmp (fst a) (fst b) = Lt) (buffer_ops ops) /\
  (forall k, last_effect k (buffer_ops ops) = last_effect k ops) /\
  (forall h k, spec_get (h ++ [WBatch (buffer_ops ops)]) k = spec_get (h ++ [WBatch ops]) k).
Proof.
  intros ops. destruct (buffer_fold_spec ops [] (SSorted_nil _)) as [S L].
  assert (L' : forall k, last_effect k (buffer_ops ops) = last_effect k ops).
  { intros k. unfold buffer_ops. rewrite L. destruct (last_effect k ops); reflexivity. }
  split; [exact S|]. split; [exact L'|].
  intros h k. unfold spec_get, latest, flat. rewrite !flat_map_app. cbn [flat_map effects].
  rewrite !app_nil_r, !last_effect_app, L'. reflexivity.
Qed.

Module C03_example.
  Definition k1 : bytes := [1]. Definition k2 : bytes := [2]. Definition k3 : bytes := [1;0].
  Definition tx : list bop :=
    [(k2, Some [1]); (k1, Some [2]); (k2, None); (k3, Some [3]); (k1, Some [4]); (k2, Some [5])].
  Example buffer : buffer_ops tx = [(k1, Some [4]); (k3, Some [3]); (k2, Some [5])].
  Proof. vm_compute. reflexivity. Qed.
End C03_example.

(* ---------- C03d: a rolled-back or failed transaction leaves no trace ---------- *)
Theorem C03_rollback_no_trace : forall s ops,
  step s (ORollback ops) = s /\
  (forall s', tx_commit s ops = (s', WrOverflow) -> s' = s).
Proof.
  intros s ops. split; [reflexivity|]. intros s' E.
  exact (proj2 (proj2 (proj2 (C01_error_no_effect s))) ops s' E).
Qed.

(* ------------------------------------------------------------------------------------ *)
(* Part J: facts about every reachable state, across reopen and crash/recover (for scans)  *)
(* ------------------------------------------------------------------------------------ *)

Record RInv (s : st) : Prop := mkRInv {
  r_imm : Forall (fun m => mt_imm m = true) (imms s);
  r_seq : seq_inv (active s);
  r_next : wal_next s <= MaxSeq;
  r_asc : Forall key_asc (tabs_of s)
}.

Lemma one_le_MaxSeq : 1 <= MaxSeq.
Proof. vm_compute. discriminate. Qed.

Lemma RInv_init : forall c, RInv (init c).
Proof.
  intros c. constructor; unfold init, tabs_of; proj; cbn [map].
  - constructor.
  - constructor.
  - exact one_le_MaxSeq.
  - constructor.
Qed.

Lemma RInv_write_state : forall s h ops,
  Inv s h -> RInv s -> (MaxSeq <=? wal_next s) = false -> RInv (write_state s ops).
Proof.
  intros s h ops I R M.
  pose proof (add_all_spec (wal_next s) ops
    (upd_wal s (wal_next s + 1)
       (log_append (wal_files s) (map (bop_entry (wal_next s)) ops)))) as A.
  pose proof (add_all_seq_inv (wal_next s) ops
    (upd_wal s (wal_next s + 1)
       (log_append (wal_files s) (map (bop_entry (wal_next s)) ops)))) as Q.
  cbn zeta in A. fold (write_state s ops) in A, Q.
  set (s2 := write_state s ops) in *. clearbody s2. unfold upd_wal in A, Q.
  revert A Q. proj. intros (A1 & A2 & A3 & A4 & A5 & A6 & A7 & A8 & A9 & A10 & A11) Q.
  apply N.leb_gt in M. constructor.
  - rewrite A4. exact (r_imm s R).
  - apply Q; [|exact (r_seq s R)]. pose proof MaxSeq_small. lia.
  - rewrite A2. lia.
  - unfold tabs_of. rewrite A6. exact (r_asc s R).
Qed.

Lemma RInv_maybe_schedule : forall s, RInv s -> RInv (maybe_schedule s).
Proof.
  intros s R. unfold maybe_schedule. destruct (flush_pending s); [|exact R].
  constructor; unfold schedule_flush, tabs_of; proj.
  - apply Forall_app. split; [exact (r_imm s R)|]. repeat constructor.
  - constructor.
  - exact (r_next s R).
  - exact (r_asc s R).
Qed.

Lemma RInv_apply_batch : forall s h ops, Inv s h -> RInv s -> RInv (fst (apply_batch s ops)).
Proof.
  intros s h ops I R. destruct ops as [|o r]; [exact R|].
  destruct (MaxSeq <=? wal_next s) eqn:M.
  - rewrite apply_batch_overflow by (assumption || discriminate). exact R.
  - rewrite apply_batch_ok by (assumption || discriminate). cbn [fst].
    apply RInv_maybe_schedule. eapply RInv_write_state; eassumption.
Qed.

Lemma RInv_iter_all : forall s m, RInv s -> In m (active s :: imms s) ->
  mt_iter_entries m = mt_entries m.
Proof.
  intros s m R [<-|Hm]; [apply iter_all; exact (r_seq s R)|].
  apply iter_imm. pose proof (r_imm s R) as F. rewrite Forall_forall in F. exact (F m Hm).
Qed.

Lemma RInv_flush : forall s h, Inv s h -> RInv s -> RInv (flush s).
Proof.
  intros s h I R. destruct (flush_spec s) as (_ & G2 & _ & _ & G5 & G6 & _ & _ & G9).
  constructor.
  - rewrite G6. exact (r_imm s R).
  - rewrite G5. exact (r_seq s R).
  - rewrite G2. exact (r_next s R).
  - unfold tabs_of. rewrite G9. apply Forall_app. split; [exact (r_asc s R)|].
    rewrite Forall_forall. intros l Hl. apply in_flat_map in Hl. destruct Hl as (m & Hm & Hlm).
    unfold opt_table in Hlm. destruct (nonnil (flushed_entries m)); [|contradiction].
    destruct Hlm as [<-|[]].
    assert (Hm' : In m (active s :: imms s)).
    { apply flush_tabs_incl in Hm. destruct Hm as [<-|Hm]; [left; reflexivity|].
      right. apply (inv_pending s h I). exact Hm. }
    exact (proj1 (flushed_entries_spec m (layer_sorted s h m I Hm') (RInv_iter_all s m R Hm'))).
Qed.

Lemma wentry_mentry_seq : forall e m, wentry_mentry e = Some m -> mseq m = w_seq e.
Proof.
  intros e m. unfold wentry_mentry. destruct (w_op e =? OpPut); [intros E; injection E as <-; reflexivity|].
  destruct (w_op e =? OpDel); [intros E; injection E as <-; reflexivity|discriminate].
Qed.

Lemma recover_tables_seq_inv : forall c es tables maxseq tbls m',
  Forall (fun e => w_seq e < 2 ^ 64 - 1) es ->
  seq_inv (hd mt_empty tables) ->
  recover_tables c es tables maxseq = Some (tbls, m') ->
  seq_inv (hd mt_empty tbls).
Proof.
  intros c es. induction es as [|e r IH]; intros tables maxseq tbls m' HF Hh HR.
  - cbn [recover_tables] in HR. injection HR as <- <-. exact Hh.
  - inversion HF as [|? ? He Hr]; subst. cbn [recover_tables] in HR.
    destruct tables as [|cur older]; [discriminate|]. cbn [hd] in Hh.
    assert (Hadd : forall x, seq_inv x ->
              seq_inv (match wentry_mentry e with Some m => mt_add x m | None => x end)).
    { intros x Hx. destruct (wentry_mentry e) as [m|] eqn:W; [|exact Hx].
      apply mt_add_seq_inv; [|exact Hx]. unfold seq_ok. rewrite (wentry_mentry_seq e m W). exact He. }
    destruct (c_memsize c <=? mt_size cur).
    + destruct (c_maxmem c <=? N.of_nat (length (cur :: older))); [discriminate|].
      eapply IH; [exact Hr| |exact HR]. cbn [hd]. apply Hadd. constructor.
    + eapply IH; [exact Hr| |exact HR]. cbn [hd]. apply Hadd. exact Hh.
Qed.

(* recovery from a disk state holding the log of history h (all numbers below MaxSeq) *)
Lemma RInv_reopen_ok : forall s h tbls maxseq,
  recovered s = Some (tbls, maxseq) -> Inv (reopen s) h ->
  concat (wal_files s) = wentries h -> Forall (fun n => n < MaxSeq) (map fst h) ->
  Forall key_asc (tabs_of s) -> RInv (reopen s).
Proof.
  intros s h tbls maxseq R I Hw Hb Ha.
  pose proof (inv_last _ _ I) as Hlast. pose proof (inv_next _ _ I) as Hnext.
  revert I Hlast Hnext. rewrite (reopen_some s tbls maxseq R). intros I Hlast Hnext.
  revert Hlast Hnext. unfold tabs_of; proj. intros Hlast Hnext. constructor; proj.
  - rewrite Forall_forall. intros m Hm. apply in_map_iff in Hm. destruct Hm as (x & <- & _). reflexivity.
  - unfold recovered in R. change (match tbls with a :: _ => a | [] => mt_empty end) with (hd mt_empty tbls).
    eapply recover_tables_seq_inv; [| |exact R]; [|constructor].
    rewrite concat_reopen_files, Hw, Forall_forall. intros e He. apply in_wentries in He.
    destruct He as (p & o & Hp & _ & ->). rewrite wseq_bop_entry.
    rewrite Forall_forall in Hb. specialize (Hb (fst p) (in_map fst _ _ Hp)).
    pose proof MaxSeq_small. lia.
  - rewrite Hnext, Hlast. destruct h as [|p0 h0]; [cbn [map last]; exact one_le_MaxSeq|].
    destruct (@exists_last _ (map fst (p0 :: h0))) as (l' & x & E); [discriminate|].
    rewrite E in *. rewrite last_last. apply Forall_app in Hb. destruct Hb as [_ Hx].
    inversion Hx; subst. lia.
  - apply tabs_sst_sort. exact Ha.
Qed.

Lemma RInv_reopen_fail : forall s, recovered s = None -> Forall key_asc (tabs_of s) -> RInv (reopen s).
Proof.
  intros s R Ha. rewrite (reopen_none s R). constructor; unfold tabs_of; proj.
  - constructor.
  - constructor.
  - exact one_le_MaxSeq.
  - apply tabs_sst_sort. exact Ha.
Qed.

Lemma hist_below_MaxSeq : forall s h, Inv s h -> RInv s -> Forall (fun n => n < MaxSeq) (map fst h).
Proof.
  intros s h I R. eapply Forall_impl; [|exact (inv_bound s h I)]. cbn beta. intros n Hn.
  pose proof (r_next s R). lia.
Qed.

Lemma RInv_xstep : forall s h x, CInv s h -> RInv s -> RInv (xstep s x).
Proof.
  intros s h x C R. pose proof (proj1 C) as I. destruct x as [o|q]; cbn [xstep].
  - destruct o as [k v|k|ops|ops|ops| | |k]; cbn [step]; try exact R.
    + rewrite put_as_batch. eapply RInv_apply_batch; eassumption.
    + rewrite del_as_batch. eapply RInv_apply_batch; eassumption.
    + eapply RInv_apply_batch; eassumption.
    + rewrite tx_commit_as_batch. eapply RInv_apply_batch; eassumption.
    + eapply RInv_flush; eassumption.
    + destruct (recovered s) as [[tbls maxseq]|] eqn:Rc.
      * eapply (RInv_reopen_ok s h); [exact Rc|eapply Inv_reopen_ok; eassumption|exact (inv_wal s h I)| |exact (r_asc s R)].
        exact (hist_below_MaxSeq s h I R).
      * apply RInv_reopen_fail; [exact Rc|exact (r_asc s R)].
  - unfold recover. destruct (recovered (crash s q)) as [[tbls maxseq]|] eqn:Rc.
    + eapply (RInv_reopen_ok (crash s q)); [exact Rc| | | |].
      * exact (proj1 (crash_recover_CInv s h q tbls maxseq C Rc)).
      * apply crash_log. exact C.
      * rewrite <- firstn_map. apply Forall_firstn_. exact (hist_below_MaxSeq s h I R).
      * exact (r_asc s R).
    + apply RInv_reopen_fail; [exact Rc|exact (r_asc s R)].
Qed.

Lemma RInv_xsteps : forall xs s h, CInv s h -> RInv s -> RInv (fold_left xstep xs s).
Proof.
  induction xs as [|x r IH]; intros s h C R; [exact R|].
  cbn [fold_left]. apply (IH _ (xstep_hist s x h)); [apply CInv_xstep; exact C|].
  eapply RInv_xstep; eassumption.
Qed.

(* states reachable with crash / recover cycles *)
Definition xreachable (s : st) : Prop := exists c xs, s = fold_left xstep xs (init c).

Lemma fold_xstep_XOp : forall ops s, fold_left xstep (map XOp ops) s = fold_left step ops s.
Proof. induction ops as [|o r IH]; intros s; [reflexivity|]. cbn [map fold_left xstep]. apply IH. Qed.

Lemma reachable_xreachable : forall s, reachable s -> xreachable s.
Proof.
  intros s (c & ops & ->). exists c, (map XOp ops). unfold run. symmetry. apply fold_xstep_XOp.
Qed.

Lemma xreachable_RInv : forall s, xreachable s -> RInv s.
Proof.
  intros s (c & xs & ->).
  exact (RInv_xsteps xs (init c) [] (conj (Inv_init c) (InvF_init c)) (RInv_init c)).
Qed.

Lemma xreachable_CInv : forall s, xreachable s -> exists h, CInv s h.
Proof.
  intros s (c & xs & ->). eexists.
  exact (CInv_xsteps xs (init c) [] (conj (Inv_init c) (InvF_init c))).
Qed.

Lemma RInv_run : forall c ops, RInv (run c ops).
Proof. intros c ops. apply xreachable_RInv. apply reachable_xreachable. exists c, ops. reflexivity. Qed.

(* every iterator of every memtable layer sees the whole table *)
Theorem xreach_iter_all : forall s m,
  xreachable s -> In m (mem_layers s) -> mt_iter_entries m = mt_entries m.
Proof.
  intros s m X Hm. apply (RInv_iter_all s m (xreachable_RInv s X)).
  unfold mem_layers in Hm. destruct Hm as [<-|Hm]; [left; reflexivity|].
  right. apply in_rev. exact Hm.
Qed.

Theorem reach_iter_all : forall s m,
  reachable s -> In m (mem_layers s) -> mt_iter_entries m = mt_entries m.
Proof. intros s m R. apply xreach_iter_all. apply reachable_xreachable. exact R. Qed.

(* every SSTable is strictly ascending in key, also after reopen and crash/recover *)
Theorem xreach_key_asc : forall s, xreachable s -> Forall key_asc (tabs_of s).
Proof. intros s X. exact (r_asc s (xreachable_RInv s X)). Qed.

Theorem reach_key_asc : forall s, reachable s -> Forall key_asc (tabs_of s).
Proof. intros s R. apply xreach_key_asc. apply reachable_xreachable. exact R. Qed.
