(* EngineCrashProofs.v — crash and recovery (C02), transaction atomicity (C03), on top of
   EngineProofs.v.
     Part G: the log files split the history at write boundaries ([InvF]); one preservation
             lemma per operation; [CInv] = Inv /\ InvF holds for every run.
     Part H: crash = cut of the newest file; recovery from the surviving prefix
             (crash_recover_CInv) and the C02 theorems.
     Part I: C03 (atomic batches, torn write, last-op-wins of the transaction buffer). *)
From Coq Require Import Lia ZifyN ZifyNat ZifyBool Sorted Permutation.
From KV Require Import Bytes Spec Memtable MemtableProofs WalCodec Engine EngineProofs.
Open Scope N_scope.

(* ------------------------------------------------------------------------------------ *)
(* Specification-side definitions                                                        *)
(* ------------------------------------------------------------------------------------ *)

(* sequence numbers logged in already closed (non-newest) log files *)
Definition closed_seqs (s : st) : list N := map w_seq (concat (removelast (wal_files s))).

(* a write with number n survives a process stop with bound q *)
Definition survives (s : st) (q : N) (n : N) : bool :=
  (n <? q) || existsb (N.eqb n) (closed_seqs s).

(* how many of the acknowledged writes (numbers qs, in order) survive *)
Definition surv_count (s : st) (q : N) (qs : list N) : nat := length (filter (survives s q) qs).

Module TestsC.
  Definition k1 : bytes := [1]. Definition k2 : bytes := [2]. Definition k3 : bytes := [1;0].
  Definition v (n : N) : bytes := [n; n].
  Definition cA := mkCfg 40 10.
  Definition pA : list op :=
    [OPut k1 (v 1); OPut k2 (v 2); OPut k3 (v 3); OFlush; OPut k1 (v 4); ODel k2;
     OBatch [(k2, Some (v 5)); (k3, None); (k2, Some (v 6)); (k1, None)]; OBatch [];
     OReopen; OPut k3 (v 7); OCommit [(k1, Some (v 8)); (k1, Some (v 9)); (k2, None)];
     OPut k2 (v 10)].
  Definition chk (c : config) (p : list op) (q : N) (ks : list bytes) :=
    let s := run c p in
    let m := surv_count s q (ack_seqs (init c) p) in
    (lost_log (recover (crash s q)), m,
     map (fun k => (get (recover (crash s q)) k, spec_get (firstn m (acked (init c) p)) k)) ks).
  Eval vm_compute in (map (map w_seq) (wal_files (run cA pA)), ack_seqs (init cA) pA).
  Eval vm_compute in map (fun q => chk cA pA q [k1; k2; k3]) [0; 3; 5; 7; 8; 9; 10; 100].
  Eval vm_compute in map (fun q => chk (mkCfg 1 100) (pA ++ [OFlush; OPut k1 (v 11)]) q [k1; k2; k3]) [0; 5; 9; 10; 11; 100].
  Eval vm_compute in map (fun q => chk (mkCfg 1 3) pA q [k1; k2; k3]) [0; 3; 100].
End TestsC.

(* ------------------------------------------------------------------------------------ *)
(* Part G: the log files split the history at write boundaries                             *)
(* ------------------------------------------------------------------------------------ *)

Lemma wentries_concat : forall hs, wentries (concat hs) = concat (map wentries hs).
Proof.
  induction hs as [|h hs IH]; [reflexivity|].
  cbn [concat map]. rewrite wentries_app, IH. reflexivity.
Qed.

Lemma log_append_snoc : forall F f es, log_append (F ++ [f]) es = F ++ [f ++ es].
Proof.
  intros F f es. unfold log_append. rewrite rev_app_distr. cbn [rev app].
  rewrite rev_involutive. reflexivity.
Qed.

Lemma map_last_snoc : forall (A : Type) (g : A -> A) F f, map_last g (F ++ [f]) = F ++ [g f].
Proof.
  intros A g F f. unfold map_last. rewrite rev_app_distr. cbn [rev app].
  rewrite rev_involutive. reflexivity.
Qed.

(* hs0: the writes logged in the closed files, file by file; hl: those of the newest file.
   The SSTables only hold keys written in closed files: a flush rotates the log first. *)
Definition InvF (s : st) (h : hist) : Prop :=
  exists hs0 hl,
    h = concat hs0 ++ hl /\
    wal_files s = map wentries hs0 ++ [wentries hl] /\
    (lost_log s = false -> Forall (Forall (key_written (concat hs0))) (tabs_of s)).

Lemma InvF_init : forall c, InvF (init c) [].
Proof.
  intros c. exists [], []. split; [reflexivity|]. split; [reflexivity|].
  intros _. constructor.
Qed.

Lemma InvF_write : forall s h ops w,
  Inv s h -> InvF s h -> effects w = ops ->
  InvF (write_state s ops) (h ++ [(wal_next s, w)]).
Proof.
  intros s h ops w I (hs0 & hl & Hh & Hf & Hs) Hw.
  pose proof (add_all_spec (wal_next s) ops
    (upd_wal s (wal_next s + 1)
       (log_append (wal_files s) (map (bop_entry (wal_next s)) ops)))) as A.
  cbn zeta in A. fold (write_state s ops) in A.
  set (s2 := write_state s ops) in *. clearbody s2. unfold upd_wal in A.
  revert A. proj. intros (A1 & A2 & A3 & A4 & A5 & A6 & A7 & A8 & A9 & A10 & A11).
  exists hs0, (hl ++ [(wal_next s, w)]). split; [|split].
  - rewrite Hh, app_assoc. reflexivity.
  - rewrite A3, Hf, log_append_snoc, wentries_app, wentries_single.
    unfold wstamp. cbn [fst snd]. rewrite Hw. reflexivity.
  - unfold tabs_of in *. rewrite A9, A6. exact Hs.
Qed.

Lemma InvF_maybe_schedule : forall s h, InvF s h -> InvF (maybe_schedule s) h.
Proof.
  intros s h F. unfold maybe_schedule. destruct (flush_pending s); [|exact F].
  destruct F as (hs0 & hl & Hh & Hf & Hs). exists hs0, hl.
  unfold schedule_flush, tabs_of in *; proj. repeat split; assumption.
Qed.

Lemma InvF_apply_batch : forall s h ops w,
  Inv s h -> InvF s h -> effects w = ops ->
  InvF (fst (apply_batch s ops))
       (match ops, snd (apply_batch s ops) with
        | _ :: _, WrOk q => h ++ [(q, w)]
        | _, _ => h
        end).
Proof.
  intros s h ops w I F Hw. destruct ops as [|o r]; [exact F|].
  destruct (MaxSeq <=? wal_next s) eqn:M.
  - rewrite apply_batch_overflow by (assumption || discriminate). exact F.
  - rewrite apply_batch_ok by (assumption || discriminate). cbn [fst snd].
    apply InvF_maybe_schedule. apply InvF_write; assumption.
Qed.

(* FlushMemTables either does nothing or starts a new log file *)
Lemma flush_wal_files : forall s, flush s = s \/ wal_files (flush s) = wal_files s ++ [[]].
Proof.
  intros s. unfold flush. destruct (pending s) as [|p ps] eqn:P.
  - destruct (0 <? mt_size (active s)); [right|left; reflexivity].
    destruct (flush_table_spec (rotate s) (active s)) as (_ & _ & G3 & _). rewrite G3. reflexivity.
  - right. destruct (fold_flush_table_spec (p :: ps) (rotate (clear_pending s))) as (_ & _ & G3 & _).
    rewrite G3. reflexivity.
Qed.

Lemma InvF_flush : forall s h, Inv s h -> InvF s h -> InvF (flush s) h.
Proof.
  intros s h I F. destruct (flush_wal_files s) as [E|E]; [rewrite E; exact F|].
  destruct F as (hs0 & hl & Hh & Hf & Hs). exists (hs0 ++ [hl]), []. split; [|split].
  - rewrite concat_app. cbn [concat]. rewrite !app_nil_r. exact Hh.
  - rewrite E, Hf, map_app. reflexivity.
  - intros Hl. rewrite concat_app. cbn [concat]. rewrite app_nil_r, <- Hh.
    exact (inv_ssts _ _ (Inv_flush s h I) Hl).
Qed.

Lemma tabs_sst_sort : forall (P : list sentry -> Prop) l,
  Forall P (map s_entries l) -> Forall P (map s_entries (sst_sort l)).
Proof.
  intros P l H. rewrite Forall_forall in *. intros t Ht. apply in_map_iff in Ht.
  destruct Ht as (x & <- & Hx). apply (proj1 (sst_sort_in _ _)) in Hx. apply H. apply in_map. exact Hx.
Qed.

Lemma reopen_files_snoc : forall s F f, wal_files s = F ++ [f] -> reopen_files s = F ++ [f].
Proof.
  intros s F f H. unfold reopen_files. rewrite H. destruct F; reflexivity.
Qed.

Lemma InvF_reopen_ok : forall s h tbls maxseq,
  InvF s h -> recovered s = Some (tbls, maxseq) -> InvF (reopen s) h.
Proof.
  intros s h tbls maxseq (hs0 & hl & Hh & Hf & Hs) R. rewrite (reopen_some s tbls maxseq R).
  exists hs0, hl. unfold tabs_of in *; proj. split; [exact Hh|]. split.
  - apply reopen_files_snoc. exact Hf.
  - intros Hl. apply tabs_sst_sort. exact (Hs Hl).
Qed.

Lemma InvF_reopen_fail : forall s, recovered s = None -> InvF (reopen s) [].
Proof.
  intros s R. rewrite (reopen_none s R). exists [], []. proj.
  split; [reflexivity|]. split; [reflexivity|discriminate].
Qed.

Definition CInv (s : st) (h : hist) : Prop := Inv s h /\ InvF s h.

Lemma CInv_step : forall s h o, CInv s h -> CInv (step s o) (step_hist s o h).
Proof.
  intros s h o [I F]. split; [apply Inv_step; exact I|].
  destruct o as [k v|k|ops|ops|ops| | |k]; cbn [step step_hist]; try exact F.
  - rewrite put_as_batch. exact (InvF_apply_batch s h [(k, Some v)] (WPut k v) I F eq_refl).
  - rewrite del_as_batch. exact (InvF_apply_batch s h [(k, None)] (WDel k) I F eq_refl).
  - exact (InvF_apply_batch s h ops (WBatch ops) I F eq_refl).
  - rewrite tx_commit_as_batch.
    pose proof (InvF_apply_batch s h (buffer_ops ops) (WBatch (buffer_ops ops)) I F eq_refl) as B.
    destruct (buffer_ops ops); exact B.
  - apply InvF_flush; assumption.
  - destruct (recovered s) as [[tbls maxseq]|] eqn:R.
    + eapply InvF_reopen_ok; eassumption.
    + apply InvF_reopen_fail. exact R.
Qed.

Lemma CInv_steps : forall ops s h, CInv s h -> CInv (fold_left step ops s) (epoch s ops h).
Proof.
  induction ops as [|o r IH]; intros s h C; [exact C|].
  cbn [fold_left epoch]. apply IH. apply CInv_step. exact C.
Qed.

Lemma CInv_run : forall c ops, CInv (run c ops) (epoch (init c) ops []).
Proof. intros. unfold run. apply CInv_steps. split; [apply Inv_init|apply InvF_init]. Qed.

(* ------------------------------------------------------------------------------------ *)
(* Part H: crash and recovery                                                              *)
(* ------------------------------------------------------------------------------------ *)

Definition below (q : N) (p : N * wop) : bool := fst p <? q.

Lemma cut_seq_wstamp : forall q p, cut_seq q (wstamp p) = if below q p then wstamp p else [].
Proof.
  intros q p. unfold cut_seq, wstamp, below.
  induction (effects (snd p)) as [|o l IH]; cbn [map filter].
  - destruct (fst p <? q); reflexivity.
  - rewrite wseq_bop_entry, IH. destruct (fst p <? q); reflexivity.
Qed.

Lemma cut_seq_wentries : forall q l, cut_seq q (wentries l) = wentries (filter (below q) l).
Proof.
  intros q l. induction l as [|p l IH]; [reflexivity|].
  change (wentries (p :: l)) with (wstamp p ++ wentries l).
  unfold cut_seq in *. rewrite filter_app. fold (cut_seq q (wstamp p)).
  rewrite cut_seq_wstamp, IH. cbn [filter]. destruct (below q p); reflexivity.
Qed.

(* on a strictly increasing list the writes below q are a prefix *)
Lemma filter_below_prefix : forall q l,
  StronglySorted N.lt (map fst l) ->
  filter (below q) l = firstn (length (filter (below q) l)) l.
Proof.
  intros q l. induction l as [|p l IH]; intros Hs; [reflexivity|].
  cbn [map] in Hs. inversion Hs as [|? ? Hs' Hf]; subst. cbn [filter].
  destruct (below q p) eqn:B.
  - cbn [length firstn]. rewrite <- IH by exact Hs'. reflexivity.
  - assert (E : filter (below q) l = []).
    { clear IH. induction l as [|p' l IHl]; [reflexivity|].
      cbn [map] in *. inversion Hf as [|? ? Hp' Hf']; subst. inversion Hs' as [|? ? Hs'' _]; subst.
      cbn [filter]. unfold below in *.
      assert (E' : (fst p' <? q) = false) by lia. rewrite E'. apply IHl; assumption. }
    rewrite E. reflexivity.
Qed.

Lemma SS_firstn : forall (A : Type) (R : A -> A -> Prop) n l,
  StronglySorted R l -> StronglySorted R (firstn n l).
Proof.
  intros A R n l H. rewrite <- (firstn_skipn n l) in H. apply SS_app in H. tauto.
Qed.

Lemma Forall_firstn_ : forall (A : Type) (P : A -> Prop) n l, Forall P l -> Forall P (firstn n l).
Proof.
  intros A P n l H. rewrite <- (firstn_skipn n l) in H. apply Forall_app in H. tauto.
Qed.

Lemma existsb_eqb_in : forall n l, existsb (N.eqb n) l = true <-> In n l.
Proof.
  intros n l. rewrite existsb_exists. split.
  - intros (x & Hx & E). apply N.eqb_eq in E. subst. exact Hx.
  - intros H. exists n. split; [exact H|apply N.eqb_refl].
Qed.

Lemma filter_map_length : forall (A B : Type) (f : B -> bool) (g : A -> B) l,
  length (filter f (map g l)) = length (filter (fun x => f (g x)) l).
Proof.
  intros A B f g l. induction l as [|x l IH]; [reflexivity|].
  cbn [map filter]. destruct (f (g x)); cbn [length]; rewrite IH; reflexivity.
Qed.

Lemma seq_in_wentries : forall l p,
  In p l -> effects (snd p) <> [] -> In (fst p) (map w_seq (wentries l)).
Proof.
  intros l p Hp Hne. destruct (effects (snd p)) as [|o r] eqn:E; [congruence|].
  apply in_map_iff. exists (bop_entry (fst p) o). split; [apply wseq_bop_entry|].
  apply in_wentries. exists p, o. split; [exact Hp|]. split; [rewrite E; left; reflexivity|reflexivity].
Qed.

Lemma wentries_seq_from : forall l n, In n (map w_seq (wentries l)) -> In n (map fst l).
Proof.
  intros l n H. apply in_map_iff in H. destruct H as (e & <- & He).
  apply in_wentries in He. destruct He as (p & o & Hp & _ & ->). rewrite wseq_bop_entry.
  apply in_map. exact Hp.
Qed.

(* the number of survivors, from the file split *)
Lemma surv_count_split : forall s q hs0 hl,
  wal_files s = map wentries hs0 ++ [wentries hl] ->
  StronglySorted N.lt (map fst (concat hs0 ++ hl)) ->
  Forall (fun p => effects (snd p) <> []) (concat hs0 ++ hl) ->
  surv_count s q (map fst (concat hs0 ++ hl))
  = (length (concat hs0) + length (filter (below q) hl))%nat.
Proof.
  intros s q hs0 hl Hf Hs Hne.
  assert (Hc : closed_seqs s = map w_seq (wentries (concat hs0))).
  { unfold closed_seqs. rewrite Hf, removelast_last, wentries_concat. reflexivity. }
  unfold surv_count. rewrite map_app, filter_app, app_length.
  rewrite map_app in Hs. apply SS_app in Hs. destruct Hs as (_ & _ & Hcross).
  apply Forall_app in Hne. destruct Hne as [Hne0 _]. f_equal.
  - rewrite filter_all; [apply map_length|].
    intros n Hn. apply in_map_iff in Hn. destruct Hn as (p & <- & Hp).
    unfold survives. apply orb_true_iff. right. apply existsb_eqb_in. rewrite Hc.
    apply seq_in_wentries; [exact Hp|]. rewrite Forall_forall in Hne0. exact (Hne0 p Hp).
  - rewrite <- filter_map_length with (f := fun n => n <? q) (g := fst).
    f_equal. apply filter_ext_in. intros n Hn. unfold survives.
    destruct (existsb (N.eqb n) (closed_seqs s)) eqn:E; [|apply orb_false_r].
    exfalso. apply existsb_eqb_in in E. rewrite Hc in E. apply wentries_seq_from in E.
    specialize (Hcross n n E Hn). lia.
Qed.

Lemma key_written_mono : forall h1 h2 x, key_written h1 x -> key_written (h1 ++ h2) x.
Proof.
  intros h1 h2 x H. unfold key_written in *. rewrite entries_app, map_app.
  apply in_or_app. left. exact H.
Qed.

(* The state after a process stop with bound q and recovery: the invariants hold again, for
   the prefix of the history that survived. [h] is the history of the crashed state. *)
Lemma crash_recover_CInv : forall s h q tbls maxseq,
  CInv s h -> recovered (crash s q) = Some (tbls, maxseq) ->
  CInv (recover (crash s q)) (firstn (surv_count s q (map fst h)) h).
Proof.
  intros s h q tbls maxseq [I (hs0 & hl & Hh & Hf & Hs)] R.
  assert (Hm : surv_count s q (map fst h) = (length (concat hs0) + length (filter (below q) hl))%nat).
  { rewrite Hh. apply surv_count_split; [exact Hf| |]; rewrite <- Hh.
    - exact (inv_sorted s h I).
    - exact (inv_nonempty s h I). }
  assert (Hsl : StronglySorted N.lt (map fst hl)).
  { pose proof (inv_sorted s h I) as S. rewrite Hh, map_app in S. apply SS_app in S. tauto. }
  assert (Hpre : firstn (surv_count s q (map fst h)) h = concat hs0 ++ filter (below q) hl).
  { rewrite Hm. rewrite Hh at 2. rewrite firstn_app_2, <- filter_below_prefix by exact Hsl. reflexivity. }
  assert (Hcf : wal_files (crash s q) = map wentries hs0 ++ [wentries (filter (below q) hl)]).
  { unfold crash, on_disk; proj. rewrite Hf, map_last_snoc, cut_seq_wentries. reflexivity. }
  assert (D : DiskInv (crash s q) (firstn (surv_count s q (map fst h)) h)).
  { constructor.
    - rewrite firstn_map. apply SS_firstn. exact (inv_sorted s h I).
    - apply Forall_firstn_. exact (inv_nonempty s h I).
    - rewrite Hcf, Hpre, concat_app, wentries_app, wentries_concat. cbn [concat].
      rewrite app_nil_r. reflexivity.
    - unfold crash at 1 2, on_disk; proj. intros Hl. rewrite Hpre.
      eapply Forall_impl; [|exact (Hs Hl)]. intros l Hlf. eapply Forall_impl; [|exact Hlf].
      intros x Hx. apply key_written_mono. exact Hx. }
  unfold recover. split.
  - eapply Inv_reopen_disk; eassumption.
  - rewrite (reopen_some _ tbls maxseq R). exists hs0, (filter (below q) hl).
    unfold tabs_of; proj. split; [exact Hpre|]. split.
    + apply reopen_files_snoc. exact Hcf.
    + unfold crash at 1 2, on_disk; proj. intros Hl. apply tabs_sst_sort. exact (Hs Hl).
Qed.
