(* ScanProofs.v — C05 at the level of the engine: the iterators the engine and the
   transactions build (Iter.v) over a reachable engine state (Engine.v) surface exactly
   spec_view of the acknowledged history; scans, range scans, Seek, SeekToLast follow from the
   lawfulness results of IterProofs.v. *)
From Coq Require Import List NArith Bool Lia Sorted Arith PeanoNat.
From KV Require Import Bytes Spec ScanSpec Memtable MemtableProofs Engine EngineProofs Iter IterProofs.
Import ListNotations.
Open Scope N_scope.

(* ------------------------------------------------------------------------------------ *)
(* Part A: the specification lists                                                         *)
(* ------------------------------------------------------------------------------------ *)

Definition kasc (l : list bytes) : Prop := StronglySorted (fun a b => blt a b = true) l.

Lemma kinsert_in : forall k l x, In x (kinsert k l) <-> x = k \/ In x l.
Proof.
  intros k l x. induction l as [|y r IH]; cbn [kinsert In].
  - intuition congruence.
  - destruct (bcmp k y) eqn:C; cbn [In].
    + apply bcmp_eq in C. subst y. intuition congruence.
    + intuition congruence.
    + rewrite IH. intuition congruence.
Qed.

Lemma kinsert_kasc : forall k l, kasc l -> kasc (kinsert k l).
Proof.
  intros k l H. induction H as [|y r Hs IH Hf]; cbn [kinsert]; [repeat constructor|].
  destruct (bcmp k y) eqn:C.
  - constructor; assumption.
  - assert (B : blt k y = true) by (apply blt_true_iff; exact C).
    constructor; [constructor; assumption|]. constructor; [exact B|].
    rewrite Forall_forall in *. intros z Hz. eapply blt_trans; eauto.
  - assert (B : blt y k = true) by (apply blt_true_iff; apply bcmp_gt_lt; exact C).
    constructor; [exact IH|]. rewrite Forall_forall in *. intros z Hz.
    apply kinsert_in in Hz. destruct Hz as [->|Hz]; [exact B|apply Hf; exact Hz].
Qed.

Lemma spec_keys_kasc : forall h, kasc (spec_keys h).
Proof.
  intros h. unfold spec_keys. induction (map fst (flat h)) as [|k l IH]; cbn [fold_right]; [constructor|].
  apply kinsert_kasc. exact IH.
Qed.

Lemma spec_keys_in : forall h k, In k (spec_keys h) <-> In k (map fst (flat h)).
Proof.
  intros h k. unfold spec_keys. induction (map fst (flat h)) as [|x l IH]; cbn [fold_right In]; [tauto|].
  rewrite kinsert_in, IH. split; intros [E|H]; auto.
Qed.

Lemma last_effect_none_iff : forall k l, last_effect k l = None <-> ~ In k (map fst l).
Proof.
  intros k l. induction l as [|[k' v] r IH]; cbn [last_effect map In fst]; [tauto|].
  destruct (last_effect k r) as [x|] eqn:E.
  - split; [discriminate|]. intros H. exfalso. apply H. right.
    destruct (in_dec (list_eq_dec N.eq_dec) k (map fst r)) as [Hin|Hn]; [exact Hin|].
    apply IH in Hn. discriminate.
  - destruct (beq k' k) eqn:B.
    + split; [discriminate|]. intros H. exfalso. apply H. left. apply beq_true_iff. exact B.
    + apply beq_false_iff in B. split; [|reflexivity]. intros _ [H|H]; [exact (B H)|].
      apply (proj1 IH eq_refl). exact H.
Qed.

Lemma spec_view_strict : forall h, kstrict (spec_view h).
Proof.
  intros h. unfold spec_view. pose proof (spec_keys_kasc h) as H.
  induction H as [|k r Hs IH Hf]; cbn [map]; constructor; [exact IH|].
  rewrite Forall_forall in *. intros x Hx. apply in_map_iff in Hx. destruct Hx as (k' & <- & Hk').
  unfold klt. cbn [fst]. apply Hf. exact Hk'.
Qed.

(* every written key with its latest effect *)
Lemma spec_view_in : forall h k v, In (k, v) (spec_view h) <-> latest h k = Some v.
Proof.
  intros h k v. unfold spec_view. rewrite in_map_iff. split.
  - intros (k' & E & Hk). injection E as -> <-. apply spec_keys_in in Hk.
    unfold latest. destruct (last_effect k (flat h)) as [x|] eqn:Le; [reflexivity|].
    apply last_effect_none_iff in Le. contradiction.
  - intros Hl. exists k. rewrite Hl. split; [reflexivity|]. apply spec_keys_in.
    unfold latest in Hl. destruct (in_dec (list_eq_dec N.eq_dec) k (map fst (flat h))) as [Hin|Hn]; [exact Hin|].
    apply last_effect_none_iff in Hn. congruence.
Qed.

(* dropping the deletion markers of the view = the live keys of Spec.v *)
Lemma live_spec_view : forall h (p : bytes -> bool),
  live (filter (fun x => p (fst x)) (spec_view h)) = spec_live h (filter p (spec_keys h)).
Proof.
  intros h p. unfold spec_view, spec_live, live. induction (spec_keys h) as [|k r IH]; [reflexivity|].
  cbn [map filter fst]. destruct (p k); cbn [flat_map]; [|exact IH].
  rewrite IH. cbn [fst snd]. unfold spec_get. destruct (latest h k) as [[v|]|]; reflexivity.
Qed.

Lemma take_lim_0 : forall limit l,
  take_lim limit 0 l = if 0 <? limit then firstn (N.to_nat limit) l else l.
Proof. intros. unfold take_lim. rewrite N.sub_0_r. reflexivity. Qed.

(* the entries within bounds = filtering a strictly ascending list by the range *)
Lemma in_bounds_filter : forall lo hi l, kstrict l ->
  in_bounds lo hi l = filter (fun x => in_range lo hi (fst x)) l.
Proof.
  intros lo hi l H. apply kstrict_ext.
  - apply in_bounds_kstrict. exact H.
  - induction H as [|x r Hs IH Hf]; cbn [filter]; [constructor|].
    destruct (in_range lo hi (fst x)); [|exact IH].
    constructor; [exact IH|]. rewrite Forall_forall in *. intros y Hy. apply filter_In in Hy. apply Hf. tauto.
  - intros x. rewrite in_bounds_in by exact H. rewrite filter_In. unfold in_range, in_lo, in_hi.
    rewrite andb_true_iff. tauto.
Qed.

(* ------------------------------------------------------------------------------------ *)
(* Part B: the sources of an engine state                                                  *)
(* ------------------------------------------------------------------------------------ *)

(* the layers are well formed: an iterator sees the whole (sorted) memtable, and every
   SSTable has one entry per key in ascending order *)
Definition stack_ok (s : st) : Prop :=
  (forall m, In m (mem_layers s) -> mt_iter_entries m = mt_entries m /\ sorted (mt_entries m)) /\
  (forall t, In t (ssts s) -> kstrict (map kv_of_sentry (s_entries t))).

Lemma mem_ksorted : forall l, sorted l -> ksorted (map kv_of_mentry l).
Proof.
  intros l H. apply sorted_strong in H. induction H as [|x r Hs IH Hf]; cbn [map]; constructor; [exact IH|].
  rewrite Forall_forall in *. intros y Hy. apply in_map_iff in Hy. destruct Hy as (e & <- & He).
  specialize (Hf e He). apply ele_iff in Hf. unfold kle, kv_of_mentry. cbn [fst].
  apply blt_false_iff. destruct Hf as [Hf|[Hf _]]; [right; exact Hf|left; symmetry; exact Hf].
Qed.

Lemma eng_sources_ok : forall s, stack_ok s -> Forall src_ok (eng_sources s).
Proof.
  intros s (Hm & Ht). unfold eng_sources. apply Forall_app. split; rewrite Forall_forall; intros x Hx;
    apply in_map_iff in Hx; destruct Hx as (y & <- & Hy).
  - destruct (Hm y Hy) as (Hi & Hs). unfold src_ok, mem_src. cbn [s_all s_kind s_cur]. rewrite Hi.
    split; [apply mem_ksorted; exact Hs|]. split; [left; reflexivity|].
    exists (map kv_of_mentry (mt_entries y)). symmetry. apply app_nil_r.
  - apply in_rev in Hy. pose proof (Ht y Hy) as K. unfold src_ok, sst_src. cbn [s_all s_kind s_cur].
    split; [apply kstrict_ksorted; exact K|]. split; [right; exact K|].
    exists (map kv_of_sentry (s_entries y)). symmetry. apply app_nil_r.
Qed.

(* what an engine iterator state denotes *)
Definition eng_ok : hier src -> Prop := hier_ok src_ok s_all s_cur.
Definition eng_content : hier src -> list kv := hier_content s_all.
Definition eng_rest : hier src -> list kv := hier_rest s_all.

Lemma Leng : Lawful eng_it eng_ok eng_content eng_rest.
Proof. exact (hier_lawful src_iter src_ok s_all s_cur src_lawful). Qed.

Lemma Xeng : ExactSeek eng_it eng_ok eng_content eng_rest.
Proof. exact (hier_exact src_iter src_ok s_all s_cur src_lawful). Qed.

Lemma eng_iter_ok : forall s, stack_ok s -> eng_ok (eng_iter s).
Proof.
  intros s H. unfold eng_ok, hier_ok, eng_iter, hier_new. cbn [h_srcs h_valid].
  split; [apply eng_sources_ok; exact H|discriminate].
Qed.

(* ------------------------------------------------------------------------------------ *)
(* Part C: the stack of a reachable state shows the acknowledged history                   *)
(* ------------------------------------------------------------------------------------ *)

Lemma lookup_mem : forall k l,
  lookup k (map kv_of_mentry l) = option_map (fun e => snd (kv_of_mentry e)) (first_key k l).
Proof.
  intros k l. induction l as [|x r IH]; [reflexivity|]. cbn [map lookup first_key].
  change (fst (kv_of_mentry x)) with (mk x). destruct (beq (mk x) k); [reflexivity|exact IH].
Qed.

Lemma mt_get_lookup : forall m k, sorted (mt_entries m) -> mt_iter_entries m = mt_entries m ->
  lookup k (s_all (mem_src m)) = mt_get m k.
Proof.
  intros m k Hs Hi. unfold mem_src. cbn [s_all]. rewrite Hi, lookup_mem. unfold mt_get.
  rewrite (find_sorted k _ Hs). destruct (first_key k (mt_entries m)); reflexivity.
Qed.

Lemma first_val_mems : forall k layers,
  (forall m, In m layers -> mt_iter_entries m = mt_entries m /\ sorted (mt_entries m)) ->
  first_val k (map s_all (map mem_src layers)) = mems_get k layers.
Proof.
  intros k layers. induction layers as [|m r IH]; intros H; [reflexivity|].
  cbn [map first_val mems_get]. destruct (H m (or_introl eq_refl)) as (Hi & Hs).
  rewrite (mt_get_lookup m k Hs Hi). destruct (mt_get m k); [reflexivity|].
  apply IH. intros m' Hm'. apply H. right. exact Hm'.
Qed.

Lemma first_val_app : forall k a b,
  first_val k (a ++ b) = match first_val k a with Some v => Some v | None => first_val k b end.
Proof.
  intros k a b. induction a as [|c a IH]; [reflexivity|]. cbn [app first_val].
  destruct (lookup k c); [reflexivity|exact IH].
Qed.

Theorem eng_first_val : forall s h k, Inv s h -> lost_log s = false -> stack_ok s ->
  first_val k (map s_all (eng_sources s)) = latest (map snd h) k.
Proof.
  intros s h k I Hl (Hm & Ht). unfold eng_sources. rewrite map_app, first_val_app.
  rewrite (first_val_mems k (mem_layers s) Hm), (mems_get_inv s h k I).
  destruct (latest (map snd h) k) as [x|] eqn:La; [reflexivity|].
  (* never written: no table can have the key *)
  apply first_val_none_iff. intros c x Hc Hx Hk.
  apply in_map_iff in Hc. destruct Hc as (sr & <- & Hsr).
  apply in_map_iff in Hsr. destruct Hsr as (t & <- & Ht'). apply in_rev in Ht'.
  unfold sst_src in Hx. cbn [s_all] in Hx. apply in_map_iff in Hx. destruct Hx as (e & <- & He).
  pose proof (inv_ssts s h I Hl) as HS. rewrite Forall_forall in HS.
  specialize (HS (s_entries t) (in_map s_entries _ _ Ht')). rewrite Forall_forall in HS.
  specialize (HS e He). unfold key_written in HS. apply in_map_iff in HS. destruct HS as (me & Hme & Hin).
  unfold latest in La. rewrite <- map_eff_entries in La.
  apply last_effect_none_iff in La. apply La. rewrite map_map.
  apply in_map_iff. exists me. split; [|exact Hin]. unfold eff. cbn [fst kv_of_sentry] in *. congruence.
Qed.

(* the merged view of the engine's sources is the view of the history *)
Theorem eng_view : forall s h, Inv s h -> lost_log s = false -> stack_ok s ->
  eng_content (eng_iter s) = spec_view (map snd h).
Proof.
  intros s h I Hl Hok. unfold eng_content, hier_content, h_contents, eng_iter, hier_new. cbn [h_srcs].
  assert (Hs : Forall ksorted (map s_all (eng_sources s))).
  { apply (contents_sorted src_iter src_ok s_all s_cur src_lawful). apply eng_sources_ok. exact Hok. }
  apply kstrict_ext; [apply merge_view_strict; exact Hs|apply spec_view_strict|].
  intros [k v]. rewrite (merge_view_in _ k v Hs), (eng_first_val s h k I Hl Hok), spec_view_in. tauto.
Qed.

(* reachable states have well-formed layers *)
From KV Require Import EngineCrashProofs.

Lemma key_asc_kstrict : forall l, key_asc l -> kstrict (map kv_of_sentry l).
Proof.
  intros l H. induction H as [|x r Hs IH Hf]; cbn [map]; constructor; [exact IH|].
  rewrite Forall_forall in *. intros y Hy. apply in_map_iff in Hy. destruct Hy as (e & <- & He).
  unfold klt, kv_of_sentry. cbn [fst]. apply blt_true_iff. apply Hf. exact He.
Qed.

Theorem stack_ok_reachable : forall s, reachable s -> stack_ok s.
Proof.
  intros s R. destruct (reachable_Inv s R) as (h & I). split.
  - intros m Hm. split; [apply (reach_iter_all s m R Hm)|].
    apply (layer_sorted s h m I). unfold mem_layers in Hm. destruct Hm as [<-|Hm]; [left; reflexivity|].
    right. apply in_rev. exact Hm.
  - intros t Ht. apply key_asc_kstrict. pose proof (reach_key_asc s R) as F. rewrite Forall_forall in F.
    apply F. unfold tabs_of. apply in_map. exact Ht.
Qed.

(* ------------------------------------------------------------------------------------ *)
(* Part D: engine iterators over a reachable state                                         *)
(* ------------------------------------------------------------------------------------ *)

Lemma eng_strict : forall h, eng_ok h -> kstrict (eng_content h).
Proof.
  intros h (H & _). apply merge_view_strict.
  apply (contents_sorted src_iter src_ok s_all s_cur src_lawful). exact H.
Qed.

Definition rng_content (lo hi : option bytes) : hier src -> list kv := b_content eng_content lo hi.
Definition rng_rest (lo hi : option bytes) : hier src -> list kv := b_rest eng_it eng_rest lo hi.

Lemma Lrng : forall lo hi, Lawful (eng_range_it lo hi) eng_ok (rng_content lo hi) (rng_rest lo hi).
Proof. intros lo hi. exact (bounded_lawful eng_it eng_ok eng_content eng_rest Leng eng_strict lo hi). Qed.

(* a state of a run, its acknowledged history and the invariant *)
Lemma run_facts : forall c ops, lost_log (run c ops) = false ->
  exists h, Inv (run c ops) h /\ map snd h = acked (init c) ops /\ stack_ok (run c ops).
Proof.
  intros c ops Hl. exists (epoch (init c) ops []). split; [apply Inv_run|]. split.
  - unfold run in Hl. rewrite (epoch_snd ops (init c) [] Hl). reflexivity.
  - apply stack_ok_reachable. exists c, ops. reflexivity.
Qed.

Lemma filter_ext_in_range : forall lo hi (l : list bytes),
  filter (fun k => in_range lo hi k && true) l = filter (in_range lo hi) l.
Proof. intros. apply filter_ext. intros k. apply andb_true_r. Qed.

(* the iterator surfaces every written key of the range once, ascending, with its latest
   effect (a deleted key as a deletion marker) *)
Theorem eng_collect_range : forall c ops lo hi, lost_log (run c ops) = false ->
  collect (eng_range_it lo hi) (eng_iter (run c ops)) =
  filter (fun x => in_range lo hi (fst x)) (spec_view (acked (init c) ops)).
Proof.
  intros c ops lo hi Hl. destruct (run_facts c ops Hl) as (h & I & Eh & Hok).
  rewrite (collect_spec _ _ _ _ (Lrng lo hi) _ (eng_iter_ok _ Hok)).
  unfold rng_content, b_content. rewrite (eng_view _ h I Hl Hok), Eh.
  apply in_bounds_filter. apply spec_view_strict.
Qed.

Theorem eng_collect_full : forall c ops, lost_log (run c ops) = false ->
  collect eng_it (eng_iter (run c ops)) = spec_view (acked (init c) ops).
Proof.
  intros c ops Hl. destruct (run_facts c ops Hl) as (h & I & Eh & Hok).
  rewrite (collect_spec _ _ _ _ Leng _ (eng_iter_ok _ Hok)), (eng_view _ h I Hl Hok), Eh. reflexivity.
Qed.

(* the consumer of service.Scan over the engine's range iterator *)
Theorem eng_scan_range : forall c ops lo hi limit, lost_log (run c ops) = false ->
  scan (eng_range_it lo hi) limit (eng_iter (run c ops)) =
  spec_scan_limit (acked (init c) ops) lo hi (fun _ => true) limit.
Proof.
  intros c ops lo hi limit Hl. destruct (run_facts c ops Hl) as (h & I & Eh & Hok).
  rewrite (scan_spec _ _ _ _ (Lrng lo hi) limit _ (eng_iter_ok _ Hok)), take_lim_0.
  unfold rng_content, b_content. rewrite (eng_view _ h I Hl Hok), Eh.
  rewrite (in_bounds_filter lo hi _ (spec_view_strict _)), live_spec_view.
  unfold spec_scan_limit, spec_scan. rewrite filter_ext_in_range. reflexivity.
Qed.

Lemma filter_true : forall (A : Type) (l : list A), filter (fun _ => true) l = l.
Proof. induction l as [|x r IH]; [reflexivity|]. cbn [filter]. rewrite IH. reflexivity. Qed.

Lemma live_spec_view_all : forall h, live (spec_view h) = spec_live h (spec_keys h).
Proof.
  intros h. unfold spec_view, spec_live, live. induction (spec_keys h) as [|k r IH]; [reflexivity|].
  cbn [map flat_map]. rewrite IH. cbn [fst snd]. unfold spec_get. destruct (latest h k) as [[v|]|]; reflexivity.
Qed.

Theorem eng_scan_full : forall c ops limit, lost_log (run c ops) = false ->
  scan eng_it limit (eng_iter (run c ops)) =
  spec_scan_limit (acked (init c) ops) None None (fun _ => true) limit.
Proof.
  intros c ops limit Hl. destruct (run_facts c ops Hl) as (h & I & Eh & Hok).
  rewrite (scan_spec _ _ _ _ Leng limit _ (eng_iter_ok _ Hok)), take_lim_0.
  rewrite (eng_view _ h I Hl Hok), Eh.
  rewrite live_spec_view_all. unfold spec_scan_limit, spec_scan.
  rewrite (filter_ext (fun k => in_range None None k && true) (fun _ => true)) by reflexivity.
  rewrite filter_true. reflexivity.
Qed.

(* positions *)
Theorem eng_seek : forall c ops t, lost_log (run c ops) = false ->
  least_ge (spec_view (acked (init c) ops)) t (pos eng_it (fst (i_seek eng_it t (eng_iter (run c ops))))).
Proof.
  intros c ops t Hl. destruct (run_facts c ops Hl) as (h & I & Eh & Hok).
  pose proof (seek_least eng_it eng_ok eng_content eng_rest Leng t _ (eng_iter_ok _ Hok) Xeng) as P.
  rewrite (eng_view _ h I Hl Hok), Eh in P. exact P.
Qed.

Theorem eng_seek_last : forall c ops, lost_log (run c ops) = false ->
  greatest (spec_view (acked (init c) ops)) (pos eng_it (i_last eng_it (eng_iter (run c ops)))).
Proof.
  intros c ops Hl. destruct (run_facts c ops Hl) as (h & I & Eh & Hok).
  pose proof (last_greatest eng_it eng_ok eng_content eng_rest Leng _ (eng_iter_ok _ Hok)) as P.
  rewrite (eng_view _ h I Hl Hok), Eh in P. exact P.
Qed.

(* any sequence of repositionings keeps the iterator lawful, so Next after any of them yields
   the next greater key; stated for the state after a Seek *)
Theorem eng_next_after_seek : forall c ops t, lost_log (run c ops) = false ->
  let s1 := fst (i_seek eng_it t (eng_iter (run c ops))) in
  i_valid eng_it s1 = true ->
  least_gt (spec_view (acked (init c) ops)) (i_key eng_it s1) (pos eng_it (fst (i_next eng_it s1))).
Proof.
  intros c ops t Hl s1 V. destruct (run_facts c ops Hl) as (h & I & Eh & Hok).
  destruct (L_seek _ _ _ _ Leng t _ (eng_iter_ok _ Hok)) as (A1 & A2 & _). fold s1 in A1, A2.
  pose proof (next_least_gt eng_it eng_ok eng_content eng_rest Leng s1 A1 (eng_strict _ A1) V) as P.
  rewrite A2, (eng_view _ h I Hl Hok), Eh in P. exact P.
Qed.

Theorem eng_range_seek_last : forall c ops lo hi, lost_log (run c ops) = false ->
  greatest (filter (fun x => in_range lo hi (fst x)) (spec_view (acked (init c) ops)))
           (pos (eng_range_it lo hi) (i_last (eng_range_it lo hi) (eng_iter (run c ops)))).
Proof.
  intros c ops lo hi Hl. destruct (run_facts c ops Hl) as (h & I & Eh & Hok).
  pose proof (last_greatest _ _ _ _ (Lrng lo hi) _ (eng_iter_ok _ Hok)) as P.
  unfold rng_content, b_content in P. rewrite (eng_view _ h I Hl Hok), Eh in P.
  rewrite (in_bounds_filter lo hi _ (spec_view_strict _)) in P. exact P.
Qed.

(* Seek of the range iterator: the least key >= target within the range; with the pinned
   BoundedIterator.Seek a target at or behind the end bound leaves the position unchanged *)
Theorem eng_range_seek : forall c ops lo hi t, lost_log (run c ops) = false ->
  let view := filter (fun x => in_range lo hi (fst x)) (spec_view (acked (init c) ops)) in
  let s0 := eng_iter (run c ops) in
  least_ge view t (pos (eng_range_it lo hi) (fst (i_seek (eng_range_it lo hi) t s0))) \/
  ((forall y, In y view -> blt (fst y) t = true) /\
   pos (eng_range_it lo hi) (fst (i_seek (eng_range_it lo hi) t s0)) = pos (eng_range_it lo hi) s0 /\
   snd (i_seek (eng_range_it lo hi) t s0) = false).
Proof.
  intros c ops lo hi t Hl view s0. destruct (run_facts c ops Hl) as (h & I & Eh & Hok).
  pose proof (seek_least_weak _ _ _ _ (Lrng lo hi) t _ (eng_iter_ok _ Hok)) as P.
  unfold rng_content, b_content in P. rewrite (eng_view _ h I Hl Hok), Eh in P.
  rewrite (in_bounds_filter lo hi _ (spec_view_strict _)) in P. exact P.
Qed.

(* ------------------------------------------------------------------------------------ *)
(* Part E: transaction iterators: the buffered operations overlaid                         *)
(* ------------------------------------------------------------------------------------ *)

Lemma buf_set_in : forall o l x, In x (buf_set o l) -> x = o \/ In x l.
Proof.
  intros o l x. induction l as [|y r IH]; cbn [buf_set]; [intros [E|[]]; left; congruence|].
  destruct (bcmp (fst y) (fst o)); cbn [In].
  - intros [E|H]; [left; congruence|right; right; exact H].
  - intros [E|H]; [right; left; exact E|]. destruct (IH H); [left|right; right]; assumption.
  - intros [E|[E|H]]; [left; congruence|right; left; exact E|right; right; exact H].
Qed.

Lemma buf_set_strict : forall o l, kstrict l -> kstrict (buf_set o l).
Proof.
  intros o l H. induction H as [|y r Hs IH Hf]; cbn [buf_set]; [repeat constructor|].
  destruct (bcmp (fst y) (fst o)) eqn:C.
  - apply bcmp_eq in C. constructor; [exact Hs|]. rewrite Forall_forall in *. intros z Hz.
    unfold klt in *. rewrite <- C. apply Hf. exact Hz.
  - constructor; [exact IH|]. rewrite Forall_forall in *. intros z Hz.
    apply buf_set_in in Hz. destruct Hz as [->|Hz]; [unfold klt; apply blt_true_iff; exact C|apply Hf; exact Hz].
  - assert (B : klt o y) by (unfold klt; apply blt_true_iff; apply bcmp_gt_lt; exact C).
    constructor; [constructor; assumption|]. constructor; [exact B|].
    rewrite Forall_forall in *. intros z Hz. unfold klt in *. eapply blt_trans; [exact B|apply Hf; exact Hz].
Qed.

Lemma lookup_buf_set : forall k o l, kstrict l ->
  lookup k (buf_set o l) = if beq (fst o) k then Some (snd o) else lookup k l.
Proof.
  intros k o l H. induction H as [|y r Hs IH Hf]; cbn [buf_set lookup]; [reflexivity|].
  destruct (bcmp (fst y) (fst o)) eqn:C; cbn [lookup].
  - apply bcmp_eq in C. rewrite C. destruct (beq (fst o) k); reflexivity.
  - rewrite IH. destruct (beq (fst y) k) eqn:B; [|reflexivity].
    apply beq_true_iff in B. assert (N : beq (fst o) k = false).
    { apply beq_false_iff. intros E. rewrite <- B in E. rewrite E, bcmp_refl in C. discriminate. }
    rewrite N. reflexivity.
  - reflexivity.
Qed.

Lemma buffer_ops_gen : forall ops b k, kstrict b ->
  kstrict (fold_left (fun b o => buf_set o b) ops b) /\
  lookup k (fold_left (fun b o => buf_set o b) ops b) =
  match last_effect k ops with Some x => Some x | None => lookup k b end.
Proof.
  induction ops as [|[k0 v0] ops IH]; intros b k Hb; cbn [fold_left last_effect]; [split; [exact Hb|reflexivity]|].
  destruct (IH (buf_set (k0, v0) b) k (buf_set_strict _ _ Hb)) as (A & B). split; [exact A|].
  rewrite B. destruct (last_effect k ops); [reflexivity|].
  rewrite (lookup_buf_set k (k0, v0) b Hb). cbn [fst snd]. destruct (beq k0 k); reflexivity.
Qed.

Lemma buffer_ops_strict : forall ops, kstrict (buffer_ops ops).
Proof. intros ops. apply (buffer_ops_gen ops [] []). constructor. Qed.

(* the buffer holds the last operation on each key *)
Lemma lookup_buffer_ops : forall ops k, lookup k (buffer_ops ops) = last_effect k ops.
Proof.
  intros ops k. assert (K : kstrict []) by constructor.
  pose proof (proj2 (buffer_ops_gen ops [] k K)) as E. unfold buffer_ops.
  etransitivity; [exact E|]. destruct (last_effect k ops); reflexivity.
Qed.

Lemma buf_set_nonempty : forall o l, buf_set o l <> [].
Proof. intros o [|x r]; cbn [buf_set]; [discriminate|]. destruct (bcmp (fst x) (fst o)); discriminate. Qed.

Lemma fold_buf_nonempty : forall ops (b : list bop), b <> [] -> fold_left (fun b o => buf_set o b) ops b <> [].
Proof.
  induction ops as [|o ops IH]; intros b Hb; [exact Hb|]. cbn [fold_left]. apply IH. apply buf_set_nonempty.
Qed.

Lemma buffer_ops_nil : forall ops, buffer_ops ops = [] -> ops = [].
Proof.
  intros [|o ops] H; [reflexivity|exfalso]. unfold buffer_ops in H. cbn [fold_left] in H.
  exact (fold_buf_nonempty ops _ (buf_set_nonempty o []) H).
Qed.

Lemma lookup_strict : forall l k v, kstrict l -> (lookup k l = Some v <-> In (k, v) l).
Proof.
  intros l k v H. split; [apply lookup_some_in|]. induction H as [|x r Hs IH Hf]; intros Hin; [destruct Hin|].
  cbn [lookup]. destruct Hin as [->|Hin]; [cbn [fst snd]; rewrite beq_refl; reflexivity|].
  rewrite Forall_forall in Hf. specialize (Hf _ Hin). unfold klt in Hf. cbn [fst] in Hf.
  rewrite (beq_false_lt _ _ Hf). apply IH. exact Hin.
Qed.

Lemma lookup_spec_view : forall h k, lookup k (spec_view h) = latest h k.
Proof.
  intros h k. destruct (latest h k) as [v|] eqn:La.
  - apply lookup_strict; [apply spec_view_strict|]. apply spec_view_in. exact La.
  - apply lookup_none_iff. intros [k' v'] Hin E. cbn [fst] in E. subst k'.
    apply spec_view_in in Hin. congruence.
Qed.

(* what a transaction with buffered operations ops must see: the history with its own
   operations already applied *)
Definition overlay (h : list wop) (ops : list bop) : list wop := h ++ [WBatch ops].

Lemma latest_overlay : forall h ops k,
  latest (overlay h ops) k = match last_effect k ops with Some x => Some x | None => latest h k end.
Proof.
  intros h ops k. unfold latest, overlay, flat. rewrite flat_map_app. cbn [flat_map effects].
  rewrite app_nil_r. apply last_effect_app.
Qed.

Lemma merge_buffer_view : forall h ops,
  merge_view [buffer_ops ops; spec_view h] = spec_view (overlay h ops).
Proof.
  intros h ops.
  assert (Hs : Forall ksorted [buffer_ops ops; spec_view h]).
  { repeat constructor; apply kstrict_ksorted; [apply buffer_ops_strict|apply spec_view_strict]. }
  apply kstrict_ext; [apply merge_view_strict; exact Hs|apply spec_view_strict|].
  intros [k v]. rewrite (merge_view_in _ k v Hs), spec_view_in, latest_overlay.
  cbn [first_val]. rewrite lookup_buffer_ops, lookup_spec_view.
  destruct (last_effect k ops); destruct (latest h k); tauto.
Qed.

(* a lawful iterator stays lawful when [ok] also demands a property of the content *)
Lemma Lawful_strengthen : forall S (I : Iter S) ok content rest (P : list kv -> Prop),
  Lawful I ok content rest -> Lawful I (fun s => ok s /\ P (content s)) content rest.
Proof.
  intros S I ok content rest P L. constructor.
  - intros s [H _]. apply (L_sorted _ _ _ _ L s H).
  - intros s [H _]. apply (L_suffix _ _ _ _ L s H).
  - intros s [H _]. apply (L_fuel _ _ _ _ L s H).
  - intros s [H _]. apply (L_valid _ _ _ _ L s H).
  - intros s [H _]. apply (L_key _ _ _ _ L s H).
  - intros s [H _]. apply (L_value _ _ _ _ L s H).
  - intros s [H _]. apply (L_tomb _ _ _ _ L s H).
  - intros s [H HP]. destruct (L_first _ _ _ _ L s H) as (A & B & C). rewrite B. auto.
  - intros s [H HP] V. destruct (L_next _ _ _ _ L s H V) as (A & B & C & D). rewrite B. auto.
  - intros t s [H HP]. destruct (L_seek _ _ _ _ L t s H) as (A & B & C). rewrite B. auto.
  - intros s [H HP]. destruct (L_last _ _ _ _ L s H) as (A & B & C). rewrite B. auto.
Qed.

(* ---- the full transaction iterator ---- *)
Definition in_ok : src + hier src -> Prop := sum_ok src_ok eng_ok.
Definition in_content : src + hier src -> list kv := sum_content s_all eng_content.
Definition in_rest : src + hier src -> list kv := sum_rest s_cur eng_rest.

Lemma Lin : Lawful (sum_iter src_iter eng_it) in_ok in_content in_rest.
Proof. exact (sum_lawful src_iter eng_it src_ok s_all s_cur eng_ok eng_content eng_rest src_lawful Leng). Qed.

Definition txh_ok := hier_ok in_ok in_content in_rest.
Definition txh_content := hier_content in_content.
Definition txh_rest := hier_rest in_content.

Lemma Ltxh : Lawful (hier_iter (sum_iter src_iter eng_it)) txh_ok txh_content txh_rest.
Proof. exact (hier_lawful _ in_ok in_content in_rest Lin). Qed.

Definition tx_ok : txS -> Prop := sum_ok eng_ok txh_ok.
Definition tx_content : txS -> list kv := sum_content eng_content txh_content.
Definition tx_rest : txS -> list kv := sum_rest eng_rest txh_rest.

Lemma Ltx : Lawful tx_it tx_ok tx_content tx_rest.
Proof. exact (sum_lawful eng_it _ eng_ok eng_content eng_rest txh_ok txh_content txh_rest Leng Ltxh). Qed.

Lemma buf_src_ok : forall ops, src_ok (buf_src ops).
Proof.
  intros ops. unfold src_ok, buf_src. cbn [s_all s_kind s_cur].
  split; [apply kstrict_ksorted; apply buffer_ops_strict|]. split; [right; apply buffer_ops_strict|].
  exists (buffer_ops ops). symmetry. apply app_nil_r.
Qed.

Lemma tx_full_ok : forall s ops, stack_ok s -> tx_ok (tx_full s ops).
Proof.
  intros s ops H. unfold tx_full. destruct (buffer_ops ops) eqn:B; cbn [tx_ok sum_ok].
  - apply eng_iter_ok. exact H.
  - unfold txh_ok, hier_ok, hier_new. cbn [h_srcs h_valid]. split; [|discriminate].
    constructor; [cbn [in_ok sum_ok]; apply buf_src_ok|]. constructor; [|constructor].
    cbn [in_ok sum_ok]. apply eng_iter_ok. exact H.
Qed.

Theorem tx_view : forall s h ops, Inv s h -> lost_log s = false -> stack_ok s ->
  tx_content (tx_full s ops) = spec_view (overlay (map snd h) ops).
Proof.
  intros s h ops I Hl Hok. unfold tx_full. destruct (buffer_ops ops) as [|b0 br] eqn:B; cbn [tx_content sum_content].
  - apply buffer_ops_nil in B. subst ops. rewrite (eng_view s h I Hl Hok).
    unfold overlay, spec_view, spec_keys, latest, flat. rewrite flat_map_app. cbn [flat_map effects].
    rewrite !app_nil_r. reflexivity.
  - unfold txh_content, hier_content, h_contents, hier_new. cbn [h_srcs map in_content sum_content].
    rewrite (eng_view s h I Hl Hok). unfold buf_src. cbn [s_all]. apply merge_buffer_view.
Qed.

Lemma tx_run_facts : forall c ops txops, lost_log (run c ops) = false ->
  tx_ok (tx_full (run c ops) txops) /\
  tx_content (tx_full (run c ops) txops) = spec_view (overlay (acked (init c) ops) txops).
Proof.
  intros c ops txops Hl. destruct (run_facts c ops Hl) as (h & I & Eh & Hok).
  split; [apply tx_full_ok; exact Hok|]. rewrite (tx_view _ h txops I Hl Hok), Eh. reflexivity.
Qed.

(* a transaction's full iterator surfaces the history with its own operations applied *)
Theorem tx_collect_full : forall c ops txops, lost_log (run c ops) = false ->
  collect tx_it (tx_full (run c ops) txops) = spec_view (overlay (acked (init c) ops) txops).
Proof.
  intros c ops txops Hl. destruct (tx_run_facts c ops txops Hl) as (Hok & Ec).
  rewrite (collect_spec _ _ _ _ Ltx _ Hok). exact Ec.
Qed.

Theorem tx_scan_full : forall c ops txops limit, lost_log (run c ops) = false ->
  scan tx_it limit (tx_full (run c ops) txops) =
  spec_scan_limit (overlay (acked (init c) ops) txops) None None (fun _ => true) limit.
Proof.
  intros c ops txops limit Hl. destruct (tx_run_facts c ops txops Hl) as (Hok & Ec).
  rewrite (scan_spec _ _ _ _ Ltx limit _ Hok), take_lim_0, Ec, live_spec_view_all.
  unfold spec_scan_limit, spec_scan.
  rewrite (filter_ext (fun k => in_range None None k && true) (fun _ => true)) by reflexivity.
  rewrite filter_true. reflexivity.
Qed.

(* ---- the transaction's range iterator ---- *)
Lemma lookup_in_bounds : forall lo hi c k, kstrict c ->
  lookup k (in_bounds lo hi c) = if in_range lo hi k then lookup k c else None.
Proof.
  intros lo hi c k H. pose proof (in_bounds_kstrict lo hi c H) as Hb.
  destruct (lookup k (in_bounds lo hi c)) as [v|] eqn:E.
  - apply (lookup_strict _ k v Hb) in E. apply in_bounds_in in E; [|exact H]. cbn [fst] in E.
    destruct E as (Hin & Hl & Hh). unfold in_range. unfold in_lo in Hl. unfold in_hi in Hh. rewrite Hl, Hh.
    cbn [andb]. symmetry. apply lookup_strict; assumption.
  - destruct (in_range lo hi k) eqn:R; [|reflexivity].
    destruct (lookup k c) as [v|] eqn:E2; [|reflexivity]. exfalso.
    apply (lookup_strict _ k v H) in E2.
    assert (Hin : In (k, v) (in_bounds lo hi c)).
    { apply in_bounds_in; [exact H|]. cbn [fst]. unfold in_range in R. apply andb_true_iff in R. tauto. }
    apply (lookup_strict _ k v Hb) in Hin. congruence.
Qed.

Lemma merge_view_in_bounds : forall lo hi cs, Forall kstrict cs ->
  merge_view (map (in_bounds lo hi) cs) = in_bounds lo hi (merge_view cs).
Proof.
  intros lo hi cs H.
  assert (Hs : Forall ksorted cs).
  { rewrite Forall_forall in *. intros c Hc. apply kstrict_ksorted. apply H. exact Hc. }
  assert (Hs' : Forall ksorted (map (in_bounds lo hi) cs)).
  { rewrite Forall_forall in *. intros c Hc. apply in_map_iff in Hc. destruct Hc as (c0 & <- & Hc0).
    apply kstrict_ksorted. apply in_bounds_kstrict. apply H. exact Hc0. }
  pose proof (merge_view_strict cs Hs) as K.
  apply kstrict_ext; [apply merge_view_strict; exact Hs'|apply in_bounds_kstrict; exact K|].
  intros [k v]. rewrite (merge_view_in _ k v Hs'), (in_bounds_in lo hi _ _ K), (merge_view_in _ k v Hs). cbn [fst].
  assert (F : first_val k (map (in_bounds lo hi) cs) = if in_range lo hi k then first_val k cs else None).
  { clear - H. induction H as [|c r Hc Hr IH]; cbn [map first_val]; [destruct (in_range lo hi k); reflexivity|].
    rewrite (lookup_in_bounds lo hi c k Hc), IH. destruct (in_range lo hi k); reflexivity. }
  rewrite F. unfold in_range, in_lo, in_hi.
  destruct (match lo with Some a => negb (blt k a) | None => true end);
    destruct (match hi with Some e => blt k e | None => true end); cbn [andb]; split; try tauto; try discriminate;
    intros (_ & A & B); discriminate.
Qed.

Definition bsrc_ok (s : src) : Prop := src_ok s /\ kstrict (s_all s).

Lemma Lbsrc : forall lo hi,
  Lawful (bounded_iter src_iter lo hi) bsrc_ok (b_content s_all lo hi) (b_rest src_iter s_cur lo hi).
Proof.
  intros lo hi. apply (bounded_lawful src_iter bsrc_ok s_all s_cur).
  - exact (Lawful_strengthen _ src_iter src_ok s_all s_cur kstrict src_lawful).
  - intros s [_ K]. exact K.
Qed.

Definition rin_ok : src + hier src -> Prop := sum_ok bsrc_ok eng_ok.
Definition rin_content (lo hi : option bytes) : src + hier src -> list kv :=
  sum_content (b_content s_all lo hi) (rng_content lo hi).
Definition rin_rest (lo hi : option bytes) : src + hier src -> list kv :=
  sum_rest (b_rest src_iter s_cur lo hi) (rng_rest lo hi).

Lemma Lrin : forall lo hi,
  Lawful (sum_iter (bounded_iter src_iter lo hi) (eng_range_it lo hi)) rin_ok (rin_content lo hi) (rin_rest lo hi).
Proof. intros lo hi. exact (sum_lawful _ _ _ _ _ _ _ _ (Lbsrc lo hi) (Lrng lo hi)). Qed.

Definition txr_ok (lo hi : option bytes) : txS -> Prop :=
  sum_ok eng_ok (hier_ok rin_ok (rin_content lo hi) (rin_rest lo hi)).
Definition txr_content (lo hi : option bytes) : txS -> list kv :=
  sum_content (rng_content lo hi) (hier_content (rin_content lo hi)).
Definition txr_rest (lo hi : option bytes) : txS -> list kv :=
  sum_rest (rng_rest lo hi) (hier_rest (rin_content lo hi)).

Lemma Ltxr : forall lo hi, Lawful (tx_range_it lo hi) (txr_ok lo hi) (txr_content lo hi) (txr_rest lo hi).
Proof.
  intros lo hi. apply sum_lawful; [apply Lrng|]. apply hier_lawful. apply Lrin.
Qed.

Lemma tx_range_ok : forall s ops lo hi, stack_ok s -> txr_ok lo hi (tx_range s ops).
Proof.
  intros s ops lo hi H. unfold tx_range, tx_full. destruct (buffer_ops ops) eqn:B; cbn [txr_ok sum_ok].
  - apply eng_iter_ok. exact H.
  - unfold hier_ok, hier_new. cbn [h_srcs h_valid]. split; [|discriminate].
    constructor; [cbn [rin_ok sum_ok]; split; [apply buf_src_ok|apply buffer_ops_strict]|].
    constructor; [|constructor]. cbn [rin_ok sum_ok]. apply eng_iter_ok. exact H.
Qed.

Theorem tx_range_view : forall s h ops lo hi, Inv s h -> lost_log s = false -> stack_ok s ->
  txr_content lo hi (tx_range s ops) =
  filter (fun x => in_range lo hi (fst x)) (spec_view (overlay (map snd h) ops)).
Proof.
  intros s h ops lo hi I Hl Hok. rewrite <- (in_bounds_filter lo hi _ (spec_view_strict _)).
  unfold tx_range, tx_full. destruct (buffer_ops ops) as [|b0 br] eqn:B; cbn [txr_content sum_content].
  - apply buffer_ops_nil in B. subst ops. unfold rng_content, b_content. rewrite (eng_view s h I Hl Hok).
    f_equal. unfold overlay, spec_view, spec_keys, latest, flat. rewrite flat_map_app. cbn [flat_map effects].
    rewrite !app_nil_r. reflexivity.
  - unfold hier_content, h_contents, hier_new. cbn [h_srcs map rin_content sum_content].
    unfold rng_content, b_content. rewrite (eng_view s h I Hl Hok). unfold buf_src. cbn [s_all].
    rewrite <- merge_buffer_view.
    apply (merge_view_in_bounds lo hi [buffer_ops ops; spec_view (map snd h)]).
    repeat constructor; [apply buffer_ops_strict|apply spec_view_strict].
Qed.

Theorem tx_scan_range : forall c ops txops lo hi limit, lost_log (run c ops) = false ->
  scan (tx_range_it lo hi) limit (tx_range (run c ops) txops) =
  spec_scan_limit (overlay (acked (init c) ops) txops) lo hi (fun _ => true) limit.
Proof.
  intros c ops txops lo hi limit Hl. destruct (run_facts c ops Hl) as (h & I & Eh & Hok).
  rewrite (scan_spec _ _ _ _ (Ltxr lo hi) limit _ (tx_range_ok _ txops lo hi Hok)), take_lim_0.
  rewrite (tx_range_view _ h txops lo hi I Hl Hok), Eh, live_spec_view.
  unfold spec_scan_limit, spec_scan. rewrite filter_ext_in_range. reflexivity.
Qed.

Theorem tx_collect_range : forall c ops txops lo hi, lost_log (run c ops) = false ->
  collect (tx_range_it lo hi) (tx_range (run c ops) txops) =
  filter (fun x => in_range lo hi (fst x)) (spec_view (overlay (acked (init c) ops) txops)).
Proof.
  intros c ops txops lo hi Hl. destruct (run_facts c ops Hl) as (h & I & Eh & Hok).
  rewrite (collect_spec _ _ _ _ (Ltxr lo hi) _ (tx_range_ok _ txops lo hi Hok)).
  rewrite (tx_range_view _ h txops lo hi I Hl Hok), Eh. reflexivity.
Qed.

(* ------------------------------------------------------------------------------------ *)
(* Part F: prefix/suffix filters and their composition with bounds                         *)
(* ------------------------------------------------------------------------------------ *)

Lemma filter_filter : forall (A : Type) (p q : A -> bool) l,
  filter q (filter p l) = filter (fun x => p x && q x) l.
Proof.
  intros A p q l. induction l as [|x r IH]; [reflexivity|]. cbn [filter].
  destruct (p x); cbn [filter andb]; [destruct (q x); rewrite IH; reflexivity|exact IH].
Qed.

(* any lawful iterator whose content is a selection of the view of a history: its scan is the
   scan of the specification for that selection *)
Lemma scan_of_view : forall S (I : Iter S) ok content rest (L : Lawful I ok content rest) s h g limit,
  ok s -> content s = filter (fun x => g (fst x)) (spec_view h) ->
  scan I limit s =
  (if 0 <? limit then firstn (N.to_nat limit) (spec_live h (filter g (spec_keys h)))
   else spec_live h (filter g (spec_keys h))).
Proof.
  intros S I ok content rest L s h g limit H E.
  rewrite (scan_spec _ _ _ _ L limit s H), take_lim_0, E, live_spec_view. reflexivity.
Qed.

(* one filter over a lawful iterator *)
Lemma filtered_view : forall S (I : Iter S) ok content rest (L : Lawful I ok content rest) f s h g,
  content s = filter (fun x => g (fst x)) (spec_view h) ->
  f_content content f s = filter (fun x => g (fst x) && f (fst x)) (spec_view h).
Proof.
  intros S I ok content rest L f s h g E. unfold f_content, fk. rewrite E. apply filter_filter.
Qed.

(* service.Scan with a prefix and/or a suffix: filters over the (read-only) transaction's
   full iterator; the engine's range iterator composes with them the same way *)
Theorem eng_scan_filtered : forall c ops lo hi f limit, lost_log (run c ops) = false ->
  scan (filtered_iter (eng_range_it lo hi) f) limit (eng_iter (run c ops)) =
  spec_scan_limit (acked (init c) ops) lo hi f limit.
Proof.
  intros c ops lo hi f limit Hl. destruct (run_facts c ops Hl) as (h & I & Eh & Hok).
  pose proof (filtered_lawful _ _ _ _ (Lrng lo hi) f) as Lf.
  rewrite (scan_of_view _ _ _ _ _ Lf _ (acked (init c) ops) (fun k => in_range lo hi k && f k) limit
             (eng_iter_ok _ Hok)).
  - reflexivity.
  - apply (filtered_view _ _ _ _ _ (Lrng lo hi) f _ _ (in_range lo hi)). unfold rng_content, b_content.
    rewrite (eng_view _ h I Hl Hok), Eh. apply in_bounds_filter. apply spec_view_strict.
Qed.

Theorem tx_scan_prefix_suffix : forall c ops txops p q limit, lost_log (run c ops) = false ->
  scan (filtered_iter (filtered_iter tx_it (prefix_filter p)) (suffix_filter q)) limit
       (tx_full (run c ops) txops) =
  spec_scan_limit (overlay (acked (init c) ops) txops) None None
                  (fun k => has_prefix p k && has_suffix q k) limit.
Proof.
  intros c ops txops p q limit Hl. destruct (tx_run_facts c ops txops Hl) as (Hok & Ec).
  pose proof (filtered_lawful _ _ _ _ Ltx (prefix_filter p)) as L1.
  pose proof (filtered_lawful _ _ _ _ L1 (suffix_filter q)) as L2.
  rewrite (scan_of_view _ _ _ _ _ L2 _ (overlay (acked (init c) ops) txops)
             (fun k => (true && prefix_filter p k) && suffix_filter q k) limit Hok).
  - unfold spec_scan_limit, spec_scan, prefix_filter, suffix_filter.
    rewrite (filter_ext (fun k => true && has_prefix p k && has_suffix q k)
                        (fun k => in_range None None k && (has_prefix p k && has_suffix q k))) by reflexivity.
    reflexivity.
  - apply (filtered_view _ _ _ _ _ L1 (suffix_filter q) _ _ (fun k => true && prefix_filter p k)).
    apply (filtered_view _ _ _ _ _ Ltx (prefix_filter p) _ _ (fun _ => true)).
    rewrite Ec. symmetry. apply filter_true.
Qed.

Theorem tx_scan_prefix : forall c ops txops p limit, lost_log (run c ops) = false ->
  scan (filtered_iter tx_it (prefix_filter p)) limit (tx_full (run c ops) txops) =
  spec_scan_limit (overlay (acked (init c) ops) txops) None None (has_prefix p) limit.
Proof.
  intros c ops txops p limit Hl. destruct (tx_run_facts c ops txops Hl) as (Hok & Ec).
  pose proof (filtered_lawful _ _ _ _ Ltx (prefix_filter p)) as L1.
  rewrite (scan_of_view _ _ _ _ _ L1 _ (overlay (acked (init c) ops) txops)
             (fun k => true && prefix_filter p k) limit Hok).
  - unfold spec_scan_limit, spec_scan, prefix_filter.
    rewrite (filter_ext (fun k => true && has_prefix p k) (fun k => in_range None None k && has_prefix p k)) by reflexivity.
    reflexivity.
  - apply (filtered_view _ _ _ _ _ Ltx (prefix_filter p) _ _ (fun _ => true)). rewrite Ec. symmetry. apply filter_true.
Qed.

Theorem tx_scan_suffix : forall c ops txops q limit, lost_log (run c ops) = false ->
  scan (filtered_iter tx_it (suffix_filter q)) limit (tx_full (run c ops) txops) =
  spec_scan_limit (overlay (acked (init c) ops) txops) None None (has_suffix q) limit.
Proof.
  intros c ops txops q limit Hl. destruct (tx_run_facts c ops txops Hl) as (Hok & Ec).
  pose proof (filtered_lawful _ _ _ _ Ltx (suffix_filter q)) as L1.
  rewrite (scan_of_view _ _ _ _ _ L1 _ (overlay (acked (init c) ops) txops)
             (fun k => true && suffix_filter q k) limit Hok).
  - unfold spec_scan_limit, spec_scan, suffix_filter.
    rewrite (filter_ext (fun k => true && has_suffix q k) (fun k => in_range None None k && has_suffix q k)) by reflexivity.
    reflexivity.
  - apply (filtered_view _ _ _ _ _ Ltx (suffix_filter q) _ _ (fun _ => true)). rewrite Ec. symmetry. apply filter_true.
Qed.

(* ------------------------------------------------------------------------------------ *)
(* Part G: what the specification lists are                                                *)
(* ------------------------------------------------------------------------------------ *)

(* spec_scan is THE list with these three properties *)
Theorem spec_scan_char : forall h lo hi sel,
  StronglySorted (fun a b => blt (fst a) (fst b) = true) (spec_scan h lo hi sel) /\
  forall k v, In (k, v) (spec_scan h lo hi sel) <->
              spec_get h k = Some v /\ in_range lo hi k = true /\ sel k = true.
Proof.
  intros h lo hi sel. unfold spec_scan.
  assert (Hk : kasc (filter (fun k => in_range lo hi k && sel k) (spec_keys h))).
  { pose proof (spec_keys_kasc h) as K. induction K as [|x r Ks IH Kf]; cbn [filter]; [constructor|].
    destruct (in_range lo hi x && sel x); [|exact IH]. constructor; [exact IH|].
    rewrite Forall_forall in *. intros y Hy. apply filter_In in Hy. apply Kf. tauto. }
  assert (Hin : forall k, In k (filter (fun k => in_range lo hi k && sel k) (spec_keys h)) <->
                          In k (map fst (flat h)) /\ in_range lo hi k = true /\ sel k = true).
  { intros k. rewrite filter_In, spec_keys_in, andb_true_iff. tauto. }
  revert Hk Hin. generalize (filter (fun k => in_range lo hi k && sel k) (spec_keys h)) as keys.
  intros keys Hk Hin. split.
  - unfold spec_live. induction Hk as [|x r Ks IH Kf]; cbn [flat_map]; [constructor|].
    assert (IH' : StronglySorted (fun a b => blt (fst a) (fst b) = true)
                    (flat_map (fun k => match spec_get h k with Some v => [(k, v)] | None => [] end) r)).
    { clear - Ks. induction Ks as [|y r' Ks' IH2 Kf']; cbn [flat_map]; [constructor|].
      destruct (spec_get h y); cbn [app]; [|exact IH2]. constructor; [exact IH2|].
      rewrite Forall_forall in *. intros [k v] Hkv. apply in_flat_map in Hkv. destruct Hkv as (k' & Hk' & Hv).
      destruct (spec_get h k'); [|destruct Hv]. destruct Hv as [E|[]]. injection E as <- <-. cbn [fst].
      apply Kf'. exact Hk'. }
    destruct (spec_get h x); cbn [app]; [|exact IH']. constructor; [exact IH'|].
    rewrite Forall_forall in *. intros [k v] Hkv. apply in_flat_map in Hkv. destruct Hkv as (k' & Hk' & Hv).
    destruct (spec_get h k'); [|destruct Hv]. destruct Hv as [E|[]]. injection E as <- <-. cbn [fst].
    apply Kf. exact Hk'.
  - intros k v. unfold spec_live. rewrite in_flat_map. split.
    + intros (k' & Hk' & Hv). destruct (spec_get h k') as [w|] eqn:G; [|destruct Hv].
      destruct Hv as [E|[]]. injection E as <- <-. apply Hin in Hk'. tauto.
    + intros (G & R & Sl). exists k. split.
      * apply Hin. split; [|tauto]. unfold spec_get in G.
        destruct (in_dec (list_eq_dec N.eq_dec) k (map fst (flat h))) as [Hi|Hn]; [exact Hi|].
        apply last_effect_none_iff in Hn. unfold latest in G. rewrite Hn in G. discriminate.
      * rewrite G. left. reflexivity.
Qed.

(* ------------------------------------------------------------------------------------ *)
(* Part H: the hierarchical iterator over arbitrary sorted sources; examples, refutations   *)
(* ------------------------------------------------------------------------------------ *)

Theorem hier_scan_sources : forall srcs, Forall src_ok srcs ->
  collect eng_it (hier_new srcs) = merge_view (map s_all srcs).
Proof.
  intros srcs H. assert (Hok : eng_ok (hier_new srcs)).
  { unfold eng_ok, hier_ok, hier_new. cbn [h_srcs h_valid]. split; [exact H|discriminate]. }
  rewrite (collect_spec _ _ _ _ Leng _ Hok). reflexivity.
Qed.

Theorem merge_view_spec : forall cs, Forall ksorted cs ->
  kstrict (merge_view cs) /\ forall k v, In (k, v) (merge_view cs) <-> first_val k cs = Some v.
Proof. intros cs H. split; [apply merge_view_strict; exact H|intros k v; apply merge_view_in; exact H]. Qed.

(* memtable (two versions of key 3, the newer a deletion marker) over an SSTable *)
Example hier_scan_ex :
  let m := mkSrc KMem [([1], Some [10]); ([3], None); ([3], Some [30]); ([5], Some [50])] [] in
  let t := mkSrc KSst [([2], Some [20]); ([3], Some [33]); ([7], Some [70])] [] in
  collect eng_it (hier_new [m; t]) =
    [([1], Some [10]); ([2], Some [20]); ([3], None); ([5], Some [50]); ([7], Some [70])] /\
  scan eng_it 0 (hier_new [m; t]) = [([1], [10]); ([2], [20]); ([5], [50]); ([7], [70])] /\
  scan (eng_range_it (Some [2]) (Some [6])) 0 (hier_new [m; t]) = [([2], [20]); ([5], [50])] /\
  pos eng_it (fst (i_seek eng_it [4] (hier_new [m; t]))) = Some ([5], Some [50]) /\
  pos eng_it (i_last eng_it (hier_new [m; t])) = Some ([7], Some [70]) /\
  pos (eng_range_it (Some [2]) (Some [6])) (i_last (eng_range_it (Some [2]) (Some [6])) (hier_new [m; t]))
    = Some ([5], Some [50]).
Proof. vm_compute. repeat split. Qed.

(* a program whose data ends up in an SSTable, an immutable and the active memtable *)
Example eng_scan_ex :
  let ops := [OPut [1] [10]; OPut [2] [20]; OFlush; OPut [2] [21]; ODel [1]; OPut [3] [30];
              OBatch [([4], Some [40]); ([3], None)]; OPut [5] []] in
  let s := run (mkCfg 60 1000) ops in
  lost_log s = false /\
  length (eng_sources s) = 4%nat /\
  collect eng_it (eng_iter s) = [([1], None); ([2], Some [21]); ([3], None); ([4], Some [40]); ([5], Some [])] /\
  scan eng_it 0 (eng_iter s) = [([2], [21]); ([4], [40]); ([5], [])] /\
  scan (eng_range_it (Some [3]) None) 1 (eng_iter s) = [([4], [40])] /\
  scan tx_it 0 (tx_full s [([2], None); ([6], Some [60])]) = [([4], [40]); ([5], []); ([6], [60])] /\
  scan (filtered_iter (eng_range_it None None) (prefix_filter [4])) 0 (eng_iter s) = [([4], [40])].
Proof. vm_compute. repeat split. Qed.

(* D24: SeekToLast of the pinned BoundedIterator backs up only when Seek(end) lands on a key
   EQUAL to the end bound: keys 1,3,5,7, range [1,6): invalid although 1,3,5 are in range *)
Example seek_to_last_pinned_refuted :
  let t := mkSrc KSst [([1], Some [1]); ([3], Some [3]); ([5], Some [5]); ([7], Some [7])] [] in
  let h := hier_new [t] in
  b_check eng_it (Some [1]) (Some [6]) (b_last_pinned eng_it (Some [6]) h) = false /\
  pos (eng_range_it (Some [1]) (Some [6])) (i_last (eng_range_it (Some [1]) (Some [6])) h) = Some ([5], Some [5]).
Proof. vm_compute. split; reflexivity. Qed.

(* D25: Seek of the pinned BoundedIterator with a target at or behind the end bound returns
   false but leaves Valid/Key on the earlier position, a key SMALLER than the target *)
Example bounded_seek_stale_refuted :
  let t := mkSrc KSst [([1], Some [1]); ([3], Some [3]); ([5], Some [5]); ([7], Some [7])] [] in
  let h1 := i_first (eng_range_it (Some [1]) (Some [6])) (hier_new [t]) in
  let r := b_seek_gen eng_it (Some [1]) (Some [6]) false [9] h1 in
  snd r = false /\ b_check eng_it (Some [1]) (Some [6]) (fst r) = true /\ i_key eng_it (fst r) = [1] /\
  (* the repaired Seek leaves the iterator invalid *)
  b_check eng_it (Some [1]) (Some [6]) (fst (b_seek_gen eng_it (Some [1]) (Some [6]) true [9] h1)) = false.
Proof. vm_compute. repeat split. Qed.

(* ------------------------------------------------------------------------------------ *)
(* Part I: a scan that runs while other clients write                                      *)
(* ------------------------------------------------------------------------------------ *)

(* An engine iterator is created on a reachable state; its calls are interleaved with steps
   of writers that leave the keys of W alone (see [legal]: any change of the iterator's own
   sources that keeps them sorted and leaves the entries of every other key in place — inserts
   into the memtables it iterates, seen through the snapshot filter or not; flushes and
   compactions do not touch the iterator's source list at all). The surfaced keys are strictly
   ascending, and when the scan is through every key of W of the history has been surfaced with
   its latest effect. *)
Theorem eng_concurrent_scan : forall c ops (W : bytes -> Prop) steps,
  lost_log (run c ops) = false ->
  let srcs := eng_sources (run c ops) in
  legal src_iter src_ok s_cur W (hier_first src_iter (hier_new srcs)) steps ->
  let res := cscan src_iter srcs steps in
  kstrict (snd res) /\
  (h_valid (fst res) = false ->
   forall k v, W k -> latest (acked (init c) ops) k = Some v -> In (k, v) (snd res)).
Proof.
  intros c ops W steps Hl srcs Hlegal res. destruct (run_facts c ops Hl) as (h & I & Eh & Hok).
  pose proof (conc_scan _ src_iter src_ok s_all s_cur src_lawful W srcs steps
                (eng_sources_ok _ Hok) Hlegal) as (A & B).
  split; [exact A|]. intros V k v Wk La. apply B; [exact V|exact Wk|].
  unfold srcs. rewrite (eng_first_val _ h k I Hl Hok), Eh. exact La.
Qed.

(* a scan over a memtable [1;3;5] and a table [2;4]; after the first Next a writer inserts key
   [0] (behind the iterator: never seen) and key [4;4] (ahead: seen); the keys 1..5 nobody
   wrote all appear, in order *)
Example concurrent_scan_ex :
  let m := mkSrc KMem [([1], Some [10]); ([3], Some [30]); ([5], Some [50])] [] in
  let t := mkSrc KSst [([2], Some [20]); ([4], Some [40])] [] in
  let h0 := hier_first src_iter (hier_new [m; t]) in
  let h1 := fst (hier_next src_iter h0) in
  let m1 := match h_srcs h1 with a :: _ => a | [] => m end in
  let t1 := match h_srcs h1 with _ :: b :: _ => b | _ => t end in
  let m2 := src_write 0 ([0], Some [0]) m1 in
  let m3 := src_write 3 ([4; 4], Some [44]) m2 in
  let steps := [CNext; CWrite [0] [m2; t1]; CWrite [4; 4] [m3; t1]; CNext; CNext; CNext; CNext; CNext; CNext] in
  snd (cscan src_iter [m; t] steps) =
    [([1], Some [10]); ([2], Some [20]); ([3], Some [30]); ([4], Some [40]); ([4; 4], Some [44]); ([5], Some [50])] /\
  h_valid (fst (cscan src_iter [m; t] steps)) = false.
Proof. vm_compute. split; reflexivity. Qed.


(* the interleaving of concurrent_scan_ex is legal for the keys nobody writes: the hypothesis
   of eng_concurrent_scan / conc_scan is satisfiable with real writer steps *)
Example concurrent_legal_ex :
  let m := mkSrc KMem [([1], Some [10]); ([3], Some [30]); ([5], Some [50])] [] in
  let t := mkSrc KSst [([2], Some [20]); ([4], Some [40])] [] in
  let W := fun k => In k [[1]; [2]; [3]; [4]; [5]] in
  let h0 := hier_first src_iter (hier_new [m; t]) in
  let h1 := fst (hier_next src_iter h0) in
  let m1 := match h_srcs h1 with a :: _ => a | [] => m end in
  let t1 := match h_srcs h1 with _ :: b :: _ => b | _ => t end in
  let m2 := src_write 0 ([0], Some [0]) m1 in
  let m3 := src_write 3 ([4; 4], Some [44]) m2 in
  legal src_iter src_ok s_cur W h0
        [CNext; CWrite [0] [m2; t1]; CWrite [4; 4] [m3; t1]; CNext; CNext; CNext; CNext; CNext; CNext].
Proof.
  intros m t W h0 h1 m1 t1 m2 m3. cbn [legal].
  change (fst (hier_next src_iter h0)) with h1.
  assert (Hm1 : m1 = mkSrc KMem [([1], Some [10]); ([3], Some [30]); ([5], Some [50])] [([3], Some [30]); ([5], Some [50])]) by (vm_compute; reflexivity).
  assert (Ht1 : t1 = mkSrc KSst [([2], Some [20]); ([4], Some [40])] [([2], Some [20]); ([4], Some [40])]) by (vm_compute; reflexivity).
  assert (Hh1 : h_srcs h1 = [m1; t1]) by (vm_compute; reflexivity).
  assert (Okm1 : src_ok m1).
  { rewrite Hm1. unfold src_ok. cbn [s_all s_kind s_cur]. split; [|split; [left; reflexivity|exists [([1], Some [10])]; reflexivity]].
    repeat (constructor; [|repeat (constructor; try (vm_compute; reflexivity))]); constructor. }
  assert (Okt1 : src_ok t1).
  { rewrite Ht1. unfold src_ok. cbn [s_all s_kind s_cur]. split; [|split; [right|exists []; reflexivity]].
    - repeat (constructor; [|repeat (constructor; try (vm_compute; reflexivity))]); constructor.
    - repeat (constructor; [|repeat (constructor; try (vm_compute; reflexivity))]); constructor. }
  destruct (src_write_step 0 ([0], Some [0]) m1 Okm1 ltac:(rewrite Hm1; reflexivity)) as (Okm2 & Cm2 & _).
  { rewrite Hm1. cbn [s_all ins_at]. repeat (constructor; [|repeat (constructor; try (vm_compute; reflexivity))]); constructor. }
  fold m2 in Okm2, Cm2.
  destruct (src_write_step 3 ([4; 4], Some [44]) m2 Okm2 ltac:(unfold m2; rewrite Hm1; reflexivity)) as (Okm3 & Cm3 & _).
  { unfold m2. rewrite Hm1. cbn. repeat (constructor; [|repeat (constructor; try (vm_compute; reflexivity))]); constructor. }
  fold m3 in Okm3, Cm3.
  split; [|split; [|split]].
  - unfold W. cbn [In]. intros [E|[E|[E|[E|[E|[]]]]]]; discriminate.
  - constructor; [exact Okm2|constructor; [exact Okt1|constructor]].
  - unfold set_srcs. rewrite Hh1. constructor; [exact Cm2|]. constructor; [|constructor]. intros; reflexivity.
  - cbn [set_srcs h_srcs]. split; [|split; [|split]].
    + unfold W. cbn [In]. intros [E|[E|[E|[E|[E|[]]]]]]; discriminate.
    + constructor; [exact Okm3|constructor; [exact Okt1|constructor]].
    + constructor; [exact Cm3|]. constructor; [|constructor]. intros; reflexivity.
    + exact I.
Qed.

(* ------------------------------------------------------------------------------------ *)
(* Part J: Seek of the range iterator, with the repaired BoundedIterator.Seek              *)
(* ------------------------------------------------------------------------------------ *)

Lemma Xrng : forall lo hi, ExactSeek (eng_range_it lo hi) eng_ok (rng_content lo hi) (rng_rest lo hi).
Proof.
  intros lo hi. exact (bounded_exact eng_it eng_ok eng_content eng_rest Leng eng_strict Xeng lo hi eq_refl).
Qed.

(* wherever the range iterator stands (here: after SeekToFirst), Seek positions it on the least
   key >= target of the range, and leaves it invalid when there is none *)
Theorem eng_range_seek_exact : forall c ops lo hi t, lost_log (run c ops) = false ->
  least_ge (filter (fun x => in_range lo hi (fst x)) (spec_view (acked (init c) ops))) t
           (pos (eng_range_it lo hi) (fst (i_seek (eng_range_it lo hi) t
                                             (i_first (eng_range_it lo hi) (eng_iter (run c ops)))))).
Proof.
  intros c ops lo hi t Hl. destruct (run_facts c ops Hl) as (h & I & Eh & Hok).
  destruct (L_first _ _ _ _ (Lrng lo hi) _ (eng_iter_ok _ Hok)) as (F1 & F2 & _).
  pose proof (seek_least _ _ _ _ (Lrng lo hi) t _ F1 (Xrng lo hi)) as P.
  rewrite F2 in P. unfold rng_content, b_content in P. rewrite (eng_view _ h I Hl Hok), Eh in P.
  rewrite (in_bounds_filter lo hi _ (spec_view_strict _)) in P. exact P.
Qed.
