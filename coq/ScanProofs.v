(* ScanProofs.v — C05 at the level of the engine: the iterators the engine and the
   transactions build (Iter.v) over a reachable engine state (Engine.v) surface exactly
   spec_view of the acknowledged history; scans, range scans, Seek, SeekToLast follow from the
   lawfulness results of IterProofs.v. *)
From Coq Require Import List NArith Bool Lia Sorted Arith PeanoNat.
From KV Require Import Bytes Spec ScanSpec Memtable MemtableProofs Engine EngineProofs Iter IterProofs.
Import ListNotations.
Open Scope N_scope.

(* ------------------------------------------------------------------------------------ *)
(* Part A: the specification lists                                                         *)
(* ------------------------------------------------------------------------------------ *)

Definition kasc (l : list bytes) : Prop := StronglySorted (fun a b => blt a b = true) l.

Lemma kinsert_in : forall k l x, In x (kinsert k l) <-> x = k \/ In x l.
Proof.
  intros k l x. induction l as [|y r IH]; cbn [kinsert In].
  - intuition congruence.
  - destruct (bcmp k y) eqn:C; cbn [In].
    + apply bcmp_eq in C. subst y. intuition congruence.
    + intuition congruence.
    + rewrite IH. intuition congruence.
Qed.

Lemma kinsert_kasc : forall k l, kasc l -> kasc (kinsert k l).
Proof.
  intros k l H. induction H as [|y r Hs IH Hf]; cbn [kinsert]; [repeat constructor|].
  destruct (bcmp k y) eqn:C.
  - constructor; assumption.
  - assert (B : blt k y = true) by (apply blt_true_iff; exact C).
    constructor; [constructor; assumption|]. constructor; [exact B|].
    rewrite Forall_forall in *. intros z Hz. eapply blt_trans; eauto.
  - assert (B : blt y k = true) by (apply blt_true_iff; apply bcmp_gt_lt; exact C).
    constructor; [exact IH|]. rewrite Forall_forall in *. intros z Hz.
    apply kinsert_in in Hz. destruct Hz as [->|Hz]; [exact B|apply Hf; exact Hz].
Qed.

Lemma spec_keys_kasc : forall h, kasc (spec_keys h).
Proof.
  intros h. unfold spec_keys. induction (map fst (flat h)) as [|k l IH]; cbn [fold_right]; [constructor|].
  apply kinsert_kasc. exact IH.
Qed.

Lemma spec_keys_in : forall h k, In k (spec_keys h) <-> In k (map fst (flat h)).
Proof.
  intros h k. unfold spec_keys. induction (map fst (flat h)) as [|x l IH]; cbn [fold_right In]; [tauto|].
  rewrite kinsert_in, IH. split; intros [E|H]; auto.
Qed.

Lemma last_effect_none_iff : forall k l, last_effect k l = None <-> ~ In k (map fst l).
Proof.
  intros k l. induction l as [|[k' v] r IH]; cbn [last_effect map In fst]; [tauto|].
  destruct (last_effect k r) as [x|] eqn:E.
  - split; [discriminate|]. intros H. exfalso. apply H. right.
    destruct (in_dec (list_eq_dec N.eq_dec) k (map fst r)) as [Hin|Hn]; [exact Hin|].
    apply IH in Hn. discriminate.
  - destruct (beq k' k) eqn:B.
    + split; [discriminate|]. intros H. exfalso. apply H. left. apply beq_true_iff. exact B.
    + apply beq_false_iff in B. split; [|reflexivity]. intros _ [H|H]; [exact (B H)|].
      apply (proj1 IH eq_refl). exact H.
Qed.

Lemma spec_view_strict : forall h, kstrict (spec_view h).
Proof.
  intros h. unfold spec_view. pose proof (spec_keys_kasc h) as H.
  induction H as [|k r Hs IH Hf]; cbn [map]; constructor; [exact IH|].
  rewrite Forall_forall in *. intros x Hx. apply in_map_iff in Hx. destruct Hx as (k' & <- & Hk').
  unfold klt. cbn [fst]. apply Hf. exact Hk'.
Qed.

(* every written key with its latest effect *)
Lemma spec_view_in : forall h k v, In (k, v) (spec_view h) <-> latest h k = Some v.
Proof.
  intros h k v. unfold spec_view. rewrite in_map_iff. split.
  - intros (k' & E & Hk). injection E as -> <-. apply spec_keys_in in Hk.
    unfold latest. destruct (last_effect k (flat h)) as [x|] eqn:Le; [reflexivity|].
    apply last_effect_none_iff in Le. contradiction.
  - intros Hl. exists k. rewrite Hl. split; [reflexivity|]. apply spec_keys_in.
    unfold latest in Hl. destruct (in_dec (list_eq_dec N.eq_dec) k (map fst (flat h))) as [Hin|Hn]; [exact Hin|].
    apply last_effect_none_iff in Hn. congruence.
Qed.

(* dropping the deletion markers of the view = the live keys of Spec.v *)
Lemma live_spec_view : forall h (p : bytes -> bool),
  live (filter (fun x => p (fst x)) (spec_view h)) = spec_live h (filter p (spec_keys h)).
Proof.
  intros h p. unfold spec_view, spec_live, live. induction (spec_keys h) as [|k r IH]; [reflexivity|].
  cbn [map filter fst]. destruct (p k); cbn [flat_map]; [|exact IH].
  rewrite IH. cbn [fst snd]. unfold spec_get. destruct (latest h k) as [[v|]|]; reflexivity.
Qed.

Lemma take_lim_0 : forall limit l,
  take_lim limit 0 l = if 0 <? limit then firstn (N.to_nat limit) l else l.
Proof. intros. unfold take_lim. rewrite N.sub_0_r. reflexivity. Qed.

(* the entries within bounds = filtering a strictly ascending list by the range *)
Lemma in_bounds_filter : forall lo hi l, kstrict l ->
  in_bounds lo hi l = filter (fun x => in_range lo hi (fst x)) l.
Proof.
  intros lo hi l H. apply kstrict_ext.
  - apply in_bounds_kstrict. exact H.
  - induction H as [|x r Hs IH Hf]; cbn [filter]; [constructor|].
    destruct (in_range lo hi (fst x)); [|exact IH].
    constructor; [exact IH|]. rewrite Forall_forall in *. intros y Hy. apply filter_In in Hy. apply Hf. tauto.
  - intros x. rewrite in_bounds_in by exact H. rewrite filter_In. unfold in_range, in_lo, in_hi.
    rewrite andb_true_iff. tauto.
Qed.

(* ------------------------------------------------------------------------------------ *)
(* Part B: the sources of an engine state                                                  *)
(* ------------------------------------------------------------------------------------ *)

(* the layers are well formed: an iterator sees the whole (sorted) memtable, and every
   SSTable has one entry per key in ascending order *)
Definition stack_ok (s : st) : Prop :=
  (forall m, In m (mem_layers s) -> mt_iter_entries m = mt_entries m /\ sorted (mt_entries m)) /\
  (forall t, In t (ssts s) -> kstrict (map kv_of_sentry (s_entries t))).

Lemma mem_ksorted : forall l, sorted l -> ksorted (map kv_of_mentry l).
Proof.
  intros l H. apply sorted_strong in H. induction H as [|x r Hs IH Hf]; cbn [map]; constructor; [exact IH|].
  rewrite Forall_forall in *. intros y Hy. apply in_map_iff in Hy. destruct Hy as (e & <- & He).
  specialize (Hf e He). apply ele_iff in Hf. unfold kle, kv_of_mentry. cbn [fst].
  apply blt_false_iff. destruct Hf as [Hf|[Hf _]]; [right; exact Hf|left; symmetry; exact Hf].
Qed.

Lemma eng_sources_ok : forall s, stack_ok s -> Forall src_ok (eng_sources s).
Proof.
  intros s (Hm & Ht). unfold eng_sources. apply Forall_app. split; rewrite Forall_forall; intros x Hx;
    apply in_map_iff in Hx; destruct Hx as (y & <- & Hy).
  - destruct (Hm y Hy) as (Hi & Hs). unfold src_ok, mem_src. cbn [s_all s_kind s_cur]. rewrite Hi.
    split; [apply mem_ksorted; exact Hs|]. split; [left; reflexivity|].
    exists (map kv_of_mentry (mt_entries y)). symmetry. apply app_nil_r.
  - apply in_rev in Hy. pose proof (Ht y Hy) as K. unfold src_ok, sst_src. cbn [s_all s_kind s_cur].
    split; [apply kstrict_ksorted; exact K|]. split; [right; exact K|].
    exists (map kv_of_sentry (s_entries y)). symmetry. apply app_nil_r.
Qed.

(* what an engine iterator state denotes *)
Definition eng_ok : hier src -> Prop := hier_ok src_ok s_all s_cur.
Definition eng_content : hier src -> list kv := hier_content s_all.
Definition eng_rest : hier src -> list kv := hier_rest s_all.

Lemma Leng : Lawful eng_it eng_ok eng_content eng_rest.
Proof. exact (hier_lawful src_iter src_ok s_all s_cur src_lawful). Qed.

Lemma Xeng : ExactSeek eng_it eng_ok eng_content eng_rest.
Proof. exact (hier_exact src_iter src_ok s_all s_cur src_lawful). Qed.

Lemma eng_iter_ok : forall s, stack_ok s -> eng_ok (eng_iter s).
Proof.
  intros s H. unfold eng_ok, hier_ok, eng_iter, hier_new. cbn [h_srcs h_valid].
  split; [apply eng_sources_ok; exact H|discriminate].
Qed.

(* ------------------------------------------------------------------------------------ *)
(* Part C: the stack of a reachable state shows the acknowledged history                   *)
(* ------------------------------------------------------------------------------------ *)

Lemma lookup_mem : forall k l,
  lookup k (map kv_of_mentry l) = option_map (fun e => snd (kv_of_mentry e)) (first_key k l).
Proof.
  intros k l. induction l as [|x r IH]; [reflexivity|]. cbn [map lookup first_key].
  change (fst (kv_of_mentry x)) with (mk x). destruct (beq (mk x) k); [reflexivity|exact IH].
Qed.

Lemma mt_get_lookup : forall m k, sorted (mt_entries m) -> mt_iter_entries m = mt_entries m ->
  lookup k (s_all (mem_src m)) = mt_get m k.
Proof.
  intros m k Hs Hi. unfold mem_src. cbn [s_all]. rewrite Hi, lookup_mem. unfold mt_get.
  rewrite (find_sorted k _ Hs). destruct (first_key k (mt_entries m)); reflexivity.
Qed.

Lemma first_val_mems : forall k layers,
  (forall m, In m layers -> mt_iter_entries m = mt_entries m /\ sorted (mt_entries m)) ->
  first_val k (map s_all (map mem_src layers)) = mems_get k layers.
Proof.
  intros k layers. induction layers as [|m r IH]; intros H; [reflexivity|].
  cbn [map first_val mems_get]. destruct (H m (or_introl eq_refl)) as (Hi & Hs).
  rewrite (mt_get_lookup m k Hs Hi). destruct (mt_get m k); [reflexivity|].
  apply IH. intros m' Hm'. apply H. right. exact Hm'.
Qed.

Lemma first_val_app : forall k a b,
  first_val k (a ++ b) = match first_val k a with Some v => Some v | None => first_val k b end.
Proof.
  intros k a b. induction a as [|c a IH]; [reflexivity|]. cbn [app first_val].
  destruct (lookup k c); [reflexivity|exact IH].
Qed.

Theorem eng_first_val : forall s h k, Inv s h -> lost_log s = false -> stack_ok s ->
  first_val k (map s_all (eng_sources s)) = latest (map snd h) k.
Proof.
  intros s h k I Hl (Hm & Ht). unfold eng_sources. rewrite map_app, first_val_app.
  rewrite (first_val_mems k (mem_layers s) Hm), (mems_get_inv s h k I).
  destruct (latest (map snd h) k) as [x|] eqn:La; [reflexivity|].
  (* never written: no table can have the key *)
  apply first_val_none_iff. intros c x Hc Hx Hk.
  apply in_map_iff in Hc. destruct Hc as (sr & <- & Hsr).
  apply in_map_iff in Hsr. destruct Hsr as (t & <- & Ht'). apply in_rev in Ht'.
  unfold sst_src in Hx. cbn [s_all] in Hx. apply in_map_iff in Hx. destruct Hx as (e & <- & He).
  pose proof (inv_ssts s h I Hl) as HS. rewrite Forall_forall in HS.
  specialize (HS (s_entries t) (in_map s_entries _ _ Ht')). rewrite Forall_forall in HS.
  specialize (HS e He). unfold key_written in HS. apply in_map_iff in HS. destruct HS as (me & Hme & Hin).
  unfold latest in La. rewrite <- map_eff_entries in La.
  apply last_effect_none_iff in La. apply La. rewrite map_map.
  apply in_map_iff. exists me. split; [|exact Hin]. unfold eff. cbn [fst kv_of_sentry] in *. congruence.
Qed.

(* the merged view of the engine's sources is the view of the history *)
Theorem eng_view : forall s h, Inv s h -> lost_log s = false -> stack_ok s ->
  eng_content (eng_iter s) = spec_view (map snd h).
Proof.
  intros s h I Hl Hok. unfold eng_content, hier_content, h_contents, eng_iter, hier_new. cbn [h_srcs].
  assert (Hs : Forall ksorted (map s_all (eng_sources s))).
  { apply (contents_sorted src_iter src_ok s_all s_cur src_lawful). apply eng_sources_ok. exact Hok. }
  apply kstrict_ext; [apply merge_view_strict; exact Hs|apply spec_view_strict|].
  intros [k v]. rewrite (merge_view_in _ k v Hs), (eng_first_val s h k I Hl Hok), spec_view_in. tauto.
Qed.

(* reachable states have well-formed layers *)
From KV Require Import EngineCrashProofs.

Lemma key_asc_kstrict : forall l, key_asc l -> kstrict (map kv_of_sentry l).
Proof.
  intros l H. induction H as [|x r Hs IH Hf]; cbn [map]; constructor; [exact IH|].
  rewrite Forall_forall in *. intros y Hy. apply in_map_iff in Hy. destruct Hy as (e & <- & He).
  unfold klt, kv_of_sentry. cbn [fst]. apply blt_true_iff. apply Hf. exact He.
Qed.

Theorem stack_ok_reachable : forall s, reachable s -> stack_ok s.
Proof.
  intros s R. destruct (reachable_Inv s R) as (h & I). split.
  - intros m Hm. split; [apply (reach_iter_all s m R Hm)|].
    apply (layer_sorted s h m I). unfold mem_layers in Hm. destruct Hm as [<-|Hm]; [left; reflexivity|].
    right. apply in_rev. exact Hm.
  - intros t Ht. apply key_asc_kstrict. pose proof (reach_key_asc s R) as F. rewrite Forall_forall in F.
    apply F. unfold tabs_of. apply in_map. exact Ht.
Qed.

(* ------------------------------------------------------------------------------------ *)
(* Part D: engine iterators over a reachable state                                         *)
(* ------------------------------------------------------------------------------------ *)

Lemma eng_strict : forall h, eng_ok h -> kstrict (eng_content h).
Proof.
  intros h (H & _). apply merge_view_strict.
  apply (contents_sorted src_iter src_ok s_all s_cur src_lawful). exact H.
Qed.

Definition rng_content (lo hi : option bytes) : hier src -> list kv := b_content eng_content lo hi.
Definition rng_rest (lo hi : option bytes) : hier src -> list kv := b_rest eng_it eng_rest lo hi.

Lemma Lrng : forall lo hi, Lawful (eng_range_it lo hi) eng_ok (rng_content lo hi) (rng_rest lo hi).
Proof. intros lo hi. exact (bounded_lawful eng_it eng_ok eng_content eng_rest Leng eng_strict lo hi). Qed.

(* a state of a run, its acknowledged history and the invariant *)
Lemma run_facts : forall c ops, lost_log (run c ops) = false ->
  exists h, Inv (run c ops) h /\ map snd h = acked (init c) ops /\ stack_ok (run c ops).
Proof.
  intros c ops Hl. exists (epoch (init c) ops []). split; [apply Inv_run|]. split.
  - unfold run in Hl. rewrite (epoch_snd ops (init c) [] Hl). reflexivity.
  - apply stack_ok_reachable. exists c, ops. reflexivity.
Qed.

Lemma filter_ext_in_range : forall lo hi (l : list bytes),
  filter (fun k => in_range lo hi k && true) l = filter (in_range lo hi) l.
Proof. intros. apply filter_ext. intros k. apply andb_true_r. Qed.

(* the iterator surfaces every written key of the range once, ascending, with its latest
   effect (a deleted key as a deletion marker) *)
Theorem eng_collect_range : forall c ops lo hi, lost_log (run c ops) = false ->
  collect (eng_range_it lo hi) (eng_iter (run c ops)) =
  filter (fun x => in_range lo hi (fst x)) (spec_view (acked (init c) ops)).
Proof.
  intros c ops lo hi Hl. destruct (run_facts c ops Hl) as (h & I & Eh & Hok).
  rewrite (collect_spec _ _ _ _ (Lrng lo hi) _ (eng_iter_ok _ Hok)).
  unfold rng_content, b_content. rewrite (eng_view _ h I Hl Hok), Eh.
  apply in_bounds_filter. apply spec_view_strict.
Qed.

Theorem eng_collect_full : forall c ops, lost_log (run c ops) = false ->
  collect eng_it (eng_iter (run c ops)) = spec_view (acked (init c) ops).
Proof.
  intros c ops Hl. destruct (run_facts c ops Hl) as (h & I & Eh & Hok).
  rewrite (collect_spec _ _ _ _ Leng _ (eng_iter_ok _ Hok)), (eng_view _ h I Hl Hok), Eh. reflexivity.
Qed.

(* the consumer of service.Scan over the engine's range iterator *)
Theorem eng_scan_range : forall c ops lo hi limit, lost_log (run c ops) = false ->
  scan (eng_range_it lo hi) limit (eng_iter (run c ops)) =
  spec_scan_limit (acked (init c) ops) lo hi (fun _ => true) limit.
Proof.
  intros c ops lo hi limit Hl. destruct (run_facts c ops Hl) as (h & I & Eh & Hok).
  rewrite (scan_spec _ _ _ _ (Lrng lo hi) limit _ (eng_iter_ok _ Hok)), take_lim_0.
  unfold rng_content, b_content. rewrite (eng_view _ h I Hl Hok), Eh.
  rewrite (in_bounds_filter lo hi _ (spec_view_strict _)), live_spec_view.
  unfold spec_scan_limit, spec_scan. rewrite filter_ext_in_range. reflexivity.
Qed.

Lemma filter_true : forall (A : Type) (l : list A), filter (fun _ => true) l = l.
Proof. induction l as [|x r IH]; [reflexivity|]. cbn [filter]. rewrite IH. reflexivity. Qed.

Lemma live_spec_view_all : forall h, live (spec_view h) = spec_live h (spec_keys h).
Proof.
  intros h. unfold spec_view, spec_live, live. induction (spec_keys h) as [|k r IH]; [reflexivity|].
  cbn [map flat_map]. rewrite IH. cbn [fst snd]. unfold spec_get. destruct (latest h k) as [[v|]|]; reflexivity.
Qed.

Theorem eng_scan_full : forall c ops limit, lost_log (run c ops) = false ->
  scan eng_it limit (eng_iter (run c ops)) =
  spec_scan_limit (acked (init c) ops) None None (fun _ => true) limit.
Proof.
  intros c ops limit Hl. destruct (run_facts c ops Hl) as (h & I & Eh & Hok).
  rewrite (scan_spec _ _ _ _ Leng limit _ (eng_iter_ok _ Hok)), take_lim_0.
  rewrite (eng_view _ h I Hl Hok), Eh.
  rewrite live_spec_view_all. unfold spec_scan_limit, spec_scan.
  rewrite (filter_ext (fun k => in_range None None k && true) (fun _ => true)) by reflexivity.
  rewrite filter_true. reflexivity.
Qed.

(* positions *)
Theorem eng_seek : forall c ops t, lost_log (run c ops) = false ->
  least_ge (spec_view (acked (init c) ops)) t (pos eng_it (fst (i_seek eng_it t (eng_iter (run c ops))))).
Proof.
  intros c ops t Hl. destruct (run_facts c ops Hl) as (h & I & Eh & Hok).
  pose proof (seek_least eng_it eng_ok eng_content eng_rest Leng t _ (eng_iter_ok _ Hok) Xeng) as P.
  rewrite (eng_view _ h I Hl Hok), Eh in P. exact P.
Qed.

Theorem eng_seek_last : forall c ops, lost_log (run c ops) = false ->
  greatest (spec_view (acked (init c) ops)) (pos eng_it (i_last eng_it (eng_iter (run c ops)))).
Proof.
  intros c ops Hl. destruct (run_facts c ops Hl) as (h & I & Eh & Hok).
  pose proof (last_greatest eng_it eng_ok eng_content eng_rest Leng _ (eng_iter_ok _ Hok)) as P.
  rewrite (eng_view _ h I Hl Hok), Eh in P. exact P.
Qed.

(* any sequence of repositionings keeps the iterator lawful, so Next after any of them yields
   the next greater key; stated for the state after a Seek *)
Theorem eng_next_after_seek : forall c ops t, lost_log (run c ops) = false ->
  let s1 := fst (i_seek eng_it t (eng_iter (run c ops))) in
  i_valid eng_it s1 = true ->
  least_gt (spec_view (acked (init c) ops)) (i_key eng_it s1) (pos eng_it (fst (i_next eng_it s1))).
Proof.
  intros c ops t Hl s1 V. destruct (run_facts c ops Hl) as (h & I & Eh & Hok).
  destruct (L_seek _ _ _ _ Leng t _ (eng_iter_ok _ Hok)) as (A1 & A2 & _). fold s1 in A1, A2.
  pose proof (next_least_gt eng_it eng_ok eng_content eng_rest Leng s1 A1 (eng_strict _ A1) V) as P.
  rewrite A2, (eng_view _ h I Hl Hok), Eh in P. exact P.
Qed.

Theorem eng_range_seek_last : forall c ops lo hi, lost_log (run c ops) = false ->
  greatest (filter (fun x => in_range lo hi (fst x)) (spec_view (acked (init c) ops)))
           (pos (eng_range_it lo hi) (i_last (eng_range_it lo hi) (eng_iter (run c ops)))).
Proof.
  intros c ops lo hi Hl. destruct (run_facts c ops Hl) as (h & I & Eh & Hok).
  pose proof (last_greatest _ _ _ _ (Lrng lo hi) _ (eng_iter_ok _ Hok)) as P.
  unfold rng_content, b_content in P. rewrite (eng_view _ h I Hl Hok), Eh in P.
  rewrite (in_bounds_filter lo hi _ (spec_view_strict _)) in P. exact P.
Qed.

(* Seek of the range iterator: the least key >= target within the range; with the pinned
   BoundedIterator.Seek a target at or behind the end bound leaves the position unchanged *)
Theorem eng_range_seek : forall c ops lo hi t, lost_log (run c ops) = false ->
  let view := filter (fun x => in_range lo hi (fst x)) (spec_view (acked (init c) ops)) in
  let s0 := eng_iter (run c ops) in
  least_ge view t (pos (eng_range_it lo hi) (fst (i_seek (eng_range_it lo hi) t s0))) \/
  ((forall y, In y view -> blt (fst y) t = true) /\
   pos (eng_range_it lo hi) (fst (i_seek (eng_range_it lo hi) t s0)) = pos (eng_range_it lo hi) s0 /\
   snd (i_seek (eng_range_it lo hi) t s0) = false).
Proof.
  intros c ops lo hi t Hl view s0. destruct (run_facts c ops Hl) as (h & I & Eh & Hok).
  pose proof (seek_least_weak _ _ _ _ (Lrng lo hi) t _ (eng_iter_ok _ Hok)) as P.
  unfold rng_content, b_content in P. rewrite (eng_view _ h I Hl Hok), Eh in P.
  rewrite (in_bounds_filter lo hi _ (spec_view_strict _)) in P. exact P.
Qed.
