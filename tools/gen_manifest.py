#!/usr/bin/env python3
"""Regenerate MANIFEST.json from tools/claims.json (property id -> level text) and properties.jsonl."""
import json, os
R = os.path.dirname(os.path.dirname(os.path.abspath(__file__)))
props = [json.loads(l) for l in open(os.path.join(R, "properties.jsonl"))]
claims = json.load(open(os.path.join(R, "tools", "claims.json")))
hooks = json.load(open(os.path.join(R, "tools", "hook_commits.json")))
m = {
    "version": 1,
    "setup_cmd": "./tools/setup.sh",
    "hooks": {"guard": "verif",
              "enable": "go build -tags verif (the harness module replaces github.com/KevoDB/kevo by /repo); pkg/verifhook Point/Yield are empty without the tag",
              "baseline_off_cmd": "cd /repo && go test -mod=mod -json -vet=off -count=1 -timeout 25m ./...",
              "source_commits": hooks, "add_only": True},
    "engines": [
        {"name": "coq-model", "path": "coq/", "serves_properties": sorted(claims),
         "kind_free_text": "Coq 8.16.1 models + theorems (coq/Props/<id>.v); extracted to OCaml (build/kevo_model) for the correspondence check"},
        {"name": "harness", "path": "harness/", "serves_properties": sorted(claims),
         "kind_free_text": "Go harness driving /repo's packages (-tags verif) on generated cases; independent property oracles"},
        {"name": "gofacts", "path": "gofacts/", "serves_properties": sorted(claims),
         "kind_free_text": "translator Go source -> coq/gen/*.v (constants, API table, lock/call facts), re-run on every check"}],
    "checks": [], "not_applicable": [],
    "notes": "see DESIGN.md; every check = proof obligations (coq/Props/<id>.v, Print Assumptions recorded) + correspondence of the extracted model with /repo on generated cases + independent oracle; known findings in known_findings.json"}
for p in props:
    pid = p["id"]
    if pid in claims:
        m["checks"].append({
            "property_id": pid,
            "quick_cmd": "./check %s quick" % pid,
            "thorough_cmd": "./check %s thorough" % pid,
            "evidence_file": "evidence/%s.json" % pid,
            "replay_cmd_template": "./check %s --replay {path}" % pid,
            "engine": "coq-model",
            "level_claimed": {"category": "proof", "text": claims[pid], "design_ref": "DESIGN.md section 6 " + pid},
            "level_note": "trusted: Coq 8.16.1 kernel (vm_compute for table lemmas and witnesses), extraction (ExtrOcamlBasic only), OCaml driver, Go harness/oracle, gofacts translator; the Go code is modelled, not verified: tie = per-run correspondence + regenerated facts",
            "technique": "Coq proof about a Gallina model + model/implementation correspondence run"})
    else:
        m["not_applicable"].append({"property_id": pid, "reason": "check not registered yet in this revision (being built; the technique applies, see DESIGN.md section 6)"})
json.dump(m, open(os.path.join(R, "MANIFEST.json"), "w"), indent=1)
print("claimed:", sorted(claims))
