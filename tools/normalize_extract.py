#!/usr/bin/env python3
"""Keep coq/Extract.v well-formed after merges: inside the Separate Extraction command, drop
every lone '.' line and trailing '.' on root lines, de-duplicate root lines, end with one '.'."""
import os, re, sys
p = os.path.join(os.path.dirname(os.path.dirname(os.path.abspath(__file__))), "coq", "Extract.v")
s = open(p).read()
i = s.index("Separate Extraction")
head, body = s[:i], s[i:]
lines = body.splitlines()
out = [lines[0]]
seen = set()
for l in lines[1:]:
    t = l.strip()
    if t in ("", "."):
        continue
    if t.endswith("."):
        t = t[:-1].rstrip()
    if t in seen:
        continue
    seen.add(t)
    out.append("  " + t)
# de-duplicate Require lines in the head
hl, hs = [], set()
for l in head.splitlines():
    if l.startswith("From ") and l in hs:
        continue
    hs.add(l)
    hl.append(l)
new = "\n".join(hl) + "\n" + "\n".join(out) + "\n.\n"
if new != s:
    open(p, "w").write(new)
    print("normalized coq/Extract.v")
