#!/usr/bin/env python3
"""Resolve merge conflicts in the append-only shared files by taking the union
(ours first, then the lines of theirs that ours does not have)."""
import json, re, subprocess, sys

def git_show(stage, path):
    return subprocess.run(["git", "show", ":%d:%s" % (stage, path)], capture_output=True, text=True).stdout

def union_conflicts(path):
    s = open(path).read()
    out = []
    pat = re.compile(r"<<<<<<< [^\n]*\n(.*?)(?:\|\|\|\|\|\|\| [^\n]*\n.*?)?=======\n(.*?)>>>>>>> [^\n]*\n", re.S)
    pos = 0
    for m in pat.finditer(s):
        out.append(s[pos:m.start()])
        ours, theirs = m.group(1), m.group(2)
        have = set(l.strip() for l in ours.splitlines())
        extra = [l for l in theirs.splitlines() if l.strip() not in have or l.strip() in ("},", "}", "")]
        # keep structure: ours, then their additional lines
        merged = ours
        add = "\n".join(l for l in theirs.splitlines() if l.strip() not in have)
        if add:
            merged += add + "\n"
        out.append(merged)
        pos = m.end()
    out.append(s[pos:])
    open(path, "w").write("".join(out))

def merge_kf(path):
    """3-way: union of both sides, minus what either side removed relative to the base."""
    ours = json.loads(git_show(2, path)); theirs = json.loads(git_show(3, path))
    try:
        base = json.loads(git_show(1, path))
    except Exception:
        base = {"findings": [], "fixed": []}
    out = {}
    for key in ("findings", "fixed"):
        def ident(x):
            return json.dumps([x.get("property"), x.get("id"), x.get("class")]) if isinstance(x, dict) else x
        b = {ident(x) for x in base.get(key, [])}
        o = {ident(x): x for x in ours.get(key, [])}
        t = {ident(x): x for x in theirs.get(key, [])}
        removed = (b - set(o)) | (b - set(t))
        res = []
        for k, v in list(o.items()) + [(k, v) for k, v in t.items() if k not in o]:
            if k not in removed:
                res.append(v)
        out[key] = res
    json.dump(out, open(path, "w"), indent=1)

for p in sys.argv[1:]:
    if p.endswith("known_findings.json"):
        merge_kf(p)
    else:
        union_conflicts(p)
    print("resolved", p)
