#!/usr/bin/env python3
"""Resolve merge conflicts in the append-only shared files by taking the union
(ours first, then the lines of theirs that ours does not have)."""
import json, re, subprocess, sys

def git_show(stage, path):
    return subprocess.run(["git", "show", ":%d:%s" % (stage, path)], capture_output=True, text=True).stdout

def union_conflicts(path):
    s = open(path).read()
    out = []
    pat = re.compile(r"<<<<<<< [^\n]*\n(.*?)(?:\|\|\|\|\|\|\| [^\n]*\n.*?)?=======\n(.*?)>>>>>>> [^\n]*\n", re.S)
    pos = 0
    for m in pat.finditer(s):
        out.append(s[pos:m.start()])
        ours, theirs = m.group(1), m.group(2)
        have = set(l.strip() for l in ours.splitlines())
        extra = [l for l in theirs.splitlines() if l.strip() not in have or l.strip() in ("},", "}", "")]
        # keep structure: ours, then their additional lines
        merged = ours
        add = "\n".join(l for l in theirs.splitlines() if l.strip() not in have)
        if add:
            merged += add + "\n"
        out.append(merged)
        pos = m.end()
    out.append(s[pos:])
    open(path, "w").write("".join(out))

def merge_kf(path):
    ours = json.loads(git_show(2, path)); theirs = json.loads(git_show(3, path))
    for key in ("findings", "fixed"):
        seen = [json.dumps(x, sort_keys=True) for x in ours.get(key, [])]
        for x in theirs.get(key, []):
            if json.dumps(x, sort_keys=True) not in seen:
                ours.setdefault(key, []).append(x)
    json.dump(ours, open(path, "w"), indent=1)

for p in sys.argv[1:]:
    if p.endswith("known_findings.json"):
        merge_kf(p)
    else:
        union_conflicts(p)
    print("resolved", p)
