#!/bin/sh
# Build the whole framework from files on disk (offline): translator, Coq development
# (full .vo build), extraction, OCaml model, Go harness.
cd "$(dirname "$0")/.." || exit 2
unset GOTOOLCHAIN GOSUMDB
export GOFLAGS=-mod=mod GOPROXY=off
exec python3 -c '
import sys
sys.path.insert(0, "lib")
import verif
try:
    n = verif.build()
except verif.BuildError as e:
    print("setup failed at", e.stage); print(e.detail[-4000:]); sys.exit(1)
print(n)
sys.exit(0 if n.get("coq_ok") else 1)
'
