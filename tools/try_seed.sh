#!/bin/sh
# try_seed.sh <seed-dir containing patch.diff> <Cxx> [tier] — apply a seeded change in a scratch
# worktree of /repo, confirm it builds and passes the pinned tests of the touched packages, run the
# check against it, clean up.
D=$1; P=$2; T=${3:-quick}
W=/tmp/tryseed-$$
unset GOTOOLCHAIN GOSUMDB; export GOFLAGS=-mod=mod GOPROXY=off
git -C /repo worktree add -q $W HEAD || exit 2
if ! git -C $W apply "$D/patch.diff"; then echo "PATCH DOES NOT APPLY"; git -C /repo worktree remove --force $W; exit 2; fi
(cd $W && go build ./... ) || { echo "BUILD FAILS"; git -C /repo worktree remove --force $W; exit 2; }
PK=$(git -C $W diff --name-only | xargs -n1 dirname | sort -u | tr '\n' ' ')
echo "touched: $PK"
/verif/tools/run_stable.sh $W $PK 2>&1 | tail -12
cd /verif && VERIF_REPO=$W ./check $P $T; echo "check rc=$?"
git -C /repo worktree remove --force $W
# restore the build against /repo
(cd /verif && ./tools/setup.sh >/dev/null 2>&1)
