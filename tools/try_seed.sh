#!/bin/sh
# try_seed.sh <seed-dir containing patch.diff> <Cxx> [tier] — apply a seeded change in a scratch
# worktree of /repo, confirm it builds and passes the pinned tests of the touched packages, and
# run the check against it from a separate worktree of /verif (so /verif's own build and
# coq/gen stay tied to /repo). Everything is removed afterwards except /tmp/vseed (a cache).
D=$1; P=$2; T=${3:-quick}
W=/tmp/tryseed-$$
V=${VSEED:-/tmp/vseed}
unset GOTOOLCHAIN GOSUMDB; export GOFLAGS=-mod=mod GOPROXY=off
HEAD=$(git -C /verif rev-parse HEAD)
if [ ! -d $V ]; then git -C /verif worktree add -q --detach $V $HEAD || exit 2; else git -C $V checkout -q -- . ; git -C $V checkout -q --detach $HEAD || exit 2; fi
git -C /repo worktree add -q $W HEAD || exit 2
if ! git -C $W apply "$D/patch.diff"; then echo "PATCH DOES NOT APPLY"; git -C /repo worktree remove --force $W; exit 2; fi
(cd $W && go build ./... ) || { echo "BUILD FAILS"; git -C /repo worktree remove --force $W; exit 2; }
PK=$(git -C $W diff --name-only | xargs -n1 dirname | sort -u | tr '\n' ' ')
echo "touched: $PK"
/verif/tools/run_stable.sh $W $PK 2>&1 | tail -12
cd $V && VERIF_REPO=$W ./check $P $T; rc=$?; echo "check rc=$rc"
for f in $(ls $V/replays 2>/dev/null | grep -v gitkeep); do echo "--- replay $f"; head -c 1500 $V/replays/$f; echo; done
rm -f $V/replays/*.case $V/replays/*.txt
git -C $V checkout -q -- . 2>/dev/null
git -C /repo worktree remove --force $W
exit $rc
