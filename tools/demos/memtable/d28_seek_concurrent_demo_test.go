// D28 demonstration (drop into /repo/pkg/memtable/): Iterator.Seek on a table that a writer is
// inserting into can land on a key SMALLER than the target, because after the descent it
// re-reads the level-0 successor of the last node below the target, and a node inserted in
// between is smaller than the target. FAILS before the fix, PASSES after.
package memtable

import (
	"bytes"
	"fmt"
	"sync"
	"testing"
)

func TestDemoD28SeekNeverLandsBelowTarget(t *testing.T) {
	for round := 0; round < 30; round++ {
		mt := NewMemTable()
		target := []byte("zzzz-sentinel")
		mt.Put(target, []byte("v"), 1)
		var wg sync.WaitGroup
		stop := make(chan struct{})
		bad := make(chan string, 1)
		for r := 0; r < 3; r++ {
			wg.Add(1)
			go func() {
				defer wg.Done()
				for {
					select {
					case <-stop:
						return
					default:
					}
					it := mt.NewIterator()
					it.Seek(target)
					if it.Valid() && bytes.Compare(it.Key(), target) < 0 {
						select {
						case bad <- fmt.Sprintf("Seek(%q) positioned on %q", target, it.Key()):
						default:
						}
						return
					}
				}
			}()
		}
		for i := 0; i < 20000; i++ {
			mt.Put([]byte(fmt.Sprintf("zzzz-%08d", i)), []byte("x"), uint64(i+2))
		}
		close(stop)
		wg.Wait()
		select {
		case m := <-bad:
			t.Fatalf("round %d: %s", round, m)
		default:
		}
	}
}
