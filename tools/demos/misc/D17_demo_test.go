// D17 demonstration. Package directory: pkg/replication
// (copy to pkg/replication/d17_demo_test.go, run: go test -run TestD17 ./pkg/replication)
package replication

import (
	"errors"
	"fmt"
	"os"
	"path/filepath"
	"reflect"
	"testing"
	"time"

	"github.com/KevoDB/kevo/pkg/config"
	"github.com/KevoDB/kevo/pkg/wal"
	proto "github.com/KevoDB/kevo/proto/kevo/replication"
	"google.golang.org/grpc"
)

func d17Entry(seq uint64, key string) *proto.WALEntry {
	e := &wal.Entry{SequenceNumber: seq, Type: wal.OpTypePut, Key: []byte(key), Value: []byte("v-" + key)}
	p, err := WALEntryToProto(e, proto.FragmentType_FULL)
	if err != nil {
		panic(err)
	}
	return p
}

type d17Recorder struct {
	applied []string
	failOn  string
}

func (r *d17Recorder) apply(e *wal.Entry) error {
	id := fmt.Sprintf("%d:%s", e.SequenceNumber, e.Key)
	if id == r.failOn {
		return errors.New("injected apply failure")
	}
	r.applied = append(r.applied, id)
	return nil
}

func (r *d17Recorder) expect(t *testing.T, what string, want ...string) {
	t.Helper()
	if len(r.applied) == 0 && len(want) == 0 {
		return
	}
	if !reflect.DeepEqual(r.applied, want) {
		t.Errorf("%s: applied %v, want %v", what, r.applied, want)
	}
	r.applied = nil
}

// Applier level: the deliveries a primary produces for a log that contains
// transactions (entries sharing a sequence number), duplicates and overlaps.
func TestD17_ApplierAcceptsTransactionsAndDuplicates(t *testing.T) {
	a := NewWALBatchApplier(0)
	rec := &d17Recorder{}
	deliver := func(what string, wantMax uint64, entries ...*proto.WALEntry) {
		t.Helper()
		max, gap, err := a.ApplyEntries(entries, rec.apply)
		if err != nil || gap {
			t.Errorf("%s: gap=%v err=%v", what, gap, err)
		}
		if max != wantMax || a.GetMaxApplied() != wantMax || a.GetExpectedNext() != wantMax+1 {
			t.Errorf("%s: reported %d (max %d, next %d), want %d", what, max, a.GetMaxApplied(), a.GetExpectedNext(), wantMax)
		}
	}

	// poll delivery containing a 3-key transaction (sequence number 2)
	poll1 := []*proto.WALEntry{d17Entry(1, "a"), d17Entry(2, "b"), d17Entry(2, "c"), d17Entry(2, "d"), d17Entry(3, "e")}
	deliver("poll with a transaction", 3, poll1...)
	rec.expect(t, "poll with a transaction", "1:a", "2:b", "2:c", "2:d", "3:e")

	// the same delivery again (poll repeats until the ack arrives)
	deliver("duplicate poll", 3, poll1...)
	rec.expect(t, "duplicate poll")

	// overlapping delivery: old part skipped, new part applied
	deliver("overlapping poll", 4, d17Entry(2, "b"), d17Entry(2, "c"), d17Entry(2, "d"), d17Entry(3, "e"), d17Entry(4, "f"))
	rec.expect(t, "overlapping poll", "4:f")

	// push: the batcher sends the entries of a transaction one response each
	deliver("push 1/3", 5, d17Entry(5, "g"))
	deliver("push 2/3", 5, d17Entry(5, "h"))
	deliver("push 3/3", 5, d17Entry(5, "i"))
	rec.expect(t, "pushed transaction", "5:g", "5:h", "5:i")

	// then the poll delivers it again, starting exactly at the pushed number
	deliver("poll after push", 6, d17Entry(5, "g"), d17Entry(5, "h"), d17Entry(5, "i"), d17Entry(6, "j"))
	rec.expect(t, "poll after push", "6:j")
	deliver("poll after push, again", 6, d17Entry(6, "j"))
	rec.expect(t, "poll after push, again")

	// a stale delivery does not move the reported sequence backwards
	deliver("stale delivery", 6, d17Entry(1, "a"))
	rec.expect(t, "stale delivery")

	// a failure in the middle of a transaction: nothing is applied twice on redelivery
	rec.failOn = "7:m"
	tx7 := []*proto.WALEntry{d17Entry(7, "k"), d17Entry(7, "l"), d17Entry(7, "m"), d17Entry(8, "n")}
	max, gap, err := a.ApplyEntries(tx7, rec.apply)
	if err == nil || gap {
		t.Errorf("apply failure: gap=%v err=%v, want a plain error", gap, err)
	}
	if max != 6 || a.GetMaxApplied() != 6 || a.GetExpectedNext() != 7 {
		t.Errorf("apply failure: reported %d (max %d, next %d); the half-applied transaction 7 must not count", max, a.GetMaxApplied(), a.GetExpectedNext())
	}
	rec.expect(t, "apply failure", "7:k", "7:l")
	rec.failOn = ""
	deliver("redelivery after failure", 8, tx7...)
	rec.expect(t, "redelivery after failure", "7:m", "8:n")

	// genuine gaps are still gaps, and nothing of such a delivery is applied
	if _, gap, err := a.ApplyEntries([]*proto.WALEntry{d17Entry(10, "x")}, rec.apply); !gap || err == nil {
		t.Errorf("delivery starting beyond the expected sequence: gap=%v err=%v", gap, err)
	}
	if _, gap, err := a.ApplyEntries([]*proto.WALEntry{d17Entry(9, "o"), d17Entry(11, "x")}, rec.apply); !gap || err == nil {
		t.Errorf("hole inside a delivery: gap=%v err=%v", gap, err)
	}
	if _, _, err := a.ApplyEntries([]*proto.WALEntry{d17Entry(9, "o"), d17Entry(8, "n")}, rec.apply); err == nil {
		t.Errorf("decreasing sequence inside a delivery accepted")
	}
	rec.expect(t, "rejected deliveries")
	if a.GetMaxApplied() != 8 || a.GetExpectedNext() != 9 {
		t.Errorf("after rejected deliveries: max %d next %d, want 8 and 9", a.GetMaxApplied(), a.GetExpectedNext())
	}
	deliver("next entry", 9, d17Entry(9, "o"))
	rec.expect(t, "next entry", "9:o")
}

// fake server side of a StreamWAL call that records what the primary sends
type d17Stream struct {
	grpc.ServerStream
	sent []*proto.WALStreamResponse
}

func (s *d17Stream) Send(r *proto.WALStreamResponse) error {
	s.sent = append(s.sent, r)
	return nil
}

// End to end with the real primary: whatever it pushes and polls for a log with
// a transaction, the replica applier must apply the log exactly once, in order.
func TestD17_ApplierFollowsARealPrimary(t *testing.T) {
	dir, err := os.MkdirTemp("", "d17")
	if err != nil {
		t.Fatal(err)
	}
	defer os.RemoveAll(dir)
	w, err := wal.NewWAL(config.NewDefaultConfig(dir), filepath.Join(dir, "wal"))
	if err != nil {
		t.Fatal(err)
	}
	defer w.Close()
	cfg := DefaultPrimaryConfig()
	cfg.CompressionCodec = proto.CompressionCodec_NONE
	cfg.EnableCompression = false
	primary, err := NewPrimary(w, cfg)
	if err != nil {
		t.Fatal(err)
	}
	defer primary.Close()

	stream := &d17Stream{}
	session := &ReplicaSession{ID: "d17", Stream: stream, Connected: true, Active: true, LastActivity: time.Now(),
		SupportedCodecs: []proto.CompressionCodec{proto.CompressionCodec_NONE}}
	primary.registerReplicaSession(session)

	// the log: put, 3-key transaction, put
	if _, err := w.Append(wal.OpTypePut, []byte("a"), []byte("1")); err != nil {
		t.Fatal(err)
	}
	if _, err := w.AppendBatch([]*wal.Entry{
		{Type: wal.OpTypePut, Key: []byte("b"), Value: []byte("2")},
		{Type: wal.OpTypeDelete, Key: []byte("c")},
		{Type: wal.OpTypePut, Key: []byte("d"), Value: []byte("4")},
	}); err != nil {
		t.Fatal(err)
	}
	if _, err := w.Append(wal.OpTypePut, []byte("e"), []byte("5")); err != nil {
		t.Fatal(err)
	}
	// plus what the 100 ms poll sends while nothing is acknowledged yet
	if err := primary.sendUpdatedEntries(session); err != nil {
		t.Fatal(err)
	}
	if err := primary.sendUpdatedEntries(session); err != nil {
		t.Fatal(err)
	}

	a := NewWALBatchApplier(0)
	rec := &d17Recorder{}
	for i, resp := range stream.sent {
		seqs := []uint64{}
		for _, e := range resp.Entries {
			seqs = append(seqs, e.SequenceNumber)
		}
		_, gap, err := a.ApplyEntries(resp.Entries, rec.apply)
		if gap && len(seqs) > 0 && seqs[0] > a.GetExpectedNext() {
			// a push that overtook the poll (the primary pushes batch entries
			// with sequence number 0 and drops them): the replica NACKs and the
			// poll below fills the hole
			t.Logf("delivery %d (sequence numbers %v): gap, NACK from %d", i, seqs, a.GetExpectedNext())
			continue
		}
		if err != nil {
			t.Errorf("delivery %d (sequence numbers %v): gap=%v err=%v", i, seqs, gap, err)
		}
	}
	rec.expect(t, "replica", "1:a", "2:b", "2:c", "2:d", "3:e")
	if a.GetMaxApplied() != 3 {
		t.Errorf("max applied %d, want 3", a.GetMaxApplied())
	}
}
