// D24 demonstration. Package directory: pkg/common/iterator/bounded
// (copy to pkg/common/iterator/bounded/d24_demo_test.go, run: go test -run TestD24 ./pkg/common/iterator/bounded)
package bounded

import "testing"

// SeekToLast must land on the greatest key k with start <= k < end.
func TestD24_SeekToLastWithEndBound(t *testing.T) {
	data := map[string]string{"a": "1", "c": "3", "e": "5", "g": "7"}
	b := func(s string) []byte {
		if s == "" {
			return nil
		}
		return []byte(s)
	}
	for _, c := range []struct{ start, end, want string }{
		{"a", "e", "c"}, // end bound is a key (worked before)
		{"a", "f", "e"}, // first key >= end is larger than end
		{"a", "z", "g"}, // no key >= end
		{"b", "d", "c"},
		{"", "f", "e"},
		{"", "z", "g"},
		{"", "a", ""},  // nothing below end
		{"b", "c", ""}, // empty range between keys
		{"d", "e", ""},
		{"h", "z", ""}, // range beyond the last key
		{"c", "d", "c"},
		{"c", "", "g"}, // no end bound
		{"h", "", ""},
		{"", "", "g"},
	} {
		it := NewBoundedIterator(newMockIterator(data), b(c.start), b(c.end))
		it.SeekToLast()
		got := ""
		if it.Valid() {
			got = string(it.Key())
		}
		if got != c.want {
			t.Errorf("range [%q,%q): SeekToLast at %q (valid=%v), want %q", c.start, c.end, got, it.Valid(), c.want)
		}
		if c.want != "" {
			if string(it.Value()) != data[c.want] {
				t.Errorf("range [%q,%q): value %q, want %q", c.start, c.end, it.Value(), data[c.want])
			}
			// it is the last key of the range: Next must leave the range
			if it.Next() || it.Valid() {
				t.Errorf("range [%q,%q): Next after SeekToLast still valid at %q", c.start, c.end, it.Key())
			}
		}
	}
}
