// D26 demonstration. Package directory: pkg/common/iterator/bounded
// (copy to pkg/common/iterator/bounded/d26_demo_test.go, run: go test -run TestD26 ./pkg/common/iterator/bounded)
package bounded

import "testing"

// A failed Seek (target at or after the end bound) must leave the iterator
// invalid, not parked on whatever it pointed at before.
func TestD26_FailedSeekInvalidates(t *testing.T) {
	data := map[string]string{"a": "1", "c": "3", "e": "5", "g": "7"}
	for _, target := range []string{"f", "g", "z"} {
		it := NewBoundedIterator(newMockIterator(data), []byte("a"), []byte("f"))
		it.SeekToFirst()
		if !it.Valid() || string(it.Key()) != "a" {
			t.Fatalf("SeekToFirst at %q", it.Key())
		}
		if it.Seek([]byte(target)) {
			t.Errorf("Seek(%q) in [a,f) returned true", target)
		}
		if it.Valid() || it.Key() != nil {
			t.Errorf("after failed Seek(%q): Valid=%v Key=%q, want invalid", target, it.Valid(), it.Key())
		}
		// the usual consumer loop must see nothing
		n := 0
		for it.Seek([]byte(target)); it.Valid(); it.Next() {
			n++
		}
		if n != 0 {
			t.Errorf("for Seek(%q); Valid(); Next() visited %d keys, want 0", target, n)
		}
	}
}
