// D27 demonstration. Package directory: pkg/transaction
// (copy to pkg/transaction/d27_demo_test.go, run: go test -run TestD27 ./pkg/transaction)
package transaction

import "testing"

// Putting an empty value (nil after protobuf decoding) is a put, not a delete:
// the transaction must see the key with an empty value before and after commit.
func TestD27_PutOfNilValueIsNotADeletion(t *testing.T) {
	storage := NewMemoryStorage()
	m := NewManager(storage, nil)

	tx, err := m.BeginTransaction(false)
	if err != nil {
		t.Fatal(err)
	}
	if err := tx.Put([]byte("nil"), nil); err != nil {
		t.Fatal(err)
	}
	if err := tx.Put([]byte("empty"), []byte{}); err != nil {
		t.Fatal(err)
	}
	if err := tx.Delete([]byte("gone")); err != nil {
		t.Fatal(err)
	}

	for _, k := range []string{"nil", "empty"} {
		v, err := tx.Get([]byte(k))
		if err != nil || v == nil || len(v) != 0 {
			t.Errorf("in-tx Get(%q) = %v, %v; want an empty value and no error", k, v, err)
		}
	}
	if _, err := tx.Get([]byte("gone")); err != ErrKeyNotFound {
		t.Errorf("in-tx Get(gone) err = %v, want ErrKeyNotFound", err)
	}

	seen := map[string]bool{}
	it := tx.NewIterator()
	for it.SeekToFirst(); it.Valid(); it.Next() {
		seen[string(it.Key())] = it.IsTombstone()
	}
	for k, wantTomb := range map[string]bool{"nil": false, "empty": false, "gone": true} {
		tomb, ok := seen[k]
		if !ok || tomb != wantTomb {
			t.Errorf("tx iterator: key %q present=%v tombstone=%v; want present, tombstone=%v", k, ok, tomb, wantTomb)
		}
	}

	if err := tx.Commit(); err != nil {
		t.Fatal(err)
	}
	for _, k := range []string{"nil", "empty"} {
		v, err := storage.Get([]byte(k))
		if err != nil || len(v) != 0 {
			t.Errorf("after commit Get(%q) = %v, %v; want an empty value", k, v, err)
		}
	}
}
