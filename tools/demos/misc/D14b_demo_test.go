// D14b demonstration. Package directory: pkg/grpc/service
// (copy to pkg/grpc/service/d14b_demo_test.go, run: go test -run TestD14b ./pkg/grpc/service)
package service

import (
	"context"
	"testing"
	"time"

	"github.com/KevoDB/kevo/pkg/engine"
	"github.com/KevoDB/kevo/pkg/transaction"
	pb "github.com/KevoDB/kevo/proto/kevo"
)

// A TxGet with an invalid key is a client mistake; it must neither destroy the
// transaction nor leak the engine's writer lock.
func TestD14b_InvalidKeyDoesNotLeakTransaction(t *testing.T) {
	eng, err := engine.NewEngineFacade(t.TempDir())
	if err != nil {
		t.Fatal(err)
	}
	defer eng.Close()
	reg := transaction.NewRegistry()
	defer reg.GracefulShutdown(context.Background())
	s := NewKevoServiceServer(eng, reg, nil)
	ctx := context.Background()

	b, err := s.BeginTransaction(ctx, &pb.BeginTransactionRequest{ReadOnly: false})
	if err != nil {
		t.Fatal(err)
	}
	id := b.TransactionId
	if _, err := s.TxPut(ctx, &pb.TxPutRequest{TransactionId: id, Key: []byte("k"), Value: []byte("v")}); err != nil {
		t.Fatal(err)
	}

	// invalid requests of every kind
	if _, err := s.TxGet(ctx, &pb.TxGetRequest{TransactionId: id, Key: nil}); err == nil {
		t.Error("TxGet with empty key should fail")
	}
	if _, err := s.TxGet(ctx, &pb.TxGetRequest{TransactionId: id, Key: make([]byte, 5000)}); err == nil {
		t.Error("TxGet with oversized key should fail")
	}
	if _, err := s.TxPut(ctx, &pb.TxPutRequest{TransactionId: id, Key: nil, Value: []byte("v")}); err == nil {
		t.Error("TxPut with empty key should fail")
	}
	if _, err := s.TxDelete(ctx, &pb.TxDeleteRequest{TransactionId: id, Key: nil}); err == nil {
		t.Error("TxDelete with empty key should fail")
	}

	// The transaction is still there and usable
	g, err := s.TxGet(ctx, &pb.TxGetRequest{TransactionId: id, Key: []byte("k")})
	if err != nil || !g.Found || string(g.Value) != "v" {
		t.Errorf("TxGet after an invalid request: %+v, %v; want the buffered value", g, err)
	}
	c, err := s.CommitTransaction(ctx, &pb.CommitTransactionRequest{TransactionId: id})
	if err != nil || !c.Success {
		t.Errorf("Commit after an invalid request: %+v, %v", c, err)
	}

	// Whatever happened above, the writer lock must be free now
	done := make(chan error, 1)
	go func() {
		tx, err := eng.BeginTransaction(false)
		if err == nil {
			err = tx.Rollback()
		}
		done <- err
	}()
	select {
	case err := <-done:
		if err != nil {
			t.Error(err)
		}
	case <-time.After(2 * time.Second):
		t.Fatal("writer lock leaked: the transaction handle was dropped without rollback")
	}

	if v, err := eng.Get([]byte("k")); err != nil || string(v) != "v" {
		t.Errorf("committed value: %q, %v", v, err)
	}
}
