// D23 demonstration. Package directory: pkg/wal
// (copy to pkg/wal/d23_demo_test.go, run: go test -run TestD23 ./pkg/wal)
package wal

import (
	"bytes"
	"os"
	"testing"
)

type d23Entry struct {
	seq uint64
	typ uint8
	k   string
	v   []byte
}

func d23Replay(t *testing.T, dir string) []d23Entry {
	t.Helper()
	var got []d23Entry
	if _, err := ReplayWALDir(dir, func(e *Entry) error {
		got = append(got, d23Entry{e.SequenceNumber, e.Type, string(e.Key), append([]byte(nil), e.Value...)})
		return nil
	}); err != nil {
		t.Fatalf("replay: %v", err)
	}
	return got
}

func d23Big(n int, seed byte) []byte {
	b := make([]byte, n)
	for i := range b {
		b[i] = seed + byte(i*7)
	}
	return b
}

// A batch containing an op larger than one WAL record must commit (Append
// accepts the same op) and replay intact with one shared sequence number.
func TestD23_BatchWithLargeValue(t *testing.T) {
	for _, withSeq := range []bool{false, true} {
		dir := createTempDir(t)
		defer os.RemoveAll(dir)
		w, err := NewWAL(createTestConfig(), dir)
		if err != nil {
			t.Fatal(err)
		}
		if _, err := w.Append(OpTypePut, []byte("before"), []byte("x")); err != nil {
			t.Fatal(err)
		}

		big := d23Big(40*1024, 1)
		huge := d23Big(200*1024+17, 9)        // several middle fragments
		longKey := string(d23Big(33*1024, 3)) // key alone exceeds a record
		batch := []*Entry{
			{Type: OpTypePut, Key: []byte("a"), Value: []byte("1")},
			{Type: OpTypePut, Key: []byte("b"), Value: big},
			{Type: OpTypeDelete, Key: []byte("c")},
			{Type: OpTypePut, Key: []byte("d"), Value: huge},
			{Type: OpTypeDelete, Key: []byte(longKey)},
			{Type: OpTypePut, Key: []byte("e"), Value: []byte("5")},
		}
		var seq uint64
		if withSeq {
			seq, err = w.AppendBatchWithSequence(batch, 2)
		} else {
			seq, err = w.AppendBatch(batch)
		}
		if err != nil {
			t.Errorf("withSeq=%v: batch with a 40KB value rejected: %v", withSeq, err)
		} else if seq != 2 {
			t.Errorf("withSeq=%v: batch sequence = %d, want 2", withSeq, seq)
		}

		// The next append must get a fresh sequence number
		after, err := w.Append(OpTypePut, []byte("after"), []byte("y"))
		if err != nil {
			t.Fatal(err)
		}
		if after != 3 {
			t.Errorf("withSeq=%v: sequence after the batch = %d, want 3", withSeq, after)
		}
		if err := w.Close(); err != nil {
			t.Fatal(err)
		}

		want := []d23Entry{
			{1, OpTypePut, "before", []byte("x")},
			{2, OpTypePut, "a", []byte("1")},
			{2, OpTypePut, "b", big},
			{2, OpTypeDelete, "c", nil},
			{2, OpTypePut, "d", huge},
			{2, OpTypeDelete, longKey, nil},
			{2, OpTypePut, "e", []byte("5")},
			{3, OpTypePut, "after", []byte("y")},
		}
		got := d23Replay(t, dir)
		if len(got) != len(want) {
			t.Errorf("withSeq=%v: replayed %d entries, want %d", withSeq, len(got), len(want))
		}
		for i := 0; i < len(got) && i < len(want); i++ {
			g, x := got[i], want[i]
			if g.seq != x.seq || g.typ != x.typ || g.k != x.k || !bytes.Equal(g.v, x.v) {
				t.Errorf("withSeq=%v: entry %d = seq %d type %d key %.10q (%d value bytes); want seq %d type %d key %.10q (%d value bytes)",
					withSeq, i, g.seq, g.typ, g.k, len(g.v), x.seq, x.typ, x.k, len(x.v))
			}
		}
	}
}

// A batch that is rejected must leave nothing behind in the log.
func TestD23_RejectedBatchLeavesNoTrace(t *testing.T) {
	dir := createTempDir(t)
	defer os.RemoveAll(dir)
	w, err := NewWAL(createTestConfig(), dir)
	if err != nil {
		t.Fatal(err)
	}
	_, err = w.AppendBatch([]*Entry{
		{Type: OpTypePut, Key: []byte("a"), Value: []byte("1")},
		{Type: 99, Key: []byte("b"), Value: []byte("2")},
	})
	if err == nil {
		t.Error("batch with an invalid op type was accepted")
	}
	if _, err := w.Append(OpTypePut, []byte("z"), []byte("26")); err != nil {
		t.Fatal(err)
	}
	w.Close()
	got := d23Replay(t, dir)
	if len(got) != 1 || got[0].k != "z" || got[0].seq != 1 {
		t.Errorf("replay after a rejected batch: %d entries %+v; want only z@1", len(got), got)
	}
}

// The whole batch, fragments included, must sit in the write buffer until it is
// flushed in one piece: no part of it may reach the file early. The size
// estimate therefore has to count the extra fragment headers.
func TestD23_BatchStaysInOneBufferedWrite(t *testing.T) {
	dir := createTempDir(t)
	defer os.RemoveAll(dir)
	cfg := createTestConfig()
	cfg.WALSyncMode = 0 // config.SyncNone
	w, err := NewWAL(cfg, dir)
	if err != nil {
		t.Fatal(err)
	}
	defer w.Close()
	// payload 13+1+4+65511 = 65529 bytes; with ONE record header that is exactly
	// the 64KB buffer, but the entry needs three records (65550 bytes)
	batch := []*Entry{{Type: OpTypePut, Key: []byte("k"), Value: d23Big(65511, 5)}}
	if _, err := w.AppendBatch(batch); err != nil {
		t.Fatalf("batch rejected: %v", err)
	}
	st, err := w.file.Stat()
	if err != nil {
		t.Fatal(err)
	}
	if st.Size() != 0 || w.writer.Buffered() != 65550 {
		t.Errorf("%d bytes reached the file before the batch was complete (buffered %d, want 0 and 65550)", st.Size(), w.writer.Buffered())
	}
}
