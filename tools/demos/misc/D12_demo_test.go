// D12 demonstration. Package directory: pkg/transaction
// (copy to pkg/transaction/d12_demo_test.go, run: go test -run TestD12 ./pkg/transaction)
package transaction

import (
	"bytes"
	"testing"
)

// The caller reuses its key/value buffers between Put/Delete calls (the usual
// pattern when decoding requests into a scratch buffer). What is committed must
// be what was passed at call time.
func TestD12_BufferCapturesKeyAndValueAtCallTime(t *testing.T) {
	storage := NewMemoryStorage()
	if err := storage.ApplyBatch(nil); err != nil {
		t.Fatal(err)
	}
	m := NewManager(storage, nil)

	// pre-existing key to delete
	pre, _ := m.BeginTransaction(false)
	pre.Put([]byte("del1"), []byte("x"))
	pre.Put([]byte("keep"), []byte("y"))
	if err := pre.Commit(); err != nil {
		t.Fatal(err)
	}

	tx, err := m.BeginTransaction(false)
	if err != nil {
		t.Fatal(err)
	}
	k := []byte("key1")
	v := []byte("val1")
	if err := tx.Put(k, v); err != nil {
		t.Fatal(err)
	}
	// reuse buffers
	copy(k, "key2")
	copy(v, "val2")
	if err := tx.Put(k, v); err != nil {
		t.Fatal(err)
	}
	d := []byte("del1")
	if err := tx.Delete(d); err != nil {
		t.Fatal(err)
	}
	copy(d, "keep") // reuse the delete key buffer

	// Read-your-writes inside the transaction must see call-time data too.
	if got, err := tx.Get([]byte("key1")); err != nil || !bytes.Equal(got, []byte("val1")) {
		t.Errorf("in-tx Get(key1) = %q, %v; want val1", got, err)
	}

	// A value returned by Get must not alias the buffer either.
	got, _ := tx.Get([]byte("key2"))
	if len(got) > 0 {
		got[0] = 'X'
	}

	if err := tx.Commit(); err != nil {
		t.Fatal(err)
	}

	for _, c := range []struct{ k, v string }{{"key1", "val1"}, {"key2", "val2"}, {"keep", "y"}} {
		got, err := storage.Get([]byte(c.k))
		if err != nil || string(got) != c.v {
			t.Errorf("after commit Get(%s) = %q, %v; want %q", c.k, got, err, c.v)
		}
	}
	if _, err := storage.Get([]byte("del1")); err != ErrKeyNotFound {
		t.Errorf("del1 should have been deleted, got err=%v", err)
	}
}
