// D15 demonstration. Package directory: pkg/compaction
// (copy to pkg/compaction/d15_demo_test.go, run: go test -race -run TestD15 ./pkg/compaction)
// Without -race the unfixed code usually dies with "fatal error: concurrent map writes".
package compaction

import (
	"fmt"
	"sync"
	"testing"
	"time"
)

// Engine Delete calls (any number of client goroutines) reach AddTombstone,
// while the compaction goroutine calls ShouldKeepTombstone and CollectGarbage.
func TestD15_TombstoneTrackerIsSafeForConcurrentUse(t *testing.T) {
	tr := NewTombstoneTracker(time.Millisecond)
	var wg sync.WaitGroup
	for g := 0; g < 8; g++ {
		wg.Add(1)
		go func(g int) {
			defer wg.Done()
			for i := 0; i < 2000; i++ {
				tr.AddTombstone([]byte(fmt.Sprintf("key-%d-%d", g, i)))
			}
		}(g)
	}
	wg.Add(2)
	go func() {
		defer wg.Done()
		for i := 0; i < 2000; i++ {
			tr.ShouldKeepTombstone([]byte(fmt.Sprintf("key-0-%d", i)))
			if i%100 == 0 {
				tr.ForcePreserveTombstone([]byte(fmt.Sprintf("keep-%d", i)))
			}
		}
	}()
	go func() {
		defer wg.Done()
		for i := 0; i < 50; i++ {
			tr.CollectGarbage()
			time.Sleep(100 * time.Microsecond)
		}
	}()
	wg.Wait()

	if !tr.ShouldKeepTombstone([]byte("keep-100")) {
		t.Error("force-preserved tombstone lost")
	}
	time.Sleep(5 * time.Millisecond)
	tr.CollectGarbage()
	if tr.ShouldKeepTombstone([]byte("key-0-0")) {
		t.Error("expired tombstone still kept")
	}
}
