// D14a demonstration. Package directory: pkg/transaction
// (copy to pkg/transaction/d14a_demo_test.go, run: go test -run TestD14a ./pkg/transaction)
package transaction

import (
	"context"
	"errors"
	"strings"
	"testing"
	"time"
)

// A Begin that gives up (ctx cancelled / timeout) while the engine is still
// waiting for the global writer lock must not leave a live, unregistered
// transaction behind once the engine finally hands it out.
func TestD14a_AbandonedBeginDoesNotLeakTheWriterLock(t *testing.T) {
	manager := NewManager(NewMemoryStorage(), &StatsCollectorMock{})
	registry := NewRegistry()
	defer registry.GracefulShutdown(context.Background())

	for i := 0; i < 40; i++ {
		// tx1 holds the writer lock
		tx1 := d14aBeginOrFail(t, manager, i, "a previous abandoned Begin")

		// Begin blocks on the writer lock and gives up after 20ms
		ctx, cancel := context.WithTimeout(context.Background(), 20*time.Millisecond)
		id, err := registry.Begin(ctx, manager, false)
		cancel()
		if err == nil {
			t.Fatalf("iteration %d: Begin unexpectedly succeeded (%s)", i, id)
		}

		// tx1 finishes: the abandoned BeginTransaction call now obtains the lock
		if err := tx1.Commit(); err != nil {
			t.Fatal(err)
		}

		// The writer lock must become available again
		d14aBeginOrFail(t, manager, i, err.Error()).Rollback()
	}
	// let the last abandoned creation finish, then check once more
	time.Sleep(50 * time.Millisecond)
	d14aBeginOrFail(t, manager, -1, "an abandoned Begin").Rollback()
}

func d14aBeginOrFail(t *testing.T, manager *Manager, i int, who string) Transaction {
	t.Helper()
	got := make(chan Transaction, 1)
	go func() {
		tx, _ := manager.BeginTransaction(false)
		got <- tx
	}()
	select {
	case tx := <-got:
		return tx
	case <-time.After(2 * time.Second):
		t.Fatalf("iteration %d: writer lock leaked by a Begin that returned an error (%s)", i, who)
		return nil
	}
}

type d14aNoMethodEngine struct{}

type d14aFailingEngine struct{}

func (d14aFailingEngine) BeginTransaction(readOnly bool) (Transaction, error) {
	return nil, errors.New("engine is closed")
}

// Errors of the creating goroutine must be reported, and promptly, instead of
// being swallowed and turned into a 10 s "timed out".
func TestD14a_BeginReportsEngineErrors(t *testing.T) {
	registry := NewRegistry()
	defer registry.GracefulShutdown(context.Background())

	for _, c := range []struct {
		name   string
		engine interface{}
		want   string
	}{
		{"no method", d14aNoMethodEngine{}, "does not have BeginTransaction"},
		{"engine error", d14aFailingEngine{}, "engine is closed"},
	} {
		ctx, cancel := context.WithTimeout(context.Background(), 500*time.Millisecond)
		start := time.Now()
		_, err := registry.Begin(ctx, c.engine, false)
		cancel()
		if err == nil || !strings.Contains(err.Error(), c.want) {
			t.Errorf("%s: Begin error = %v after %v; want one containing %q", c.name, err, time.Since(start), c.want)
		}
	}
}
