package engine

// Demonstration for proposed_fixes/C12-5.diff (drop into pkg/engine/): the empty key is a legal
// key. Before the fix a table holding it iterates as empty (block.Iterator.Valid() demands
// len(key) > 0), so a compaction of such tables writes nothing and deletes them.

import (
	"bytes"
	"os"
	"path/filepath"
	"sort"
	"testing"

	"github.com/KevoDB/kevo/pkg/config"
	"github.com/KevoDB/kevo/pkg/sstable"
	"github.com/KevoDB/kevo/pkg/wal"
)

func TestEmptyKeySurvivesFlushCompactionAndReopen(t *testing.T) {
	wal.DisableRecoveryLogs = true
	dir := t.TempDir()
	cfg := config.NewDefaultConfig(dir)
	cfg.MaxMemTables = 2
	cfg.CompactionInterval = 3600
	if err := cfg.SaveManifest(dir); err != nil {
		t.Fatal(err)
	}
	e, err := NewEngineFacade(dir)
	if err != nil {
		t.Fatal(err)
	}
	must := func(err error) {
		t.Helper()
		if err != nil {
			t.Fatal(err)
		}
	}
	must(e.Put([]byte{}, []byte("v1")))
	must(e.Put([]byte("b"), []byte("vb")))
	must(e.FlushImMemTables())
	must(e.Put([]byte{}, []byte("v2")))
	must(e.FlushImMemTables())

	// every table reads back what was flushed into it
	files, _ := filepath.Glob(filepath.Join(dir, "sst", "*.sst"))
	sort.Strings(files)
	for _, f := range files {
		r, err := sstable.OpenReader(f)
		must(err)
		n := 0
		it := r.NewIterator()
		for it.SeekToFirst(); it.Valid(); it.Next() {
			n++
		}
		if n != 2 {
			t.Errorf("%s iterates %d entries, want 2", filepath.Base(f), n)
		}
		if v, err := r.Get([]byte{}); err != nil || len(v) == 0 {
			t.Errorf("%s: Get(empty key) = %q, %v", filepath.Base(f), v, err)
		}
		if v, err := r.Get([]byte("b")); err != nil || !bytes.Equal(v, []byte("vb")) {
			t.Errorf("%s: Get(b) = %q, %v", filepath.Base(f), v, err)
		}
		r.Close()
	}

	// a scan lists both keys, the empty key first
	it, err := e.GetIterator()
	must(err)
	var keys []string
	for it.SeekToFirst(); it.Valid(); it.Next() {
		keys = append(keys, string(it.Key()))
		if len(keys) > 10 {
			t.Fatal("scan does not terminate")
		}
	}
	if len(keys) != 2 || keys[0] != "" || keys[1] != "b" {
		t.Errorf("scan keys = %q, want [\"\" \"b\"]", keys)
	}

	// a bounded scan starting at the empty key
	rit, err := e.GetRangeIterator([]byte{}, []byte("c"))
	must(err)
	keys = nil
	for rit.SeekToFirst(); rit.Valid(); rit.Next() {
		keys = append(keys, string(rit.Key()))
		if len(keys) > 10 {
			t.Fatal("range scan does not terminate")
		}
	}
	if len(keys) != 2 || keys[0] != "" || keys[1] != "b" {
		t.Errorf("range scan keys = %q, want [\"\" \"b\"]", keys)
	}

	must(e.TriggerCompaction())
	must(e.Close())

	// reopen on the table files alone (the flushed log is retired)
	logs, _ := filepath.Glob(filepath.Join(dir, "wal", "*.wal"))
	for _, l := range logs {
		os.Remove(l)
	}
	e, err = NewEngineFacade(dir)
	must(err)
	defer e.Close()
	if v, err := e.Get([]byte{}); err != nil || !bytes.Equal(v, []byte("v2")) {
		t.Errorf("after compaction + reopen: Get(empty key) = %q, %v; want v2", v, err)
	}
	if v, err := e.Get([]byte("b")); err != nil || !bytes.Equal(v, []byte("vb")) {
		t.Errorf("after compaction + reopen: Get(b) = %q, %v; want vb", v, err)
	}
}
