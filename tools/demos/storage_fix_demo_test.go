// Demonstrations for the storage-manager fix: commits (drop into /repo/pkg/engine/ to run:
//   go test -count=1 -run 'TestDemo' ./pkg/engine/ ; the race demo with -race).
// Each test FAILS on the pinned tree 9a570ef and PASSES on the repaired tree.
package engine

import (
	"bytes"
	"fmt"
	"os"
	"sync"
	"testing"

	"github.com/KevoDB/kevo/pkg/config"
)

func openSmall(t *testing.T, dir string, memSize int64) *EngineFacade {
	if _, err := os.Stat(dir + "/MANIFEST"); err != nil {
		cfg := config.NewDefaultConfig(dir)
		cfg.MemTableSize = memSize
		if err := cfg.SaveManifest(dir); err != nil {
			t.Fatal(err)
		}
	}
	e, err := NewEngineFacade(dir)
	if err != nil {
		t.Fatal(err)
	}
	return e
}

// D1: overwrite after flush must win; last_sequence must not go back
func TestDemoD1SequenceAcrossRotation(t *testing.T) {
	dir := t.TempDir()
	e := openSmall(t, dir, 1<<20)
	defer e.Close()
	for i := 0; i < 5; i++ {
		e.Put([]byte("k"), []byte(fmt.Sprintf("old%d", i)))
	}
	before := e.GetStats()["storage_last_sequence"].(uint64)
	if err := e.FlushImMemTables(); err != nil {
		t.Fatal(err)
	}
	e.Put([]byte("k"), []byte("new"))
	v, err := e.Get([]byte("k"))
	if err != nil || string(v) != "new" {
		t.Errorf("after flush+overwrite Get = %q, %v; want new", v, err)
	}
	after := e.GetStats()["storage_last_sequence"].(uint64)
	if after <= before {
		t.Errorf("last_sequence went from %d to %d", before, after)
	}
}

// D2: a put after a committed 3-key transaction must win
func TestDemoD2BatchSequence(t *testing.T) {
	dir := t.TempDir()
	e := openSmall(t, dir, 1<<20)
	defer e.Close()
	tx, _ := e.BeginTransaction(false)
	tx.Put([]byte("a"), []byte("tx"))
	tx.Put([]byte("b"), []byte("tx"))
	tx.Put([]byte("c"), []byte("tx"))
	if err := tx.Commit(); err != nil {
		t.Fatal(err)
	}
	e.Put([]byte("c"), []byte("later"))
	v, _ := e.Get([]byte("c"))
	if string(v) != "later" {
		t.Errorf("Get(c) = %q; want later", v)
	}
}

// D3: empty value is a value, before and after flush+reopen
func TestDemoD3EmptyValue(t *testing.T) {
	dir := t.TempDir()
	e := openSmall(t, dir, 1<<20)
	e.Put([]byte("e"), []byte{})
	e.Put([]byte("n"), nil)
	for _, k := range []string{"e", "n"} {
		v, err := e.Get([]byte(k))
		if err != nil || len(v) != 0 {
			t.Errorf("before flush Get(%s) = %v, %v; want empty value", k, v, err)
		}
	}
	e.FlushImMemTables()
	e.Close()
	os.RemoveAll(dir + "/wal")
	e = openSmall(t, dir, 1<<20)
	defer e.Close()
	for _, k := range []string{"e", "n"} {
		v, err := e.Get([]byte(k))
		if err != nil || len(v) != 0 {
			t.Errorf("after flush+reopen Get(%s) = %v, %v; want empty value", k, v, err)
		}
	}
}

// D7/D10: after reopening with a log larger than one memtable, every key is readable and
// scans agree with gets (several immutable tables hold versions of the same key)
func TestDemoD7D10RecoveredTables(t *testing.T) {
	dir := t.TempDir()
	e := openSmall(t, dir, 400)
	for i := 0; i < 60; i++ {
		e.Put([]byte(fmt.Sprintf("key%02d", i%20)), []byte(fmt.Sprintf("v%03d-xxxxxxxxxxxxxxxxxxxxxxxx", i)))
	}
	e.Close()
	os.RemoveAll(dir + "/sst") // only the log survives
	cfg, _ := config.LoadConfigFromManifest(dir)
	cfg.MaxMemTables = 100
	cfg.SaveManifest(dir)
	e = openSmall(t, dir, 400)
	defer e.Close()
	missing := 0
	for i := 0; i < 20; i++ {
		k := []byte(fmt.Sprintf("key%02d", i))
		want := []byte(fmt.Sprintf("v%03d-xxxxxxxxxxxxxxxxxxxxxxxx", 40+i))
		v, err := e.Get(k)
		if err != nil || !bytes.Equal(v, want) {
			missing++
		}
	}
	if missing > 0 {
		t.Errorf("%d of 20 keys wrong or missing by Get after reopen", missing)
	}
	it, _ := e.GetIterator()
	n, bad := 0, 0
	for it.SeekToFirst(); it.Valid(); it.Next() {
		g, _ := e.Get(it.Key())
		if !bytes.Equal(g, it.Value()) {
			bad++
		}
		n++
	}
	if n != 20 || bad != 0 {
		t.Errorf("scan returned %d keys (want 20), %d disagree with Get", n, bad)
	}
}

// D15 (queue of immutable tables): concurrent writers and explicit flushes; run with -race
func TestDemoD15FlushQueueRace(t *testing.T) {
	dir := t.TempDir()
	e := openSmall(t, dir, 300)
	defer e.Close()
	var wg sync.WaitGroup
	for g := 0; g < 4; g++ {
		wg.Add(1)
		go func(g int) {
			defer wg.Done()
			for i := 0; i < 300; i++ {
				e.Put([]byte(fmt.Sprintf("g%d-%04d", g, i)), bytes.Repeat([]byte("x"), 40))
			}
		}(g)
	}
	wg.Add(1)
	go func() {
		defer wg.Done()
		for i := 0; i < 40; i++ {
			e.FlushImMemTables()
		}
	}()
	wg.Wait()
}
