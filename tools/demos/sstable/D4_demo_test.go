// D4 demonstration. Drop this file into pkg/sstable/block/ (package block) and run
//
//	go test -run TestD4 ./pkg/sstable/block/
//
// Not to be committed.
package block

import (
	"bytes"
	"fmt"
	"testing"
)

type d4Entry struct {
	key []byte
	val []byte // nil = tombstone
	seq uint64
}

// d4Build builds a block with n entries key%05d (i*2, so that odd numbers are "between" targets).
// Every 7th entry is a tombstone. Values are never empty here (empty values are D3).
func d4Build(t *testing.T, n int) (*Reader, []d4Entry) {
	t.Helper()
	b := NewBuilder()
	var es []d4Entry
	for i := 0; i < n; i++ {
		e := d4Entry{key: []byte(fmt.Sprintf("key%05d", i*2)), seq: uint64(1000 + i)}
		if i%7 != 3 {
			e.val = []byte(fmt.Sprintf("value%05d", i*2))
		}
		if err := b.AddWithSequence(e.key, e.val, e.seq); err != nil {
			t.Fatal(err)
		}
		es = append(es, e)
	}
	var buf bytes.Buffer
	if _, err := b.Finish(&buf); err != nil {
		t.Fatal(err)
	}
	r, err := NewReader(buf.Bytes())
	if err != nil {
		t.Fatal(err)
	}
	return r, es
}

func d4Check(t *testing.T, what string, it *Iterator, e d4Entry) bool {
	t.Helper()
	if !it.Valid() {
		t.Errorf("%s: iterator invalid, want %s", what, e.key)
		return false
	}
	ok := true
	if !bytes.Equal(it.Key(), e.key) {
		t.Errorf("%s: key %s, want %s", what, it.Key(), e.key)
		ok = false
	}
	if !bytes.Equal(it.Value(), e.val) || (it.Value() == nil) != (e.val == nil) {
		t.Errorf("%s: value %q, want %q", what, it.Value(), e.val)
		ok = false
	}
	if it.IsTombstone() != (e.val == nil) {
		t.Errorf("%s: IsTombstone %v, want %v", what, it.IsTombstone(), e.val == nil)
		ok = false
	}
	if it.SequenceNumber() != e.seq {
		t.Errorf("%s: seq %d, want %d", what, it.SequenceNumber(), e.seq)
		ok = false
	}
	return ok
}

// (a) forward scan must return every entry exactly once
func TestD4ForwardScan(t *testing.T) {
	for _, n := range []int{1, 2, 15, 16, 17, 100} {
		r, es := d4Build(t, n)
		it := r.Iterator()
		i := 0
		for it.SeekToFirst(); it.Valid(); it.Next() {
			if i >= len(es) {
				t.Fatalf("n=%d: scan returned more than %d entries (extra key %s)", n, len(es), it.Key())
			}
			if !d4Check(t, fmt.Sprintf("n=%d scan[%d]", n, i), it, es[i]) {
				t.FailNow()
			}
			i++
		}
		if i != len(es) {
			t.Fatalf("n=%d: scan returned %d entries, want %d", n, i, len(es))
		}
		// a fresh iterator driven only by Next() behaves the same
		it = r.Iterator()
		i = 0
		for it.Next() {
			if i >= len(es) || !d4Check(t, fmt.Sprintf("n=%d next[%d]", n, i), it, es[i]) {
				t.FailNow()
			}
			i++
		}
		if i != len(es) {
			t.Fatalf("n=%d: Next-only scan returned %d entries, want %d", n, i, len(es))
		}
	}
}

// (b) Seek must land on the first key >= target, and Next must continue from there
func TestD4Seek(t *testing.T) {
	for _, n := range []int{1, 2, 15, 16, 17, 33, 100} {
		r, es := d4Build(t, n)
		wrong := 0
		for i := range es {
			// exact target
			it := r.Iterator()
			if !it.Seek(es[i].key) {
				wrong++
				t.Errorf("n=%d Seek(%s) returned false", n, es[i].key)
				continue
			}
			if !d4Check(t, fmt.Sprintf("n=%d Seek(%s)", n, es[i].key), it, es[i]) {
				wrong++
				continue
			}
			// continue to the end
			contOK := true
			for j := i + 1; j < len(es) && contOK; j++ {
				if !it.Next() {
					t.Errorf("n=%d Seek(%s) then Next stopped at %d", n, es[i].key, j)
					contOK = false
				} else if !d4Check(t, fmt.Sprintf("n=%d Seek(%s)+%d", n, es[i].key, j-i), it, es[j]) {
					contOK = false
				}
			}
			if contOK && (it.Next() || it.Valid()) {
				t.Errorf("n=%d Seek(%s): iteration continues past the last entry (%s)", n, es[i].key, it.Key())
				contOK = false
			}
			if !contOK {
				wrong++
			}
			// target strictly between es[i-1] and es[i] (odd number) -> es[i]
			between := []byte(fmt.Sprintf("key%05d", i*2-1))
			if i == 0 {
				between = []byte("a") // before first
			}
			it = r.Iterator()
			if !it.Seek(between) {
				wrong++
				t.Errorf("n=%d Seek(%s) returned false", n, between)
				continue
			}
			if !d4Check(t, fmt.Sprintf("n=%d Seek(%s)", n, between), it, es[i]) {
				wrong++
			}
		}
		if wrong > 0 {
			t.Errorf("n=%d: %d seeks wrong", n, wrong)
		}
	}
}

// (c) Seek past the last key must fail and leave the iterator invalid
func TestD4SeekPastEnd(t *testing.T) {
	for _, n := range []int{1, 16, 17, 100} {
		r, es := d4Build(t, n)
		it := r.Iterator()
		past := append(append([]byte(nil), es[len(es)-1].key...), 0)
		if it.Seek(past) {
			t.Errorf("n=%d: Seek past the end returned true (key %s)", n, it.Key())
		}
		if it.Valid() {
			t.Errorf("n=%d: iterator valid after Seek past the end (key %s)", n, it.Key())
		}
		if it.SequenceNumber() != 0 || it.IsTombstone() {
			t.Errorf("n=%d: invalid iterator reports seq %d tombstone %v", n, it.SequenceNumber(), it.IsTombstone())
		}
		if it.Next() {
			t.Errorf("n=%d: Next after failed Seek returned true (key %s)", n, it.Key())
		}
		// the iterator is reusable afterwards
		if !it.Seek(es[0].key) || !d4Check(t, "re-seek", it, es[0]) {
			t.Errorf("n=%d: re-seek after failed seek broken", n)
		}
	}
}

// SeekToLast positions on the last entry with its sequence number; Next then ends.
func TestD4SeekToLast(t *testing.T) {
	for _, n := range []int{1, 16, 17, 32, 33, 100} {
		r, es := d4Build(t, n)
		it := r.Iterator()
		it.SeekToLast()
		d4Check(t, fmt.Sprintf("n=%d SeekToLast", n), it, es[len(es)-1])
		if it.Next() || it.Valid() {
			t.Errorf("n=%d: Next after SeekToLast still valid (%s)", n, it.Key())
		}
		// SeekToLast after other positioning calls
		it.SeekToFirst()
		it.Seek(es[len(es)/2].key)
		it.SeekToLast()
		d4Check(t, fmt.Sprintf("n=%d SeekToLast(2)", n), it, es[len(es)-1])
		it.SeekToFirst()
		d4Check(t, fmt.Sprintf("n=%d SeekToFirst after SeekToLast", n), it, es[0])
	}
}
