// D25 demonstration. Drop this file into pkg/sstable/ (package sstable) and run
//
//	go test -run TestD25 -timeout 30s ./pkg/sstable/
//
// Next() on a fresh (never positioned) iterator must position on the first entry
// instead of dead-locking on its own mutex. Not to be committed.
package sstable

import (
	"fmt"
	"path/filepath"
	"testing"
	"time"
)

func TestD25NextOnFreshIterator(t *testing.T) {
	path := filepath.Join(t.TempDir(), "d25.sst")
	w, err := NewWriter(path)
	if err != nil {
		t.Fatal(err)
	}
	const n = 50
	for i := 0; i < n; i++ {
		if err := w.AddWithSequence([]byte(fmt.Sprintf("key%03d", i)), []byte("v"), uint64(i+1)); err != nil {
			t.Fatal(err)
		}
	}
	if err := w.Finish(); err != nil {
		t.Fatal(err)
	}
	r, err := OpenReader(path)
	if err != nil {
		t.Fatal(err)
	}
	defer r.Close()

	type result struct {
		count int
		first string
		seq   uint64
	}
	done := make(chan result, 1)
	go func() {
		it := r.NewIterator()
		var res result
		for it.Next() { // no SeekToFirst before: Next must initialize the iterator
			if res.count == 0 {
				res.first = string(it.Key())
				res.seq = it.SequenceNumber()
			}
			res.count++
		}
		done <- res
	}()
	select {
	case res := <-done:
		if res.count != n || res.first != "key000" || res.seq != 1 {
			t.Errorf("Next-only scan: %d entries, first %q seq %d; want %d, key000, 1", res.count, res.first, res.seq, n)
		}
	case <-time.After(5 * time.Second):
		t.Fatal("Iterator.Next() on a fresh iterator did not return within 5s (self-deadlock on it.mu)")
	}
}
