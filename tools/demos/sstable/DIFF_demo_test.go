// Randomized differential demonstration for pkg/sstable after all fixes (D3, D4, D5, D6, D25).
// Drop this file into pkg/sstable/ (package sstable) and run
//
//	go test -run TestDiff -timeout 20m ./pkg/sstable/            (DIFF_SEED=n DIFF_TABLES=n to vary)
//
// Model: a sorted slice of (key, value|nil, seq). Checked against it: forward iteration
// (SeekToFirst+Next and Next-only), Seek for present / between / before-first / after-last
// targets followed by a few Next steps, SeekToLast, Reader.Get for present and absent keys,
// SequenceNumber and IsTombstone everywhere, with bloom filters on and off; plus the block
// iterator's Seek / SeekForPrev / SeekToLast on random single blocks. Not to be committed.
package sstable

import (
	"bytes"
	"errors"
	"fmt"
	"math/rand"
	"os"
	"path/filepath"
	"sort"
	"strconv"
	"testing"

	"github.com/KevoDB/kevo/pkg/sstable/block"
)

type diffEntry struct {
	key []byte
	val []byte // nil = tombstone, empty non-nil = empty value
	seq uint64
}

func diffEnvInt(name string, def int) int {
	if s := os.Getenv(name); s != "" {
		if v, err := strconv.Atoi(s); err == nil {
			return v
		}
	}
	return def
}

// diffGen generates n strictly increasing keys with long shared prefixes and random
// values (about 10% tombstones, 10% empty values, the rest valLo..valHi random bytes).
func diffGen(rng *rand.Rand, n, valLo, valHi int) []diffEntry {
	prefixes := []string{
		"tenant-0001/users/profile/attribute/",
		"tenant-0001/users/profile/attribute/extended/",
		"tenant-0001/users/settings/",
		"tenant-0002/",
	}
	set := make(map[string]bool, n)
	for len(set) < n {
		p := prefixes[rng.Intn(len(prefixes))]
		var k []byte
		switch rng.Intn(4) {
		case 0: // dense decimal ids: many neighbours differ in the last byte only
			k = []byte(fmt.Sprintf("%s%07d", p, rng.Intn(4*n+10)))
		case 1: // hex id plus suffix of random length
			k = []byte(fmt.Sprintf("%s%08x", p, rng.Uint32()))
			for j := rng.Intn(6); j > 0; j-- {
				k = append(k, byte('a'+rng.Intn(3)))
			}
		case 2: // binary tail with 0x00 / 0xff bytes
			k = []byte(p)
			for j := 1 + rng.Intn(5); j > 0; j-- {
				k = append(k, []byte{0x00, 0x01, 0x7f, 0xfe, 0xff}[rng.Intn(5)])
			}
		default: // a key that is a prefix of other keys
			k = []byte(fmt.Sprintf("%s%04d", p, rng.Intn(n+10)))
		}
		set[string(k)] = true
	}
	keys := make([]string, 0, n)
	for k := range set {
		keys = append(keys, k)
	}
	sort.Strings(keys)
	es := make([]diffEntry, n)
	for i, k := range keys {
		e := diffEntry{key: []byte(k), seq: rng.Uint64() >> uint(rng.Intn(64))}
		switch r := rng.Intn(10); {
		case r == 0:
			e.val = nil
		case r == 1:
			e.val = []byte{}
		default:
			e.val = make([]byte, valLo+rng.Intn(valHi-valLo+1))
			rng.Read(e.val)
		}
		es[i] = e
	}
	return es
}

func diffSame(gotKey, gotVal []byte, gotTomb bool, gotSeq uint64, e diffEntry) string {
	if !bytes.Equal(gotKey, e.key) {
		return fmt.Sprintf("key %q, want %q", gotKey, e.key)
	}
	if (gotVal == nil) != (e.val == nil) || !bytes.Equal(gotVal, e.val) {
		return fmt.Sprintf("key %q: value nil=%v len=%d, want nil=%v len=%d", e.key, gotVal == nil, len(gotVal), e.val == nil, len(e.val))
	}
	if gotTomb != (e.val == nil) {
		return fmt.Sprintf("key %q: IsTombstone %v, want %v", e.key, gotTomb, e.val == nil)
	}
	if gotSeq != e.seq {
		return fmt.Sprintf("key %q: seq %d, want %d", e.key, gotSeq, e.seq)
	}
	return ""
}

// lowerBound returns the index of the first entry with key >= t (len(es) if none).
func lowerBound(es []diffEntry, t []byte) int {
	return sort.Search(len(es), func(i int) bool { return bytes.Compare(es[i].key, t) >= 0 })
}

// diffTargets returns seek targets: present keys, keys just after / just before present
// keys, shortened keys, before-first and after-last.
func diffTargets(rng *rand.Rand, es []diffEntry, sample int) [][]byte {
	var ts [][]byte
	idx := make([]int, 0, sample)
	if len(es) <= sample {
		for i := range es {
			idx = append(idx, i)
		}
	} else {
		idx = append(idx, 0, 1, len(es)-2, len(es)-1)
		for len(idx) < sample {
			idx = append(idx, rng.Intn(len(es)))
		}
	}
	for _, i := range idx {
		k := es[i].key
		ts = append(ts, k)
		ts = append(ts, append(append([]byte(nil), k...), 0x00)) // immediate successor
		ts = append(ts, append(append([]byte(nil), k...), 0xff))
		if len(k) > 1 {
			ts = append(ts, k[:len(k)-1]) // a proper prefix sorts before k
			d := append([]byte(nil), k...)
			if d[len(d)-1] > 0 {
				d[len(d)-1]-- // just before k (maybe equal to an earlier key)
				ts = append(ts, d)
			}
		}
	}
	ts = append(ts, []byte{}, []byte{0x00}, []byte("a"), []byte("tenant-0001/"), []byte("tenant-0003"), []byte("zzz"), []byte{0xff, 0xff})
	last := es[len(es)-1].key
	ts = append(ts, append(append([]byte(nil), last...), 0x00))
	return ts
}

func diffCheckTable(t *testing.T, rng *rand.Rand, es []diffEntry, bloom bool, label string) {
	t.Helper()
	path := filepath.Join(t.TempDir(), "diff.sst")
	w, err := NewWriterWithOptions(path, WriterOptions{EnableBloomFilter: bloom, ExpectedEntriesPerBlock: 1000})
	if err != nil {
		t.Fatal(err)
	}
	for _, e := range es {
		if e.val == nil && e.seq == 0 {
			// AddTombstone has no sequence number parameter (writes seq 0)
			if err := w.AddTombstone(e.key); err != nil {
				t.Fatalf("%s: AddTombstone: %v", label, err)
			}
			continue
		}
		// nil through AddWithSequence is the tombstone path used by flushMemTable
		if err := w.AddWithSequence(e.key, e.val, e.seq); err != nil {
			t.Fatalf("%s: AddWithSequence: %v", label, err)
		}
	}
	if err := w.Finish(); err != nil {
		t.Fatalf("%s: Finish: %v", label, err)
	}
	r, err := OpenReader(path)
	if err != nil {
		t.Fatalf("%s: OpenReader: %v", label, err)
	}
	defer r.Close()
	defer os.Remove(path)

	nblocks := 0
	ii := r.indexBlock.Iterator()
	for ii.SeekToFirst(); ii.Valid(); ii.Next() {
		nblocks++
	}
	if r.GetKeyCount() != len(es) {
		t.Errorf("%s: GetKeyCount %d, want %d", label, r.GetKeyCount(), len(es))
	}

	fail := func(format string, args ...interface{}) {
		t.Helper()
		t.Fatalf("%s (%d entries, %d blocks, bloom=%v): %s", label, len(es), nblocks, bloom, fmt.Sprintf(format, args...))
	}

	// 1. forward iteration, SeekToFirst + Next
	it := r.NewIterator()
	i := 0
	for it.SeekToFirst(); it.Valid(); it.Next() {
		if i >= len(es) {
			fail("scan: extra entry %q", it.Key())
		}
		if d := diffSame(it.Key(), it.Value(), it.IsTombstone(), it.SequenceNumber(), es[i]); d != "" {
			fail("scan[%d]: %s", i, d)
		}
		i++
	}
	if i != len(es) {
		fail("scan returned %d entries", i)
	}
	if it.Error() != nil {
		fail("scan error: %v", it.Error())
	}
	if it.Next() || it.Valid() || it.Key() != nil || it.Value() != nil || it.IsTombstone() || it.SequenceNumber() != 0 {
		fail("iterator not cleanly invalid after the end")
	}

	// 2. forward iteration driven by Next only (fresh iterator), through the adapter
	ad := NewIteratorAdapter(r.NewIterator())
	i = 0
	for ad.Next() {
		if i >= len(es) {
			fail("next-only scan: extra entry %q", ad.Key())
		}
		if d := diffSame(ad.Key(), ad.Value(), ad.IsTombstone(), ad.SequenceNumber(), es[i]); d != "" {
			fail("next-only scan[%d]: %s", i, d)
		}
		i++
	}
	if i != len(es) {
		fail("next-only scan returned %d entries", i)
	}

	// 3. Seek
	it = r.NewIterator() // one iterator reused for all seeks: state must not leak between calls
	for n, target := range diffTargets(rng, es, 400) {
		if n%3 == 0 {
			it = r.NewIterator()
		}
		want := lowerBound(es, target)
		ok := it.Seek(target)
		if want == len(es) {
			if ok || it.Valid() {
				fail("Seek(%q): valid on %q, want invalid", target, it.Key())
			}
			if it.Next() || it.Valid() {
				fail("Seek(%q) past end then Next: valid on %q", target, it.Key())
			}
			continue
		}
		if !ok || !it.Valid() {
			fail("Seek(%q): invalid, want %q", target, es[want].key)
		}
		if d := diffSame(it.Key(), it.Value(), it.IsTombstone(), it.SequenceNumber(), es[want]); d != "" {
			fail("Seek(%q): %s", target, d)
		}
		steps := 1 + rng.Intn(40)
		if rng.Intn(20) == 0 {
			steps = 600 // cross at least one block boundary
		}
		for s := 1; s <= steps; s++ {
			more := it.Next()
			if want+s >= len(es) {
				if more || it.Valid() {
					fail("Seek(%q)+%d: valid on %q past the end", target, s, it.Key())
				}
				break
			}
			if !more || !it.Valid() {
				fail("Seek(%q)+%d: invalid, want %q", target, s, es[want+s].key)
			}
			if d := diffSame(it.Key(), it.Value(), it.IsTombstone(), it.SequenceNumber(), es[want+s]); d != "" {
				fail("Seek(%q)+%d: %s", target, s, d)
			}
		}
	}

	// 4. SeekToLast (fresh, and after other positioning)
	for _, pre := range []func(*Iterator){
		func(*Iterator) {},
		func(x *Iterator) { x.SeekToFirst() },
		func(x *Iterator) { x.Seek(es[len(es)/2].key) },
		func(x *Iterator) { x.Seek([]byte{0xff, 0xff}) },
	} {
		it = r.NewIterator()
		pre(it)
		it.SeekToLast()
		if !it.Valid() {
			fail("SeekToLast: invalid")
		}
		if d := diffSame(it.Key(), it.Value(), it.IsTombstone(), it.SequenceNumber(), es[len(es)-1]); d != "" {
			fail("SeekToLast: %s", d)
		}
		if it.Next() || it.Valid() {
			fail("SeekToLast then Next: valid on %q", it.Key())
		}
		it.SeekToFirst()
		if d := diffSame(it.Key(), it.Value(), it.IsTombstone(), it.SequenceNumber(), es[0]); d != "" {
			fail("SeekToFirst after SeekToLast: %s", d)
		}
	}

	// 5. Get: every key, and absent keys
	for _, e := range es {
		v, err := r.Get(e.key)
		if err != nil {
			fail("Get(%q): %v", e.key, err)
		}
		if (v == nil) != (e.val == nil) || !bytes.Equal(v, e.val) {
			fail("Get(%q): value nil=%v len=%d, want nil=%v len=%d", e.key, v == nil, len(v), e.val == nil, len(e.val))
		}
	}
	for _, target := range diffTargets(rng, es, 150) {
		j := lowerBound(es, target)
		if j < len(es) && bytes.Equal(es[j].key, target) {
			continue // present
		}
		if len(target) == 0 {
			continue
		}
		if v, err := r.Get(target); !errors.Is(err, ErrNotFound) {
			fail("Get(absent %q) = len %d, %v; want ErrNotFound", target, len(v), err)
		}
	}
}

func TestDiffTables(t *testing.T) {
	seed := int64(diffEnvInt("DIFF_SEED", 20260923))
	tables := diffEnvInt("DIFF_TABLES", 40)
	rng := rand.New(rand.NewSource(seed))
	sizes := []int{1, 2, 3, 15, 16, 17, 31, 32, 33, 200, 5000}
	for len(sizes) < tables {
		sizes = append(sizes, 1+rng.Intn(5000))
	}
	multi := 0
	for n, size := range sizes {
		valLo, valHi := 100, 600
		if n%7 == 6 {
			valLo, valHi = 0, 8 // small values: one or two big blocks with many restart points
		}
		es := diffGen(rng, size, valLo, valHi)
		bloom := n%2 == 0
		label := fmt.Sprintf("seed %d table %d", seed, n)
		diffCheckTable(t, rng, es, bloom, label)
		if size*(valLo+valHi)/2 > 3*IndexKeyInterval {
			multi++
		}
	}
	t.Logf("checked %d tables (%d with several data blocks)", len(sizes), multi)
	if multi < 5 {
		t.Errorf("only %d multi-block tables", multi)
	}
}

// Block level: Seek / SeekForPrev / SeekToLast / scan of random single blocks against the model.
func TestDiffBlocks(t *testing.T) {
	seed := int64(diffEnvInt("DIFF_SEED", 20260923))
	rng := rand.New(rand.NewSource(seed + 1))
	for round := 0; round < 150; round++ {
		n := 1 + rng.Intn(120)
		if round%10 == 0 {
			n = []int{1, 2, 15, 16, 17, 32, 33, 48, 49, 300}[round/10%10]
		}
		es := diffGen(rng, n, 0, 20)
		b := block.NewBuilder()
		for _, e := range es {
			if err := b.AddWithSequence(e.key, e.val, e.seq); err != nil {
				t.Fatal(err)
			}
		}
		var buf bytes.Buffer
		if _, err := b.Finish(&buf); err != nil {
			t.Fatal(err)
		}
		br, err := block.NewReader(buf.Bytes())
		if err != nil {
			t.Fatal(err)
		}
		fail := func(format string, args ...interface{}) {
			t.Helper()
			t.Fatalf("seed %d round %d (%d entries): %s", seed, round, n, fmt.Sprintf(format, args...))
		}
		it := br.Iterator()
		i := 0
		for it.SeekToFirst(); it.Valid(); it.Next() {
			if i >= n {
				fail("scan: extra entry %q", it.Key())
			}
			if d := diffSame(it.Key(), it.Value(), it.IsTombstone(), it.SequenceNumber(), es[i]); d != "" {
				fail("scan[%d]: %s", i, d)
			}
			i++
		}
		if i != n {
			fail("scan returned %d", i)
		}
		for _, target := range diffTargets(rng, es, 1000) {
			// Seek: first key >= target
			want := lowerBound(es, target)
			ok := it.Seek(target)
			if want == n {
				if ok || it.Valid() || it.Next() {
					fail("Seek(%q): valid on %q, want invalid", target, it.Key())
				}
			} else {
				if !ok {
					fail("Seek(%q) false, want %q", target, es[want].key)
				}
				if d := diffSame(it.Key(), it.Value(), it.IsTombstone(), it.SequenceNumber(), es[want]); d != "" {
					fail("Seek(%q): %s", target, d)
				}
				more := it.Next()
				if want+1 < n {
					if d := diffSame(it.Key(), it.Value(), it.IsTombstone(), it.SequenceNumber(), es[want+1]); !more || d != "" {
						fail("Seek(%q)+1: %v %s", target, more, d)
					}
				} else if more || it.Valid() {
					fail("Seek(%q)+1: valid past end", target)
				}
			}
			// SeekForPrev: last key <= target
			prev := want - 1
			if want < n && bytes.Equal(es[want].key, target) {
				prev = want
			}
			ok = it.SeekForPrev(target)
			if prev < 0 {
				if ok || it.Valid() {
					fail("SeekForPrev(%q): valid on %q, want invalid", target, it.Key())
				}
			} else {
				if !ok {
					fail("SeekForPrev(%q) false, want %q", target, es[prev].key)
				}
				if d := diffSame(it.Key(), it.Value(), it.IsTombstone(), it.SequenceNumber(), es[prev]); d != "" {
					fail("SeekForPrev(%q): %s", target, d)
				}
				more := it.Next()
				if prev+1 < n {
					if d := diffSame(it.Key(), it.Value(), it.IsTombstone(), it.SequenceNumber(), es[prev+1]); !more || d != "" {
						fail("SeekForPrev(%q)+1: %v %s", target, more, d)
					}
				} else if more || it.Valid() {
					fail("SeekForPrev(%q)+1: valid past end", target)
				}
			}
		}
		it.SeekToLast()
		if d := diffSame(it.Key(), it.Value(), it.IsTombstone(), it.SequenceNumber(), es[n-1]); d != "" {
			fail("SeekToLast: %s", d)
		}
		if it.Next() || it.Valid() {
			fail("SeekToLast+1 valid")
		}
	}
}
