// D5 demonstration. Drop this file into pkg/sstable/ (package sstable) and run
//
//	go test -run TestD5 ./pkg/sstable/
//
// Needs the D4 fix (block iterator). Bloom filters are switched off here so that the
// result does not depend on D6 (wrong bloom filter offsets). Not to be committed.
package sstable

import (
	"bytes"
	"errors"
	"fmt"
	"path/filepath"
	"testing"
)

func d5Table(t *testing.T, n int) (*Reader, [][]byte, [][]byte) {
	t.Helper()
	path := filepath.Join(t.TempDir(), "d5.sst")
	w, err := NewWriterWithOptions(path, WriterOptions{EnableBloomFilter: false})
	if err != nil {
		t.Fatal(err)
	}
	var keys, vals [][]byte
	for i := 0; i < n; i++ {
		k := []byte(fmt.Sprintf("user/profile/key%06d", i*2))
		v := bytes.Repeat([]byte(fmt.Sprintf("v%06d-", i*2)), 30) // 240 bytes
		if err := w.AddWithSequence(k, v, uint64(i+1)); err != nil {
			t.Fatal(err)
		}
		keys, vals = append(keys, k), append(vals, v)
	}
	if err := w.Finish(); err != nil {
		t.Fatal(err)
	}
	r, err := OpenReader(path)
	if err != nil {
		t.Fatal(err)
	}
	t.Cleanup(func() { r.Close() })
	nb := 0
	ii := r.indexBlock.Iterator()
	for ii.SeekToFirst(); ii.Valid(); ii.Next() {
		nb++
	}
	t.Logf("%d entries in %d data blocks", n, nb)
	if n >= 1000 && nb < 3 {
		t.Fatalf("expected several blocks, got %d", nb)
	}
	return r, keys, vals
}

func TestD5ForwardScan(t *testing.T) {
	r, keys, _ := d5Table(t, 3000)
	it := r.NewIterator()
	n := 0
	bad := 0
	for it.SeekToFirst(); it.Valid(); it.Next() {
		if n < len(keys) && !bytes.Equal(it.Key(), keys[n]) {
			bad++
		}
		n++
	}
	if n != len(keys) || bad != 0 {
		t.Errorf("forward scan returned %d entries (%d out of place), want %d", n, bad, len(keys))
	}
}

func TestD5Seek(t *testing.T) {
	r, keys, vals := d5Table(t, 3000)
	wrongExact, wrongBetween, wrongNext := 0, 0, 0
	for i, k := range keys {
		it := r.NewIterator()
		if !it.Seek(k) || !it.Valid() || !bytes.Equal(it.Key(), k) || !bytes.Equal(it.Value(), vals[i]) || it.SequenceNumber() != uint64(i+1) {
			wrongExact++
			if wrongExact <= 3 {
				t.Errorf("Seek(%s) landed on %q (valid=%v)", k, it.Key(), it.Valid())
			}
		} else {
			// Next must continue with the following key, also across a block boundary
			more := it.Next()
			if i+1 < len(keys) && (!more || !bytes.Equal(it.Key(), keys[i+1])) {
				wrongNext++
			}
			if i+1 == len(keys) && (more || it.Valid()) {
				wrongNext++
			}
		}
		// target strictly between keys[i-1] and keys[i]
		between := []byte(fmt.Sprintf("user/profile/key%06d", i*2-1))
		if i == 0 {
			between = []byte("a")
		}
		it = r.NewIterator()
		if !it.Seek(between) || !it.Valid() || !bytes.Equal(it.Key(), k) {
			wrongBetween++
			if wrongBetween <= 3 {
				t.Errorf("Seek(%s) landed on %q (valid=%v), want %s", between, it.Key(), it.Valid(), k)
			}
		}
	}
	if wrongExact+wrongBetween+wrongNext > 0 {
		t.Errorf("of %d: %d exact seeks wrong, %d between seeks wrong, %d Next-after-Seek wrong",
			len(keys), wrongExact, wrongBetween, wrongNext)
	}

	// past the last key
	it := r.NewIterator()
	past := append(append([]byte(nil), keys[len(keys)-1]...), 0)
	if it.Seek(past) || it.Valid() {
		t.Errorf("Seek past the last key: valid on %q", it.Key())
	}
	if it.Next() {
		t.Errorf("Next after Seek past the last key returned true (%q)", it.Key())
	}
}

func TestD5Get(t *testing.T) {
	r, keys, vals := d5Table(t, 3000)
	missed := 0
	for i, k := range keys {
		v, err := r.Get(k)
		if err != nil || !bytes.Equal(v, vals[i]) {
			missed++
		}
	}
	if missed > 0 {
		t.Errorf("Reader.Get missed %d of %d keys", missed, len(keys))
	}
	// absent keys: before first, between, after last
	absent := [][]byte{[]byte("a"), []byte("user/profile/key000001"), []byte("user/profile/key002999"), []byte("zzz")}
	for _, k := range absent {
		if v, err := r.Get(k); !errors.Is(err, ErrNotFound) {
			t.Errorf("Get(%s) = %q, %v; want ErrNotFound", k, v, err)
		}
	}
}
