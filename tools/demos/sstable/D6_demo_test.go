// D6 demonstration. Drop this file into pkg/sstable/ (package sstable) and run
//
//	go test -run TestD6 ./pkg/sstable/
//
// TestD6FilterOffsets is white-box and independent of the other defects;
// TestD6GetWithBloomFilters needs the D4 and D5 fixes to reach the right block at all.
// Not to be committed.
package sstable

import (
	"bytes"
	"fmt"
	"path/filepath"
	"testing"
)

func d6Table(t *testing.T, n int) (*Reader, [][]byte) {
	t.Helper()
	path := filepath.Join(t.TempDir(), "d6.sst")
	w, err := NewWriter(path) // default options: bloom filters enabled
	if err != nil {
		t.Fatal(err)
	}
	var keys [][]byte
	for i := 0; i < n; i++ {
		k := []byte(fmt.Sprintf("user/profile/key%06d", i))
		v := bytes.Repeat([]byte("x"), 240)
		if err := w.AddWithSequence(k, v, uint64(i+1)); err != nil {
			t.Fatal(err)
		}
		keys = append(keys, k)
	}
	if err := w.Finish(); err != nil {
		t.Fatal(err)
	}
	r, err := OpenReader(path)
	if err != nil {
		t.Fatal(err)
	}
	t.Cleanup(func() { r.Close() })
	return r, keys
}

// Every data block must have exactly one bloom filter registered under the block's own
// offset, and that filter must contain every key of that block.
func TestD6FilterOffsets(t *testing.T) {
	r, _ := d6Table(t, 3000)
	if !r.hasBloomFilter {
		t.Fatal("table has no bloom filters")
	}
	ii := r.indexBlock.Iterator()
	nblocks, bad := 0, 0
	for ii.SeekToFirst(); ii.Valid(); ii.Next() {
		loc, err := ParseBlockLocator(ii.Key(), ii.Value())
		if err != nil {
			t.Fatal(err)
		}
		nblocks++
		var matches []int
		for i, bf := range r.bloomFilters {
			if bf.blockOffset == loc.Offset {
				matches = append(matches, i)
			}
		}
		if len(matches) != 1 {
			t.Errorf("block %d at offset %d: %d filters registered under this offset, want 1", nblocks-1, loc.Offset, len(matches))
			bad++
			continue
		}
		br, err := r.blockFetcher.FetchBlock(loc.Offset, loc.Size)
		if err != nil {
			t.Fatal(err)
		}
		missing, total := 0, 0
		bi := br.Iterator()
		seen := map[string]bool{}
		for bi.SeekToFirst(); bi.Valid(); bi.Next() {
			if seen[string(bi.Key())] {
				continue
			}
			seen[string(bi.Key())] = true
			total++
			if !r.bloomFilters[matches[0]].filter.Contains(bi.Key()) {
				missing++
			}
		}
		if missing > 0 {
			t.Errorf("block %d at offset %d: its filter lacks %d of its %d keys", nblocks-1, loc.Offset, missing, total)
			bad++
		}
	}
	t.Logf("%d blocks, %d filters", nblocks, len(r.bloomFilters))
	if len(r.bloomFilters) != nblocks {
		t.Errorf("%d filters for %d blocks", len(r.bloomFilters), nblocks)
	}
	if bad > 0 {
		t.Errorf("%d of %d blocks have a missing or wrong bloom filter", bad, nblocks)
	}
}

func TestD6GetWithBloomFilters(t *testing.T) {
	r, keys := d6Table(t, 3000)
	missed := 0
	for _, k := range keys {
		if v, err := r.Get(k); err != nil || len(v) != 240 {
			missed++
		}
	}
	if missed > 0 {
		t.Errorf("Reader.Get (bloom filters on) missed %d of %d keys", missed, len(keys))
	}
}
