// D3 (sstable half) demonstration. Drop this file into pkg/sstable/ (package sstable) and run
//
//	go test -run TestD3 ./pkg/sstable/
//
// An empty value ([]byte{}) is a value, not a deletion; only nil / AddTombstone is a deletion.
// Not to be committed.
package sstable

import (
	"bytes"
	"path/filepath"
	"testing"

	"github.com/KevoDB/kevo/pkg/sstable/block"
)

func TestD3BlockBuilderEmptyValue(t *testing.T) {
	b := block.NewBuilder()
	if err := b.AddWithSequence([]byte("a-empty"), []byte{}, 1); err != nil {
		t.Fatal(err)
	}
	if err := b.AddWithSequence([]byte("b-tomb"), nil, 2); err != nil {
		t.Fatal(err)
	}
	if err := b.AddWithSequence([]byte("c-value"), []byte("v"), 3); err != nil {
		t.Fatal(err)
	}
	if es := b.GetEntries(); es[0].Value == nil || es[1].Value != nil {
		t.Errorf("builder entries: empty value nil=%v (want false), tombstone nil=%v (want true)", es[0].Value == nil, es[1].Value == nil)
	}
	var buf bytes.Buffer
	if _, err := b.Finish(&buf); err != nil {
		t.Fatal(err)
	}
	r, err := block.NewReader(buf.Bytes())
	if err != nil {
		t.Fatal(err)
	}
	it := r.Iterator()
	it.SeekToFirst()
	if string(it.Key()) != "a-empty" || it.IsTombstone() || it.Value() == nil || len(it.Value()) != 0 {
		t.Errorf("empty value read back as key=%s tombstone=%v value=%#v", it.Key(), it.IsTombstone(), it.Value())
	}
	it.Next()
	if string(it.Key()) != "b-tomb" || !it.IsTombstone() || it.Value() != nil {
		t.Errorf("tombstone read back as key=%s tombstone=%v value=%#v", it.Key(), it.IsTombstone(), it.Value())
	}
	it.Next()
	if string(it.Key()) != "c-value" || it.IsTombstone() || string(it.Value()) != "v" {
		t.Errorf("value read back as key=%s tombstone=%v value=%#v", it.Key(), it.IsTombstone(), it.Value())
	}
}

func TestD3TableEmptyValue(t *testing.T) {
	path := filepath.Join(t.TempDir(), "d3.sst")
	w, err := NewWriter(path)
	if err != nil {
		t.Fatal(err)
	}
	must := func(err error) {
		t.Helper()
		if err != nil {
			t.Fatal(err)
		}
	}
	must(w.Add([]byte("k1-empty-add"), []byte{}))
	must(w.AddWithSequence([]byte("k2-empty-seq"), []byte{}, 7))
	must(w.AddWithSequence([]byte("k3-nil-seq"), nil, 8)) // nil = tombstone (flushMemTable contract)
	must(w.AddTombstone([]byte("k4-tombstone")))
	must(w.Add([]byte("k5-value"), []byte("v")))
	must(w.Finish())

	r, err := OpenReader(path)
	must(err)
	defer r.Close()

	type want struct {
		key  string
		tomb bool
		val  []byte
		seq  uint64
	}
	wants := []want{
		{"k1-empty-add", false, []byte{}, 0},
		{"k2-empty-seq", false, []byte{}, 7},
		{"k3-nil-seq", true, nil, 8},
		{"k4-tombstone", true, nil, 0},
		{"k5-value", false, []byte("v"), 0},
	}
	it := r.NewIterator()
	i := 0
	for it.SeekToFirst(); it.Valid(); it.Next() {
		if i >= len(wants) {
			t.Fatalf("too many entries")
		}
		w := wants[i]
		if string(it.Key()) != w.key || it.IsTombstone() != w.tomb || (it.Value() == nil) != (w.val == nil) ||
			!bytes.Equal(it.Value(), w.val) || it.SequenceNumber() != w.seq {
			t.Errorf("scan[%d]: key=%s tombstone=%v value=%#v seq=%d; want key=%s tombstone=%v value=%#v seq=%d",
				i, it.Key(), it.IsTombstone(), it.Value(), it.SequenceNumber(), w.key, w.tomb, w.val, w.seq)
		}
		i++
	}
	if i != len(wants) {
		t.Errorf("scan returned %d entries, want %d", i, len(wants))
	}
	for _, w := range wants {
		v, err := r.Get([]byte(w.key))
		if err != nil {
			t.Errorf("Get(%s): %v", w.key, err)
			continue
		}
		if (v == nil) != (w.val == nil) || !bytes.Equal(v, w.val) {
			t.Errorf("Get(%s) = %#v, want %#v", w.key, v, w.val)
		}
		sit := r.NewIterator()
		if !sit.Seek([]byte(w.key)) || sit.IsTombstone() != w.tomb {
			t.Errorf("Seek(%s): tombstone=%v, want %v", w.key, sit.IsTombstone(), w.tomb)
		}
	}
}
