#!/bin/sh
# run_stable.sh [repo-dir] [pkg-substring...] — run the pinned stable tests (BASELINE.json) of the
# given packages (default: all) with the verif tag OFF; replication is run with -run naming only
# the stable tests (the package's other tests hang on the pinned tree).
REPO=${1:-/repo}; shift
unset GOTOOLCHAIN GOSUMDB
export GOFLAGS=-mod=mod GOPROXY=off
python3 - "$REPO" "$@" <<'PY'
import json,subprocess,sys,re
repo=sys.argv[1]; filt=sys.argv[2:]
d=json.load(open('/verif/tools/stable_tests.json'))
bad=0
for pkg,tests in sorted(d.items()):
    if filt and not any(f in pkg for f in filt): continue
    rel='./'+pkg.split('github.com/KevoDB/kevo/')[1]
    tops=sorted({t.split('/')[0] for t in tests})
    pat='^('+'|'.join(tops)+')$'
    p=subprocess.run(['go','test','-vet=off','-count=1','-timeout','20m','-json','-run',pat,rel],cwd=repo,capture_output=True,text=True)
    res={}
    for l in p.stdout.splitlines():
        try: e=json.loads(l)
        except Exception: continue
        if e.get('Test') and e.get('Action') in('pass','fail','skip'):
            res[e['Test']]=e['Action']
    fails=[t for t in tests if res.get(t)!='pass']
    print(('FAIL' if fails else 'ok  '),pkg,len(tests)-len(fails),'/',len(tests),fails[:8])
    if fails: bad=1
sys.exit(bad)
PY
