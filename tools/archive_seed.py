#!/usr/bin/env python3
"""archive_seed.py <id> <pinned-tests text> <check_result text> : copy a confirmed seeded change
from /tmp/seed-out/<id> into seeded/<id> and record what was confirmed here."""
import json, os, shutil, sys
sid, pinned, result = sys.argv[1], sys.argv[2], sys.argv[3]
src = f"/tmp/seed-out/{sid}"
dst = os.path.join(os.path.dirname(os.path.dirname(os.path.abspath(__file__))), "seeded", sid)
os.makedirs(dst, exist_ok=True)
for f in os.listdir(src):
    if os.path.isfile(os.path.join(src, f)):
        shutil.copy(os.path.join(src, f), os.path.join(dst, f))
m = json.load(open(os.path.join(dst, "meta.json")))
m["confirmed_by_me"] = {
    "applies_to": "/repo HEAD at the time (scratch worktree)",
    "builds": True,
    "pinned_tests": pinned,
    "demo": "tools/confirm_seed.sh: passes on the unchanged tree, fails with patch.diff applied",
    "check_result": result,
}
json.dump(m, open(os.path.join(dst, "meta.json"), "w"), indent=1)
print("archived", dst)
