#!/usr/bin/env python3
"""After `git merge <branch>` left conflicts in the shared files, resolve them:
_CoqProject / main.ml by union, known_findings.json by JSON union, lib/props.py -> fragment in
lib/props.d, Extract.v by concatenating Require lines and root lines."""
import json, pprint, re, subprocess, sys, os
R = os.path.dirname(os.path.dirname(os.path.abspath(__file__)))
def show(stage, path):
    return subprocess.run(["git", "show", ":%d:%s" % (stage, path)], capture_output=True, text=True, cwd=R).stdout
confl = subprocess.run(["git", "diff", "--name-only", "--diff-filter=U"], capture_output=True, text=True, cwd=R).stdout.split()
for p in confl:
    full = os.path.join(R, p)
    if p == "lib/props.py":
        g = {}
        exec(show(3, p), g)
        for k, v in g.get("PROPS", {}).items():
            frag = os.path.join(R, "lib", "props.d", k + ".py")
            if not os.path.exists(frag):
                with open(frag, "w") as f:
                    f.write('"""Configuration of the %s check (see DESIGN.md section 6)."""\nPROP = ' % k)
                    f.write(pprint.pformat(v, width=110, sort_dicts=False)); f.write("\n")
        open(full, "w").write(show(2, p))
    elif p == "tools/claims.json":
        a = json.loads(show(2, p)); b = json.loads(show(3, p))
        for k, v in b.items():
            a.setdefault(k, v)
        json.dump(a, open(full, "w"), indent=1)
    elif p == "known_findings.json":
        subprocess.run([os.path.join(R, "tools", "merge_shared.py"), p], cwd=R)
    elif p == "coq/Extract.v":
        s = open(full).read()
        def res(m):
            ours, theirs = m.group(1), m.group(2)
            if "Require" in ours or "Require" in theirs:
                have = set(l.strip() for l in ours.splitlines())
                return ours + "".join(l + "\n" for l in theirs.splitlines() if l.strip() not in have)
            o = [l for l in ours.splitlines() if l.strip() != "."]
            have = set(l.strip() for l in o)
            t = theirs.rstrip()
            if t.endswith("."): t = t[:-1]
            tl = [l for l in t.splitlines() if l.strip() and l.strip() not in have and l.strip() != "."]
            return "\n".join(o + tl) + "\n.\n"
        s = re.sub(r"<<<<<<< [^\n]*\n(.*?)=======\n(.*?)>>>>>>> [^\n]*\n", res, s, flags=re.S)
        open(full, "w").write(s)
    elif p.startswith("evidence/"):
        subprocess.run(["git", "checkout", "--theirs", p], cwd=R)
    else:
        subprocess.run([os.path.join(R, "tools", "merge_shared.py"), p], cwd=R)
    print("resolved", p)
subprocess.run([os.path.join(R, "tools", "normalize_extract.py")], cwd=R)
