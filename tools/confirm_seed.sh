#!/bin/sh
# confirm_seed.sh <seed-dir> <pkg-dir-for-demo> <go test -run pattern> [extra go test flags]
# Confirms a seeded change: demo PASSES on /repo HEAD and FAILS with patch.diff applied.
D=$1; PKG=$2; RUN=$3; shift 3
unset GOTOOLCHAIN GOSUMDB; export GOFLAGS=-mod=mod GOPROXY=off
W=/tmp/confirm-$$
git -C /repo worktree add -q $W HEAD || exit 2
cp $D/*_test.go $W/$PKG/
echo "--- unchanged tree:"; (cd $W && go test -vet=off -count=1 "$@" -run "$RUN" ./$PKG/ 2>&1 | tail -4)
git -C $W apply $D/patch.diff || { echo "PATCH DOES NOT APPLY"; git -C /repo worktree remove --force $W; exit 2; }
echo "--- changed tree:"; (cd $W && go test -vet=off -count=1 "$@" -run "$RUN" ./$PKG/ 2>&1 | grep -E "^(--- FAIL|FAIL|ok|---)|violated|LOST|got 0|FAIL-" | head -8)
git -C /repo worktree remove --force $W
