(* C11: drive the SSTable models (SSTable.v logical, Block.v/SSTFile.v bytes) with the
   harness's case file. Line formats: see harness/c11.go. *)
open Kutil
open Engine
open SSTable

let kv_of hdr key dflt =
  let pre = key ^ "=" in
  let n = Stdlib.String.length pre in
  match Stdlib.List.find_opt (fun t -> Stdlib.String.length t > n && Stdlib.String.sub t 0 n = pre) hdr with
  | Some t -> Stdlib.String.sub t n (Stdlib.String.length t - n)
  | None -> dflt

let render = Drv_c11b.render
let entry_str = Drv_c11b.entry_str

let cur_str tb it = match ti_cur tb it with Some e -> entry_str e | None -> "-"

let b01 b = if b then 1 else 0

let run (id : string) (hdr : string list) (lines : string list list) (out : string -> unit) =
  let pr s = out (id ^ " " ^ s) in
  let bloom = kv_of hdr "bloom" "1" = "1" in
  let es = Stdlib.List.filter_map (fun l -> match l with
      | ["e"; k; s; v] -> Some { sk = bytes_of_token k; sseq = n_of_string s;
                                 sval = (if v = "~" then None else Some (bytes_of_token v)) }
      | _ -> None) lines in
  let ops = Stdlib.List.filter (fun l -> match l with "e" :: _ -> false | _ -> true) lines in
  let guard = kv_of hdr "guard" "ok" in
  let prist = if es = [] then None else Drv_c11b.pristine id bloom es in
  let written = prist <> None in
  if es <> [] then pr (if written then "W ok" else "W err unshared");
  (* inside the guards: the logical table of SSTable.v (any filter without false negatives gives
     the same observable Get, theorem C11_get); outside: the view of the encoded bytes *)
  let opened =
    if not written then None
    else if guard = "ok" then Some (write (fun _ _ -> true) bloom es)
    else match prist with
      | Some p -> (match SSTFile.read_file p.Drv_c11b.bytes with
          | Datatypes.Coq_inl t -> Some t
          | Datatypes.Coq_inr e ->
            let s = Drv_c11b.oerr_str e in
            pr ("O err " ^ Stdlib.String.sub s 4 (Stdlib.String.length s - 4)); None)
      | None -> None in
  let have = opened <> None in
  let tb = match opened with Some t -> t | None -> write (fun _ _ -> true) bloom es in
  let probes = Drv_c11b.probes_of lines in
  let adapter = ref false in
  let err_str (i : titer) = if !adapter then "-" else string_of_int (b01 i.ti_err) in
  let it = ref None in
  let get_it () = match !it with Some i -> i | None -> let i = ti_new tb in it := Some i; i in
  let scan use_first =
    let i0 = ti_new tb in
    let i = ref (if use_first then ti_seek_first tb else fst (ti_next tb i0)) in
    let n = ref 0 in
    let limit = Stdlib.List.length es + 8 in
    while ti_valid tb !i && !n <= limit do
      pr ("E " ^ cur_str tb !i);
      incr n;
      i := fst (ti_next tb !i)
    done;
    it := Some !i;
    pr (Printf.sprintf "Z %d err=%s" !n (err_str !i)) in
  let rec go ls =
    match ls with
    | [] -> ()
    | ["xxh"; t] :: r -> pr ("X " ^ Drv_c11b.xxh t); go r
    | ("footer" :: args) :: r -> pr ("F " ^ Drv_c11b.footer args); go r
    | (op :: _) :: r when not have -> pr ("SKIP " ^ op); go r
    | ["adapter"; a] :: r -> adapter := (a = "1"); go r
    | ["probe"; _] :: r -> go r
    | ["it"] :: r -> it := Some (ti_new tb); go r
    | ["scan"] :: r -> scan true; go r
    | ["nscan"] :: r -> scan false; go r
    | ["first"] :: r ->
      let i = ti_seek_first tb in it := Some i;
      pr (Printf.sprintf "P first ret=- valid=%d err=%s %s" (b01 (ti_valid tb i)) (err_str i) (cur_str tb i)); go r
    | ["last"] :: r ->
      let i = ti_seek_last tb in it := Some i;
      pr (Printf.sprintf "P last ret=- valid=%d err=%s %s" (b01 (ti_valid tb i)) (err_str i) (cur_str tb i)); go r
    | ["next"] :: r ->
      let (i, ok) = ti_next tb (get_it ()) in it := Some i;
      pr (Printf.sprintf "P next ret=%d valid=%d err=%s %s" (b01 ok) (b01 (ti_valid tb i)) (err_str i) (cur_str tb i)); go r
    | ["seek"; t] :: r ->
      let (i, ok) = ti_seek tb (bytes_of_token t) in it := Some i;
      pr (Printf.sprintf "P seek ret=%d valid=%d err=%s %s" (b01 ok) (b01 (ti_valid tb i)) (err_str i) (cur_str tb i)); go r
    | ["get"; k] :: r ->
      (match t_get tb (bytes_of_token k) with
       | GNotFound -> pr "G notfound"
       | GTomb -> pr "G tomb"
       | GErr -> pr "G err"
       | GVal v -> pr ("G v:" ^ render v));
      go r
    | ["layout"] :: r -> Drv_c11b.layout id pr bloom es; go r
    | (("bit" | "bfirst" | "blast" | "bnext" | "bseek" | "bprev") :: _ as l) :: r ->
      Drv_c11b.block_op id pr bloom es l; go r
    | ("corrupt" :: args) :: r -> Drv_c11b.corrupt id pr bloom es probes args; go r
    | l :: _ -> failwith ("C11: bad line: " ^ Stdlib.String.concat " " l)
  in
  go ops
