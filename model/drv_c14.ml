(* C14: drive the ReplProto model (primary + one replica) with the harness's scenario *)
open Kutil
open ReplProto

let op_put = WalCodec.coq_OpPut
let op_del = WalCodec.coq_OpDel

let rec take_ops n lines acc =
  if n = 0 then (Stdlib.List.rev acc, lines) else
    match lines with
    | ["p"; k; v] :: t -> take_ops (n - 1) t ((bytes_of_token k, Some (bytes_of_token v)) :: acc)
    | ["d"; k] :: t -> take_ops (n - 1) t ((bytes_of_token k, None) :: acc)
    | _ -> failwith "short batch"

let triple (k, v) = match v with
  | Some x -> ((op_put, k), x)
  | None -> ((op_del, k), [])

let key_n pfx j = bytes_of_string (raw_of_token pfx ^ Printf.sprintf "%04d" j)

let run (id : string) (hdr : string list) (lines : string list list) (out : string -> unit) =
  let pr x = out (id ^ " " ^ x) in
  let s = ref sys_init in
  let ev e = s := step !s e in
  let joined = ref false in
  let rec go ls =
    match ls with
    | [] -> ()
    | ["put"; k; v] :: r -> ev (EWrite (WSingle (op_put, bytes_of_token k, bytes_of_token v))); go r
    | ["del"; k] :: r -> ev (EWrite (WSingle (op_del, bytes_of_token k, []))); go r
    | ["many"; n; pfx; vlen] :: r ->
      for j = 0 to int_of_string n - 1 do
        ev (EWrite (WSingle (op_put, key_n pfx j, bytes_of_string (lcg_bytes (int_of_string vlen) (j + 1)))))
      done; go r
    | ["bigtx"; n; pfx] :: r ->
      let ops = Stdlib.List.init (int_of_string n) (fun j -> ((op_put, key_n pfx j), [n_of_int 1])) in
      ev (EWrite (WMulti ops)); go r
    | ["tx"; n] :: r ->
      let (ops, rest) = take_ops (int_of_string n) r [] in
      ev (EWrite (WMulti (Stdlib.List.map triple (Engine.buffer_ops ops)))); go rest
    | ["batch"; n] :: r ->
      let (ops, rest) = take_ops (int_of_string n) r [] in
      ev (EWrite (WMulti (Stdlib.List.map triple ops))); go rest
    | ["idle"; _] :: r -> go r
    | ["flush"] :: r -> ev EFlush; go r
    | ["join"] :: r -> joined := true; ev EStart; ev (ETick good); go r
    | ["stop"] :: r -> ev EStop; go r
    | (["start"] | ["reopen"]) :: r -> ev EStop; ev EStart; ev (ETick good); go r
    | ["cut"] :: r -> ev ECut; go r
    | ["heal"] :: r -> ev EHeal; go r
    | ["settle"] :: r ->
      if !joined then begin
        let (p, rp) = !s in
        let n = 4 * (Stdlib.List.length p.p_log) + 64 in
        let rp' = settle (nat_of_int n) p rp in
        s := (p, rp');
        pr (Printf.sprintf "S conv=%d applied=%s" (if views_agree p rp' then 1 else 0)
              (n_to_string (BinNat.N.sub rp'.r_exp (n_of_int 1))));
        Stdlib.List.iter (fun (k, v) -> pr ("r " ^ render k ^ " " ^ render v)) (scan_of rp'.r_store)
      end; go r
    | l :: _ -> failwith ("C14: bad line: " ^ Stdlib.String.concat " " l) in
  go lines
