(* C06: judge the history the harness recorded from the real engine with the extracted,
   proved-sound linearizability checker (Hist.lin_check). Input lines (harness output of
   one case, id stripped):
     H <tid> put <key> <val> ok|fail|pending <call> <ret>
     H <tid> del <key> -     ok|fail|pending <call> <ret>
     H <tid> get <key> -     v:<val>|notfound|fail|pending <call> <ret>
   Output: ACCEPT keys=<n> ops=<m>   or   REJECT <key> nolin|fuel   (one line per bad key). *)
open Kutil
open Hist

let fuel () =
  try int_of_string (Sys.getenv "VERIF_LIN_FUEL") with _ -> 300000

let parse_line (l : string list) : orec option =
  match l with
  | ["H"; tid; kind; key; arg; res; call; ret] ->
    let k = match kind with
      | "put" -> KPut (bytes_of_token arg)
      | "del" -> KDel
      | "get" -> KGet
      | _ -> failwith ("bad kind " ^ kind) in
    let r =
      if res = "ok" then ROk else if res = "fail" then RFail else if res = "pending" then RPending
      else if res = "notfound" then RNotFound
      else if Stdlib.String.length res >= 2 && Stdlib.String.sub res 0 2 = "v:" then
        RVal (bytes_of_token (Stdlib.String.sub res 2 (Stdlib.String.length res - 2)))
      else failwith ("bad result " ^ res) in
    Some { o_tid = n_of_string tid; o_key = bytes_of_token key; o_kind = k; o_res = r;
           o_call = n_of_string call; o_ret = n_of_string ret }
  | _ -> None

let run id _hdr lines out =
  let h = Stdlib.List.filter_map parse_line lines in
  if h = [] then out (id ^ " REJECT - nohistory")
  else begin
    let vs = lin_verdicts (n_of_int (fuel ())) h in
    let bad = Stdlib.List.filter (fun (_, v) -> v <> VAccept) vs in
    if bad = [] then
      out (Printf.sprintf "%s ACCEPT keys=%d ops=%d" id (Stdlib.List.length vs) (Stdlib.List.length h))
    else
      Stdlib.List.iter (fun (k, v) ->
          out (Printf.sprintf "%s REJECT %s %s" id (render k)
                 (match v with VFuel -> "fuel" | _ -> "nolin"))) bad
  end
