(* C16: drive the ReadOnly model (node = Engine state + read-only flag + replication
   configuration + open transactions) with the harness's program; see harness/c16.go for the
   case format. *)
open BinNums
open Kutil
open Engine
open ReadOnly

let kv_of = Drv_c01.kv_of
let parse_bops = Drv_c01.parse_bops

let api_rows = lazy (Stdlib.List.map (fun (r : ApiView.arow) -> (string_of_bytes r.ApiView.r_name, r)) ApiView.api_view)

let find_row facade name =
  Stdlib.List.find_opt (fun (n, (r : ApiView.arow)) -> n = name && r.ApiView.r_facade = facade) (Lazy.force api_rows)

let res_str (r : res) = match r with
  | ROk -> "ok" | RRoErr -> "roerr" | RRoTx -> "rotx" | RClosed -> "closed" | RNotFound -> "notfound"
  | RBlocked -> "blocked" | RBadType -> "badtype" | ROverflow -> "overflow" | RUnknown -> "unknown"

let role_str = function RStandalone -> "standalone" | RPrimary -> "primary" | RReplica -> "replica"

let b01 b = if b then "1" else "0"

(* every key that occurs in the case, sorted with the model's own byte order *)
let universe (lines : string list list) : coq_N list list =
  let keys = ref [] in
  let add t = let k = bytes_of_token t in if not (Stdlib.List.mem k !keys) then keys := k :: !keys in
  Stdlib.List.iter (fun l -> match l with
      | ["e"; _; k; _] | ["e"; _; k] | ["g"; _; k; _] | ["g"; _; k] -> (try add k with _ -> ())
      | ["t"; _; _; k; _] | ["t"; _; _; k] -> (try add k with _ -> ())
      | ["r"; _; k; _] | ["r"; _; k] -> (try add k with _ -> ())
      | ["p"; k; _] | ["d"; k] -> add k
      | _ -> ()) lines;
  Stdlib.List.sort (fun a b -> match Bytes.bcmp a b with Datatypes.Lt -> -1 | Datatypes.Eq -> 0 | Datatypes.Gt -> 1) !keys

let table_lines pr =
  Stdlib.List.iter (fun (name, (r : ApiView.arow)) ->
      if Stdlib.String.contains name '.' then ()   (* methods of wrapper types: not reachable by name *)
      else if r.ApiView.r_facade then
        pr (Printf.sprintf "E facade %s mut=%s cap=%s" name (b01 r.ApiView.r_mutates) (b01 r.ApiView.r_leaks))
      else if r.ApiView.r_iface then
        pr (Printf.sprintf "E rpc %s mut=%s" name (b01 r.ApiView.r_mutates)))
    (Lazy.force api_rows)

let flag_mgr hdr = kv_of hdr "mgr" "1" = "1" && kv_of hdr "enabled" "1" = "1"

let run (id : string) (hdr : string list) (lines : string list list) (out : string -> unit) =
  let pr x = out (id ^ " " ^ x) in
  if kv_of hdr "kind" "prog" = "table" then table_lines pr
  else if kv_of hdr "kind" "prog" = "race" then pr "X race"
  else if kv_of hdr "kind" "prog" = "infolat" then pr "X infolat"
  else if flag_mgr hdr && not (Stdlib.List.mem (kv_of hdr "mode" "replica") ["replica"; "primary"; "standalone"]) then
    pr "X refused"   (* Manager.Start knows exactly these three spellings *)
  else begin
    let mode = match kv_of hdr "mode" "replica" with
      | "primary" -> RPrimary | "standalone" -> RStandalone | _ -> RReplica in
    let flag k d = kv_of hdr k d = "1" in
    let c = { has_mgr = flag "mgr" "1"; enabled = flag "enabled" "1"; mode = mode;
              primary_addr = bytes_of_token (kv_of hdr "paddr" "-");
              listen_addr = bytes_of_token (kv_of hdr "laddr" "-"); force_ro = flag "force" "1" } in
    let n = ref (start c (init { c_memsize = n_of_int 100000000; c_maxmem = n_of_int 1000 })) in
    let univ = universe lines in
    let cl (c : cop) = let (n', r) = step_client !n c in n := n'; r in
    let scan_lines () =
      let l = node_scan !n univ in
      pr (Printf.sprintf "S n=%d" (Stdlib.List.length l));
      Stdlib.List.iter (fun (k, v) -> pr ("s " ^ render k ^ " " ^ render v)) l in
    let render_opt v = match v with None -> "notfound" | Some b -> "v:" ^ render b in
    let handle h = nat_of_int (int_of_string h) in
    let nhandles () = Stdlib.List.length !n.txs in
    let reads_blocked () = rw_open !n in
    let generic kind name =
      match find_row kind name with
      | Some (_, r) -> pr ("R " ^ res_str (cl (CGeneric (r.ApiView.r_mutates, r.ApiView.r_guarded))))
      | None -> pr "R norow" in
    let rec go ls =
      match ls with
      | [] -> ()
      (* embedded API *)
      | ["e"; "Put"; k; v] :: r -> pr ("R " ^ res_str (cl (CPut (bytes_of_token k, bytes_of_token v)))); go r
      | ["e"; "Delete"; k] :: r -> pr ("R " ^ res_str (cl (CDel (bytes_of_token k)))); go r
      | ["e"; "ApplyBatch"; cnt] :: r ->
        let (ops, rest) = parse_bops (int_of_string cnt) r in
        pr ("R " ^ res_str (cl (CBatch ops))); go rest
      | ["e"; "BeginTransaction"; m] :: r ->
        let h = nhandles () in
        let res = cl (CBegin (m = "ro")) in
        (match res with
         | ROk -> let t = Stdlib.List.nth !n.txs h in
           pr (Printf.sprintf "B h=%d ok ro=%s" h (b01 (t.tx_mode = TxRO)))
         | _ -> pr ("B " ^ res_str res));
        go r
      | ["e"; "Get"; k] :: r -> pr ("G " ^ render_opt (node_get !n (bytes_of_token k))); go r
      | ("e" :: name :: _) :: r -> generic true name; go r
      (* accessor outside the guard *)
      | ("l" :: "begin" :: m :: _) :: r ->
        let h = nhandles () in
        let res = cl (CLeakBegin (m = "ro")) in
        (match res with
         | ROk -> let t = Stdlib.List.nth !n.txs h in
           pr (Printf.sprintf "B h=%d ok ro=%s" h (b01 (t.tx_mode = TxRO)))
         | _ -> pr ("B " ^ res_str res));
        go r
      (* gRPC *)
      | ["g"; "Put"; k; v] :: r -> pr ("R " ^ res_str (cl (SPut (bytes_of_token k, bytes_of_token v)))); go r
      | ["g"; "Delete"; k] :: r -> pr ("R " ^ res_str (cl (SDel (bytes_of_token k)))); go r
      | ["g"; "BatchWrite"; cnt] :: r ->
        let (ops, rest) = parse_bops (int_of_string cnt) r in
        pr ("R " ^ res_str (cl (SBatch ops))); go rest
      | ["g"; "BeginTransaction"; m] :: r ->
        let h = nhandles () in
        let res = cl (SBegin (m = "ro")) in
        (match res with ROk -> pr (Printf.sprintf "B h=%d ok" h) | _ -> pr ("B " ^ res_str res));
        go r
      | ["g"; "Compact"; f] :: r -> pr ("R " ^ res_str (cl (SCompact (f = "force")))); go r
      | ["g"; "Get"; k] :: r -> pr ("G " ^ render_opt (node_get !n (bytes_of_token k))); go r
      | ["g"; "Scan"] :: r -> if reads_blocked () then pr "R blocked" else scan_lines (); go r
      | ["g"; "GetStats"] :: r ->
        if reads_blocked () then pr "R blocked"
        else pr (Printf.sprintf "K keys=%d" (Stdlib.List.length (node_scan !n univ)));
        go r
      | ["g"; "GetNodeInfo"] :: r ->
        let i = node_info !n in
        pr (Printf.sprintf "I role=%s paddr=%s ro=%s" (role_str i.i_role) (render i.i_paddr) (b01 i.i_ro)); go r
      | ("g" :: name :: _) :: r -> generic false name; go r
      (* transaction handles *)
      | ["t"; h; "put"; k; v] :: r -> pr ("R " ^ res_str (cl (CTxPut (handle h, bytes_of_token k, bytes_of_token v)))); go r
      | ["t"; h; "del"; k] :: r -> pr ("R " ^ res_str (cl (CTxDel (handle h, bytes_of_token k)))); go r
      | ["t"; h; "commit"] :: r -> pr ("R " ^ res_str (cl (CTxCommit (handle h)))); go r
      | ["t"; h; "rollback"] :: r -> pr ("R " ^ res_str (cl (CTxRollback (handle h)))); go r
      | ["t"; h; "get"; k] :: r ->
        (match tx_get !n (handle h) (bytes_of_token k) with
         | (ROk, v) -> pr ("G " ^ render_opt v)
         | (e, _) -> pr ("R " ^ res_str e));
        go r
      (* replication apply *)
      | ["r"; "put"; k; v] :: r -> let (n', x) = step_repl !n (RPutE (bytes_of_token k, bytes_of_token v)) in n := n'; pr ("A " ^ res_str x); go r
      | ["r"; "del"; k] :: r -> let (n', x) = step_repl !n (RDelE (bytes_of_token k)) in n := n'; pr ("A " ^ res_str x); go r
      | ["r"; "merge"; k; v] :: r -> let (n', x) = step_repl !n (RMergeE (bytes_of_token k, bytes_of_token v)) in n := n'; pr ("A " ^ res_str x); go r
      | ["r"; "bad"; _; _] :: r -> let (n', x) = step_repl !n RBadE in n := n'; pr ("A " ^ res_str x); go r
      | ["r"; "sync"] :: r -> let (n', x) = step_repl !n RSync in n := n'; pr ("A " ^ res_str x); go r
      | ["stopmgr"] :: r -> pr "M stopped"; go r   (* the role and the read-only mode stay what they were *)
      | ["dump"] :: r -> pr ("D ro=" ^ b01 !n.ro); scan_lines (); go r
      | l :: _ -> failwith ("C16: bad line: " ^ Stdlib.String.concat " " l) in
    go lines
  end
