(* C19: drive the Service model (coq/Service.v) with the harness's request program *)
open Kutil
open Engine
open Service

let kv_of = Drv_c01.kv_of

(* ---- large values: one shared cell per byte value, rendering from the raw string ---- *)
let byte_tab = Array.init 256 n_of_int
let big_registry : (BinNums.coq_N list * string) list ref = ref []

let crc_table =
  Array.init 256 (fun i ->
      let c = ref i in
      for _ = 0 to 7 do
        if !c land 1 = 1 then c := (!c lsr 1) lxor 0xEDB88320 else c := !c lsr 1
      done;
      !c)

let crc32_string (s : string) : int =
  let c = ref 0xFFFFFFFF in
  Stdlib.String.iter (fun ch -> c := crc_table.((!c lxor Char.code ch) land 0xff) lxor (!c lsr 8)) s;
  !c lxor 0xFFFFFFFF

let big_tokens : (string, BinNums.coq_N list) Hashtbl.t = Hashtbl.create 8

let btok (t : string) : BinNums.coq_N list =
  match Hashtbl.find_opt big_tokens t with
  | Some l -> l
  | None ->
    let raw = raw_of_token t in
    if Stdlib.String.length raw <= 4200 then bytes_of_string raw
    else begin
      let r = ref [] in
      for i = Stdlib.String.length raw - 1 downto 0 do r := byte_tab.(Char.code raw.[i]) :: !r done;
      big_registry := (!r, raw) :: !big_registry;
      Hashtbl.replace big_tokens t !r;
      !r
    end

let rec longer_than l k = match l with [] -> false | _ :: r -> if k = 0 then true else longer_than r (k - 1)

let rend (l : BinNums.coq_N list) : string =
  if not (longer_than l 4200) then render l
  else
    match Stdlib.List.find_opt (fun (l', _) -> l' == l) !big_registry with
    | Some (_, raw) -> Printf.sprintf "#%d:%08x" (Stdlib.String.length raw) (crc32_string raw)
    | None -> render l

(* decimal -> N without going through int *)
let n_of_decimal (s : string) : BinNums.coq_N =
  let ten = n_of_int 10 in
  let acc = ref BinNums.N0 in
  Stdlib.String.iter (fun ch -> acc := BinNat.N.add (BinNat.N.mul !acc ten) (n_of_int (Char.code ch - 48))) s;
  !acc

(* "tx-<n>" in the registry's spelling -> HId n, anything else -> HBad *)
let handle_of_string (s : string) : handle =
  let n = Stdlib.String.length s in
  let digits = n > 3 && (let ok = ref true in
                         for i = 3 to n - 1 do if s.[i] < '0' || s.[i] > '9' then ok := false done; !ok) in
  if n > 3 && Stdlib.String.sub s 0 3 = "tx-" && digits && (n = 4 || s.[3] <> '0')
  then HId (n_of_decimal (Stdlib.String.sub s 3 (n - 3)))
  else HBad (bytes_of_string s)

let z_of_string (s : string) : BinNums.coq_Z =
  let i = int_of_string s in
  if i = 0 then BinNums.Z0
  else if i > 0 then BinNums.Zpos (pos_of_int i)
  else BinNums.Zneg (pos_of_int (- i))

let err_class (e : err) : string =
  match e with
  | EKey -> "key" | EValue -> "value" | EBatch -> "batch" | EOpType -> "optype"
  | ENoTx -> "notx" | EROTx -> "rotx" | EOverflow -> "overflow" | EMsg -> "msg"

let b01 b = if b then "1" else "0"

let needs_big_stack lines =
  Stdlib.List.exists (fun l -> Stdlib.List.exists (fun t ->
      Stdlib.String.length t > 1 && t.[0] = '@' &&
      (match Stdlib.String.split_on_char ':' (Stdlib.String.sub t 1 (Stdlib.String.length t - 1)) with
       | n :: _ -> (try int_of_string n >= 100000 with _ -> false)
       | [] -> false)) l) lines

(* the extracted functions recurse over the bytes of a value (length, N.of_nat): values of
   megabytes need more stack than the default; such a case is re-run in a child with an
   unlimited stack *)
let rerun_with_big_stack id hdr lines =
  let tmp = Filename.temp_file "c19big" ".case" in
  let oc = open_out tmp in
  output_string oc ("case " ^ id ^ " " ^ Stdlib.String.concat " " hdr ^ "\n");
  Stdlib.List.iter (fun l -> output_string oc (Stdlib.String.concat " " l ^ "\n")) lines;
  output_string oc "end\n";
  close_out oc;
  Stdlib.flush stdout;
  let rc = Sys.command (Printf.sprintf "ulimit -s unlimited 2>/dev/null; VERIF_C19_BIGSTACK=1 OCAMLRUNPARAM=s=32M exec %s C19 %s"
                          (Filename.quote Sys.executable_name) (Filename.quote tmp)) in
  Sys.remove tmp;
  if rc <> 0 then failwith (Printf.sprintf "big-stack child exited with %d" rc)

let run (id : string) (hdr : string list) (lines : string list list) (out : string -> unit) =
  if needs_big_stack lines && Sys.getenv_opt "VERIF_C19_BIGSTACK" = None then rerun_with_big_stack id hdr lines else
  let pr x = out (id ^ " " ^ x) in
  let c = { c_memsize = n_of_string (kv_of hdr "memsize" "4096"); c_maxmem = n_of_string (kv_of hdr "maxmem" "1000") } in
  let lim = if kv_of hdr "msg" "default" = "big"
    then { code_limits with max_msg = n_of_int (64 * 1024 * 1024) } else code_limits in
  let prov =
    match kv_of hdr "role" "none" with
    | "none" -> None
    | role ->
      let nrep = int_of_string (kv_of hdr "nrep" "0") in
      Some { p_role = bytes_of_token role; p_primary = bytes_of_token (kv_of hdr "paddr" "-");
             p_replicas = Stdlib.List.init nrep (fun i ->
                 { r_addr = bytes_of_string (Printf.sprintf "r%d:1" i); r_seq = n_of_int (i * 7);
                   r_avail = (i mod 2 = 1); r_region = bytes_of_string "eu" });
             p_seq = n_of_string (kv_of hdr "pseq" "0"); p_ro = (kv_of hdr "pro" "0" = "1") } in
  let ss = ref (sinit c prov) in
  let begun : handle option list ref = ref [] in     (* by begin line, newest first *)
  let resolve (h : string) : handle =
    if h.[0] = '$' then begin
      let k = int_of_string (Stdlib.String.sub h 1 (Stdlib.String.length h - 1)) in
      let l = Stdlib.List.rev !begun in
      match (if k < Stdlib.List.length l then Stdlib.List.nth l k else None) with
      | Some x -> x
      | None -> HBad (bytes_of_string (Printf.sprintf "none-%d" k))
    end else handle_of_string (raw_of_token (Stdlib.String.sub h 1 (Stdlib.String.length h - 1))) in
  let rows tag row l =
    pr (Printf.sprintf "%s n=%d" tag (Stdlib.List.length l));
    Stdlib.List.iter (fun (k, v) -> pr (Printf.sprintf "%s %s %s" row (rend k) (rend v))) l in
  let show (r : response) =
    match r with
    | PValue (Some v) -> pr ("R value:" ^ rend v)
    | PValue None -> pr "R notfound"
    | POk -> pr "R ok"
    | PErr e -> pr ("R err:" ^ err_class e)
    | PBlocked -> pr "R blocked"
    | PRows l -> rows "S" "s" l
    | PBegun i -> pr ("B tx-" ^ n_to_string i)
    | PStats (k, s, m, t) ->
      pr (Printf.sprintf "T keys=%s size=%s mem=%s sst=%s" (n_to_string k) (n_to_string s) (n_to_string m) (n_to_string t))
    | PInfo (role, pa, reps, seq, ro) ->
      pr (Printf.sprintf "I role=%s paddr=%s seq=%s ro=%s nrep=%d" (n_to_string role) (render pa) (n_to_string seq)
            (b01 ro) (Stdlib.List.length reps));
      Stdlib.List.iter (fun (x : replica) ->
          pr (Printf.sprintf "i %s %s %s %s" (render x.r_addr) (n_to_string x.r_seq) (b01 x.r_avail) (render x.r_region))) reps in
  let req (q : request) : response =
    let (ss', r) = service_step lim !ss q in
    ss := ss'; r in
  let scanopts p s a e l =
    { so_prefix = btok p; so_suffix = btok s; so_start = btok a; so_end = btok e; so_limit = z_of_string l } in
  let rec take k l acc = if k = 0 then (Stdlib.List.rev acc, l) else
      match l with x :: t -> take (k - 1) t (x :: acc) | [] -> failwith "short batch" in
  let rec go ls =
    match ls with
    | [] -> ()
    | ["get"; k] :: r -> show (req (QGet (btok k))); go r
    | ["put"; k; v; s] :: r -> show (req (QPut (btok k, btok v, s = "1"))); go r
    | ["del"; k; s] :: r -> show (req (QDelete (btok k, s = "1"))); go r
    | ["batch"; n; s] :: r ->
      let (ops, rest) = take (int_of_string n) r [] in
      let ops = Stdlib.List.map (fun l -> match l with
          | ["o"; ty; k; v] -> { bw_type = n_of_string ty; bw_key = btok k; bw_val = btok v }
          | _ -> failwith "bad batch operation") ops in
      show (req (QBatch (ops, s = "1"))); go rest
    | ["scan"; p; s; a; e; l] :: r -> show (req (QScan (scanopts p s a e l))); go r
    | ["scanwrite"; ka; va; kb; vb] :: r ->
      (* the batch waits for the read lock of the scan: the scan shows the state before it *)
      show (req (QScan (scanopts "-" "-" "-" "-" "0")));
      show (req (QBatch ([{ bw_type = n_of_int 0; bw_key = btok ka; bw_val = btok va };
                          { bw_type = n_of_int 0; bw_key = btok kb; bw_val = btok vb }], false))); go r
    | ["begin"; m] :: r ->
      let resp = req (QBegin (m = "ro")) in
      (match resp with PBegun i -> begun := Some (HId i) :: !begun | _ -> begun := None :: !begun);
      show resp; go r
    | ["cbegin"; n; rounds] :: r ->
      (* n concurrent read-only begins, each used once and rolled back, `rounds` times: whatever the
         interleaving, n*rounds handles are consumed and none stays open *)
      let total = int_of_string n * int_of_string rounds in
      for _ = 1 to total do
        (match req (QBegin true) with
         | PBegun i -> ignore (req (QRollback (HId i)))
         | _ -> ())
      done;
      pr (Printf.sprintf "CB ok handles=%d" total); go r
    | ["commit"; h] :: r -> show (req (QCommit (resolve h))); go r
    | ["rollback"; h] :: r -> show (req (QRollback (resolve h))); go r
    | ["tget"; h; k] :: r -> show (req (QTxGet (resolve h, btok k))); go r
    | ["tput"; h; k; v] :: r -> show (req (QTxPut (resolve h, btok k, btok v))); go r
    | ["tdel"; h; k] :: r -> show (req (QTxDelete (resolve h, btok k))); go r
    | ["tscan"; h; p; s; a; e; l] :: r -> show (req (QTxScan (resolve h, scanopts p s a e l))); go r
    | ["stats"] :: r -> show (req QStats); go r
    | ["compact"; f] :: r -> show (req (QCompact (f = "1"))); go r
    | ["info"] :: r -> show (req QNodeInfo); go r
    | ["flush"] :: r -> ss := fst (sstep lim !ss SFlush); go r
    | l :: _ -> failwith ("C19: bad line: " ^ Stdlib.String.concat " " l) in
  go lines;
  rows "Z" "z" (Iter.scan Iter.tx_it BinNums.N0 (Iter.tx_full !ss.s_eng []))
