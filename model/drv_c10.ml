(* C10: log damage is contained — replay of every cut / single-byte alteration of the newest
   log file of a program, on the WalCodec model *)
open Kutil
open WalCodec

let fnv (h : int) (s : string) : int =
  let h = ref h in
  Stdlib.String.iter (fun c -> h := ((!h lxor (Char.code c)) * 16777619) land 0xffffffff) s;
  !h

let digest (es : wentry list) : int =
  Stdlib.List.fold_left (fun h e -> fnv (fnv h (Drv_c09.entry_str e)) "\n") 2166136261 es

let status_short s = match s with Clean -> "clean" | _ -> "cut"

let rec firstn n l = if n = 0 then [] else match l with [] -> [] | x :: r -> x :: firstn (n - 1) r

let variants (b : int) : (string * int) list =
  Stdlib.List.filter (fun (_, v) -> v <> b)
    [ ("x01", b lxor 1); ("z00", 0); ("zff", 255); ("inc", (b + 1) land 255); ("x80", b lxor 128) ]

let run (id : string) (hdr : string list) (lines : string list list) (out : string -> unit) =
  if Stdlib.List.mem "mode=engine" hdr then () else
  let w = ref { wl_next = n_of_int 1; wl_files = [ [] ] } in
  let pr s = out (id ^ " " ^ s) in
  let report tag bytes =
    let (es, st) = replay_file bytes in
    pr (Printf.sprintf "%s %d %s %08x" tag (Stdlib.List.length es) (status_short st) (digest es)) in
  let last_file () = match Stdlib.List.rev !w.wl_files with f :: _ -> f | [] -> [] in
  let rec go ls =
    match ls with
    | [] -> ()
    | ((("put" | "merge") as o) :: k :: v :: []) :: r ->
      let (w', _) = wal_append !w (n_of_int (Drv_c09.op_of o)) (bytes_of_token k) (bytes_of_token v) in
      w := w'; go r
    | ("del" :: k :: []) :: r ->
      let (w', _) = wal_append !w (n_of_int 2) (bytes_of_token k) [] in w := w'; go r
    | ("batch" :: [n]) :: r ->
      let n = int_of_string n in
      let rec take k l acc = if k = 0 then (Stdlib.List.rev acc, l) else
          match l with x :: t -> take (k-1) t (x :: acc) | [] -> failwith "short batch" in
      let (ops, rest) = take n r [] in
      let ents = Stdlib.List.map (fun l -> match l with
          | [o; k; v] -> { w_op = n_of_int (Drv_c09.op_of o); w_seq = N0; w_key = bytes_of_token k; w_val = bytes_of_token v }
          | [o; k] -> { w_op = n_of_int (Drv_c09.op_of o); w_seq = N0; w_key = bytes_of_token k; w_val = [] }
          | _ -> failwith "bad batch op") ops in
      let (w', _) = wal_append_batch !w ents in w := w'; go rest
    | ["rotate"] :: r -> w := wal_new_file !w; go r
    | ["cutall"] :: r ->
      let f = last_file () in
      let n = Stdlib.List.length f in
      pr (Printf.sprintf "F %d %08x" n (int_of_n (Bytes.crc32 f)));
      for k = 0 to n do report (Printf.sprintf "C %d" k) (firstn k f) done; go r
    | ["cut"; k] :: r -> report ("C " ^ k) (firstn (int_of_string k) (last_file ())); go r
    | ("flipall" :: step :: []) :: r ->
      let f = Stdlib.Array.of_list (last_file ()) in
      let step = int_of_string step in
      let i = ref 0 in
      while !i < Stdlib.Array.length f do
        let b = int_of_n f.(!i) in
        Stdlib.List.iter (fun (name, v) ->
            let g = Stdlib.Array.copy f in
            g.(!i) <- n_of_int v;
            report (Printf.sprintf "X %d %s" !i name) (Stdlib.Array.to_list g)) (variants b);
        i := !i + step
      done; go r
    | ["flip"; i; v] :: r ->
      let f = Stdlib.Array.of_list (last_file ()) in
      let p = Stdlib.min (int_of_string i) (Stdlib.Array.length f - 1) in
      f.(p) <- n_of_int (int_of_string v);
      report (Printf.sprintf "X %s %s" i v) (Stdlib.Array.to_list f); go r
    | ("dircut" :: k :: []) :: r ->
      (* the whole directory with the newest file cut at k *)
      let files = !w.wl_files in
      let rec repl l = match l with [] -> [] | [x] -> [firstn (int_of_string k) x] | x :: t -> x :: repl t in
      let es = replay_dir (repl files) in
      pr (Printf.sprintf "D %s %d %08x" k (Stdlib.List.length es) (digest es)); go r
    | l :: _ -> failwith ("C10: bad line: " ^ Stdlib.String.concat " " l)
  in
  go lines
