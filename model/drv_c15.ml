(* C15: the observed call chains of a blocked client operation are checked against the
   call-graph table generated from the source (BlockView.known_blocked_path /
   known_inversion).  The runner reads the harness output of the case (NOTE CHAIN / NOTE
   INVERSION lines) and prints the B / D lines with the verdict recomputed from the table;
   the P / E / H / U / F lines are dynamic outcomes judged by the oracle and are echoed. *)
open Kutil

let run (id : string) (_hdr : string list) (_lines : string list list) (out : string -> unit) =
  let pr x = out (id ^ " " ^ x) in
  let impl = try Hashtbl.find impl_lines id with Not_found -> [] in
  let chains = Stdlib.List.filter_map (fun l -> match l with
      | "NOTE" :: "CHAIN" :: fs -> Some (Stdlib.List.map bytes_of_string fs) | _ -> None) impl in
  let sendchains = Stdlib.List.filter_map (fun l -> match l with
      | "NOTE" :: "SENDCHAIN" :: fs -> Some (Stdlib.List.map bytes_of_string fs) | _ -> None) impl in
  let inversions = Stdlib.List.filter_map (fun l -> match l with
      | ["NOTE"; "INVERSION"; a; b] -> Some (bytes_of_string a, bytes_of_string b) | _ -> None) impl in
  let known_chain () =
    (* the writer's own chain is a path of the table (it ends in the observer's send), and so is
       the chain of every goroutine found inside Stream.Send *)
    chains <> [] && Stdlib.List.for_all BlockView.known_blocked_path (Stdlib.List.filteri (fun i _ -> i = 0) chains)
    && Stdlib.List.for_all BlockView.known_blocked_path sendchains in
  let known_inv () =
    inversions <> [] && Stdlib.List.for_all (fun (a, b) -> BlockView.known_inversion a b) inversions in
  Stdlib.List.iter (fun l ->
      match l with
      | "B" :: op :: _ -> pr (Printf.sprintf "B %s chain=%s" op (if known_chain () then "known" else "unknown"))
      | "D" :: op :: _ -> pr (Printf.sprintf "D %s inversion=%s" op (if known_inv () then "known" else "unknown"))
      | ("P" | "E" | "H" | "U" | "F") :: _ -> pr (Stdlib.String.concat " " l)
      | _ -> ()) impl
