(* C12: the Compaction model as a checker of the harness output (props.py: model_input = impl).
   Input lines (per case id): H <hdr>, then per operation "OP <line>", its observation lines,
   and "Z <sizes>" (sizes of the files the operation created: inputs of the model). The model
   recomputes every observation line; prints ACCEPT or REJECT <first difference>. *)
open Kutil
open Engine
open Compaction

let special = ["ORACLE"; "META"; "KF"; "NOTE"]

let dump_lines (s : cst) : string list =
  Stdlib.List.concat_map (fun (f : dfile) ->
      let t = f.d_sst in
      Printf.sprintf "F %s %s n=%d" (n_to_string t.s_level) (n_to_string t.s_num) (Stdlib.List.length t.s_entries)
      :: Stdlib.List.map (fun (e : sentry) ->
          Printf.sprintf "f %s %s %s %s" (render e.sk) (n_to_string e.sseq)
            (match e.sval with None -> "del" | Some _ -> "val")
            (match e.sval with None -> "-" | Some v -> render v)) t.s_entries)
    (dsort s.disk)

let wline (s : cst) r = match r with
  | WrOk _ -> "W ok last=" ^ n_to_string s.eng.last_seq
  | WrOverflow -> "W err:overflow"

let gline v = match v with None -> "G notfound" | Some b -> "G v:" ^ render b

exception Reject of string

(* one case: lines without the id *)
let check (lines : string list list) : string =
  let hdr = ref [] in
  (* split into operations: (op tokens, sub-lines (p/d), observation lines, sizes, A-lines) *)
  let rec split ls acc cur =
    match ls with
    | [] -> Stdlib.List.rev (match cur with None -> acc | Some c -> c :: acc)
    | ("H" :: h) :: r -> hdr := h; split r acc cur
    | (t :: _) :: r when Stdlib.List.mem t special -> split r acc cur
    | ("IMPL-ERROR" :: _ as l) :: _ | ("IMPL-PANIC" :: _ as l) :: _ -> raise (Reject ("implementation error: " ^ Stdlib.String.concat " " l))
    | ("OP" :: (("p" | "d") :: _ as sub)) :: r ->
      (match cur with
       | Some (op, subs, obs) -> split r acc (Some (op, sub :: subs, obs))
       | None -> raise (Reject "batch line without batch"))
    | ("OP" :: op) :: r ->
      split r (match cur with None -> acc | Some c -> c :: acc) (Some (op, [], []))
    | l :: r ->
      (match cur with
       | Some (op, subs, obs) -> split r acc (Some (op, subs, l :: obs))
       | None -> raise (Reject ("observation before the first operation: " ^ Stdlib.String.concat " " l))) in
  let ops = split lines [] None in
  let kv key dflt = Drv_c01.kv_of !hdr key dflt in
  let c = { c_memsize = n_of_string (kv "memsize" "100000"); c_maxmem = n_of_string (kv "maxmem" "4") } in
  let k = { cc_ratio = n_of_string (kv "ratio" "10"); cc_sstmax = n_of_string (kv "sstmax" "1000000") } in
  let s = ref (cinit c k) in
  let nop = ref 0 in
  let bops subs = Stdlib.List.rev_map (fun l -> match l with
      | ["p"; k; v] -> (bytes_of_token k, Some (bytes_of_token v))
      | ["d"; k] -> (bytes_of_token k, None)
      | _ -> raise (Reject "bad batch line")) subs in
  (* compare expected observation lines with the implementation's, Z lines taken out *)
  let expect op (obs : string list list) (exp : string list) =
    let got = Stdlib.List.map (Stdlib.String.concat " ") obs in
    let rec go i g e = match g, e with
      | [], [] -> ()
      | x :: g', y :: e' -> if x = y then go (i+1) g' e' else
          raise (Reject (Printf.sprintf "op %d (%s) line %d: impl=%S model=%S" !nop op i x y))
      | x :: _, [] -> raise (Reject (Printf.sprintf "op %d (%s) line %d: impl=%S model=<nothing>" !nop op i x))
      | [], y :: _ -> raise (Reject (Printf.sprintf "op %d (%s) line %d: impl=<nothing> model=%S" !nop op i y)) in
    go 0 got exp in
  let sizes_of zl = Stdlib.List.map n_of_string zl in
  (* take the Z line out of an observation list *)
  let take_z op obs =
    match Stdlib.List.partition (fun l -> match l with "Z" :: _ -> true | _ -> false) obs with
    | [ _ :: z ], rest -> (sizes_of z, rest)
    | [], _ -> raise (Reject (Printf.sprintf "op %d (%s): no Z line" !nop op))
    | _ -> raise (Reject (Printf.sprintf "op %d (%s): several Z lines" !nop op)) in
  let created before after op z =
    let n = Stdlib.List.length after.disk - Stdlib.List.length before.disk in
    ignore n;
    ignore op; ignore z in
  let count_new (before : cst) (after : cst) =
    Stdlib.List.length (Stdlib.List.filter (fun (f : dfile) ->
        not (Stdlib.List.exists (fun (g : dfile) -> g.d_sst.s_level = f.d_sst.s_level && g.d_sst.s_num = f.d_sst.s_num && g.d_sst.s_ts = f.d_sst.s_ts) before.disk)) after.disk) in
  let with_z op obs (f : BinNums.coq_N list -> cst) =
    let (z, rest) = take_z op obs in
    let before = !s in
    let after = f z in
    created before after op z;
    if count_new before after <> Stdlib.List.length z then
      raise (Reject (Printf.sprintf "op %d (%s): the implementation created %d files, the model %d" !nop op (Stdlib.List.length z) (count_new before after)));
    s := after;
    rest in
  let reopen_lines () =
    if !s.eng.lost_log then ["X lostlog"] else ("O last=" ^ n_to_string !s.eng.last_seq) :: dump_lines !s in
  Stdlib.List.iter (fun (op, subs, obs) ->
      incr nop;
      let obs = Stdlib.List.rev obs in
      let ops_s = Stdlib.String.concat " " op in
      match op with
      | ["put"; k; v] -> let (s', r) = cput !s (bytes_of_token k) (bytes_of_token v) in s := s'; expect ops_s obs [wline s' r]
      | ["del"; k] -> let (s', r) = cdel !s (bytes_of_token k) in s := s'; expect ops_s obs [wline s' r]
      | ["batch"; _] -> let (s', r) = cbatch !s (bops subs) in s := s'; expect ops_s obs [wline s' r]
      | ["commit"; _] -> let (s', r) = ccommit !s (bops subs) in s := s'; expect ops_s obs [wline s' r]
      | ["get"; k] -> expect ops_s obs [gline (cget !s (bytes_of_token k))]
      | ["flush"] -> let rest = with_z ops_s obs (fun z -> cflush !s z) in expect ops_s rest (dump_lines !s)
      | ["full"] -> let rest = with_z ops_s obs (fun z -> cfull !s z) in expect ops_s rest (dump_lines !s)
      | ["trigger"] -> let rest = with_z ops_s obs (fun z -> ctrigger !s z) in expect ops_s rest (dump_lines !s)
      | ["range"; lo; hi] ->
        let rest = with_z ops_s obs (fun z -> crange !s (bytes_of_token lo) (bytes_of_token hi) z) in
        expect ops_s rest (dump_lines !s)
      | ["reopen"] -> s := creopen !s false; expect ops_s obs (reopen_lines ())
      | ["retire"] -> s := creopen !s true; expect ops_s obs (reopen_lines ())
      | ["files"] -> expect ops_s obs (dump_lines !s)
      | ["auto"] ->
        (* reopen; one ctrigger per reported cycle; at "A quiet" the strategy must select nothing; reopen *)
        s := creopen !s false;
        let exp = ref [ "O last=" ^ n_to_string !s.eng.last_seq ] in
        let rec cycles ls pendz =
          match ls with
          | ("A" :: "cycle" :: _) :: r -> exp := !exp @ ["A cycle"]; cycles r None
          | ("Z" :: z) :: r ->
            let before = !s in
            let after = ctrigger !s (sizes_of z) in
            if count_new before after <> Stdlib.List.length z then
              raise (Reject (Printf.sprintf "op %d (auto): a background cycle created %d files, the model %d" !nop (Stdlib.List.length z) (count_new before after)));
            s := after; exp := !exp @ dump_lines !s; cycles r pendz
          | ("A" :: "quiet" :: rest) :: r ->
            (match select !s.eng.cfg.c_maxmem !s.cc !s.disk with
             | None -> ()
             | Some _ -> raise (Reject (Printf.sprintf "op %d (auto): the worker went quiet but the model's strategy still selects a task" !nop)));
            exp := !exp @ [Stdlib.String.concat " " ("A" :: "quiet" :: rest)];
            s := creopen !s false;
            exp := !exp @ reopen_lines ();
            cycles r pendz
          | _ :: r -> cycles r pendz
          | [] -> () in
        cycles obs None;
        expect ops_s (Stdlib.List.filter (fun l -> match l with "Z" :: _ -> false | _ -> true) obs) !exp
      | _ -> raise (Reject ("bad operation " ^ ops_s)))
    ops;
  "ACCEPT"

let run_impl (file : string) (out : string -> unit) =
  let ic = open_in file in
  let order = ref [] in
  let tbl : (string, string list list) Hashtbl.t = Hashtbl.create 64 in
  (try
     while true do
       let l = input_line ic in
       match split_ws l with
       | [] -> ()
       | id :: rest ->
         if not (Hashtbl.mem tbl id) then order := id :: !order;
         Hashtbl.replace tbl id (rest :: (try Hashtbl.find tbl id with Not_found -> []))
     done
   with End_of_file -> ());
  Stdlib.List.iter (fun id ->
      let lines = Stdlib.List.rev (Hashtbl.find tbl id) in
      let verdict = try check lines with
        | Reject m -> "REJECT " ^ m
        | Failure m -> "REJECT model error: " ^ m in
      out (id ^ " " ^ verdict)) (Stdlib.List.rev !order)

(* the registered signature (case file mode) is not used for C12 *)
let run (id : string) (_ : string list) (_ : string list list) (out : string -> unit) =
  out (id ^ " REJECT C12 runs in impl mode")
