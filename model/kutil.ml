(* kutil.ml — conversions between OCaml values and the extracted Coq datatypes, and the
   canonical text rendering shared with the Go harness (harness/util.go). *)
open BinNums

let rec pos_of_int (i : int) : positive =
  if i = 1 then Coq_xH
  else if i land 1 = 0 then Coq_xO (pos_of_int (i lsr 1))
  else Coq_xI (pos_of_int (i lsr 1))

let n_of_int (i : int) : coq_N = if i = 0 then N0 else Npos (pos_of_int i)

let rec int_of_pos (p : positive) : int =
  match p with
  | Coq_xH -> 1
  | Coq_xO q -> 2 * int_of_pos q
  | Coq_xI q -> 2 * int_of_pos q + 1

let int_of_n (n : coq_N) : int = match n with N0 -> 0 | Npos p -> int_of_pos p

let rec nat_of_int (i : int) : Datatypes.nat =
  let rec go acc i = if i = 0 then acc else go (Datatypes.S acc) (i - 1) in
  go Datatypes.O i

let int_of_nat (n : Datatypes.nat) : int =
  let rec go acc n = match n with Datatypes.O -> acc | Datatypes.S m -> go (acc + 1) m in
  go 0 n

(* bits of a positive, least significant first *)
let rec pos_bits (p : positive) : int list =
  match p with
  | Coq_xH -> [1]
  | Coq_xO q -> 0 :: pos_bits q
  | Coq_xI q -> 1 :: pos_bits q

let n_bits n = match n with N0 -> [] | Npos p -> pos_bits p

let hexdig = "0123456789abcdef"

(* numbers below 2^62 in decimal, larger ones as 0x… *)
let n_to_string (n : coq_N) : string =
  let bits = n_bits n in
  if Stdlib.List.length bits <= 62 then string_of_int (int_of_n n)
  else begin
    let rec nibbles bs =
      match bs with
      | [] -> []
      | _ ->
        let take k l = let rec t k l acc = if k = 0 then (Stdlib.List.rev acc, l) else
                         match l with [] -> (Stdlib.List.rev acc, []) | x :: r -> t (k-1) r (x :: acc) in t k l [] in
        let (four, rest) = take 4 bs in
        let v = Stdlib.List.fold_right (fun b acc -> acc * 2 + b) four 0 in
        v :: nibbles rest in
    let ns = Stdlib.List.rev (nibbles bits) in
    "0x" ^ Stdlib.String.concat "" (Stdlib.List.map (fun v -> Stdlib.String.make 1 hexdig.[v]) ns)
  end

let hexval c =
  match c with
  | '0'..'9' -> Char.code c - 48
  | 'a'..'f' -> Char.code c - 87
  | 'A'..'F' -> Char.code c - 55
  | _ -> failwith "bad hex digit"

(* N from bits, least significant first *)
let n_of_bits (bits : int list) : coq_N =
  (* drop leading (most significant) zeros *)
  let rec strip l = match l with 0 :: r -> strip r | _ -> l in
  let msf = strip (Stdlib.List.rev bits) in
  match msf with
  | [] -> N0
  | _ :: rest ->
    Npos (Stdlib.List.fold_left (fun acc b -> if b = 1 then Coq_xI acc else Coq_xO acc) Coq_xH rest)

let n_of_string (s : string) : coq_N =
  if Stdlib.String.length s > 2 && s.[0] = '0' && (s.[1] = 'x' || s.[1] = 'X') then begin
    let bits = ref [] in
    for i = Stdlib.String.length s - 1 downto 2 do
      let v = hexval s.[i] in
      bits := !bits @ [v land 1; (v lsr 1) land 1; (v lsr 2) land 1; (v lsr 3) land 1]
    done;
    n_of_bits !bits
  end else n_of_int (int_of_string s)

(* bytes = list N *)
let bytes_of_string (s : string) : coq_N list =
  let r = ref [] in
  for i = Stdlib.String.length s - 1 downto 0 do r := n_of_int (Char.code s.[i]) :: !r done;
  !r

let string_of_bytes (l : coq_N list) : string =
  let b = Buffer.create 64 in
  Stdlib.List.iter (fun n -> Buffer.add_char b (Char.chr ((int_of_n n) land 255))) l;
  Buffer.contents b

let lcg_bytes (n : int) (seed : int) : string =
  let x = ref (seed land 0x7fffffff) in
  Stdlib.String.init n (fun _ ->
    x := (!x * 1103515245 + 12345) land 0x7fffffff;
    Char.chr ((!x lsr 16) land 0xff))

(* token -> raw string:  "-" empty | hex | @n:seed *)
let raw_of_token (t : string) : string =
  if t = "-" then ""
  else if t.[0] = '@' then begin
    match Stdlib.String.split_on_char ':' (Stdlib.String.sub t 1 (Stdlib.String.length t - 1)) with
    | [n; sd] -> lcg_bytes (int_of_string n) (int_of_string sd)
    | _ -> failwith ("bad token " ^ t)
  end else begin
    let n = Stdlib.String.length t / 2 in
    Stdlib.String.init n (fun i -> Char.chr (hexval t.[2*i] * 16 + hexval t.[2*i+1]))
  end

let bytes_of_token t = bytes_of_string (raw_of_token t)

let hex_of_raw (s : string) : string =
  let b = Buffer.create (2 * Stdlib.String.length s) in
  Stdlib.String.iter (fun c -> Buffer.add_char b hexdig.[Char.code c lsr 4];
                               Buffer.add_char b hexdig.[Char.code c land 15]) s;
  Buffer.contents b

(* canonical rendering: "-" | hex (<= 48 bytes) | #len:crc32 ; long strings are memoised
   (the CRC over Coq binary numbers is the slow part of the driver) *)
let render_cache : (int * int, (coq_N list * string) list) Hashtbl.t = Hashtbl.create 64

let rec list_prefix_hash l k acc =
  if k = 0 then acc else
    match l with [] -> acc | x :: r -> list_prefix_hash r (k - 1) (acc * 31 + int_of_n x)

let render (l : coq_N list) : string =
  let n = Stdlib.List.length l in
  if n = 0 then "-"
  else if n <= 48 then hex_of_raw (string_of_bytes l)
  else begin
    let key = (n, list_prefix_hash l 24 7) in
    let bucket = try Hashtbl.find render_cache key with Not_found -> [] in
    match Stdlib.List.find_opt (fun (l', _) -> l' == l || l' = l) bucket with
    | Some (_, s) -> s
    | None ->
      let s = Printf.sprintf "#%d:%08x" n (int_of_n (Bytes.crc32 l)) in
      Hashtbl.replace render_cache key ((l, s) :: bucket); s
  end

let split_ws (s : string) : string list =
  Stdlib.List.filter (fun x -> x <> "") (Stdlib.String.split_on_char ' ' (Stdlib.String.trim s))

(* harness output of the current run, by case id (filled by main when given a third argument) *)
let impl_lines : (string, string list list) Hashtbl.t = Hashtbl.create 64
