(* kevo_model <prop> <casefile>: run the extracted Coq model on a case file; one
   canonical observation per output line, prefixed by the case id. *)
let runners : (string * (string -> string list -> string list list -> (string -> unit) -> unit)) list = [
  ("C09", Drv_c09.run);
  ("C01", Drv_c01.run);
  ("C08", (fun id hdr lines out -> if Stdlib.List.mem "level=wal" hdr then Drv_c09.run id hdr lines out
                                    else if Stdlib.List.mem "level=crash" hdr then ()   (* decided by the harness's oracle *)
                                    else Drv_c01.run id hdr lines out));
  ("C18", Drv_c18.run);
  ("C10", Drv_c10.run);
  ("C02", Drv_c02.run);
  ("C06", Drv_c06.run);
  ("C16", Drv_c16.run);
  ("C14", Drv_c14.run);
  ("C15", Drv_c15.run);
  ("C19", Drv_c19.run);
  ("C20", Drv_c20.run);
  ("C07", Drv_c07.run);
  ("C11", Drv_c11.run);
  ("C05", Drv_c05.run);
  ("C12", Drv_c12.run);
  ("C03", Drv_c03.run);
  ("C13", Drv_c13.run);
  ("C17", Drv_c17.run);
]

(* runners whose input is the harness OUTPUT ("<id> <line>" per line, model_input = "impl"):
   lines are grouped by case id in order of first appearance *)
let impl_runners = ["C06"]

let run_on_impl run file out =
  let ic = open_in file in
  let order = ref [] and tbl : (string, string list list) Hashtbl.t = Hashtbl.create 64 in
  (try
     while true do
       match Kutil.split_ws (input_line ic) with
       | id :: rest ->
         if not (Hashtbl.mem tbl id) then (order := id :: !order; Hashtbl.replace tbl id []);
         Hashtbl.replace tbl id (rest :: Hashtbl.find tbl id)
       | [] -> ()
     done
   with End_of_file -> ());
  close_in ic;
  Stdlib.List.iter (fun id ->
      try run id [] (Stdlib.List.rev (Hashtbl.find tbl id)) out
      with Failure m -> out (id ^ " MODEL-ERROR " ^ m)) (Stdlib.List.rev !order)

(* optional third argument: the harness output for the same cases (for models that need
   run-time facts such as surviving file lengths); indexed by case id in Kutil.impl_lines *)
let load_impl path =
  let ic = open_in path in
  (try
     while true do
       let l = input_line ic in
       match Kutil.split_ws l with
       | id :: rest ->
         let cur = try Hashtbl.find Kutil.impl_lines id with Not_found -> [] in
         Hashtbl.replace Kutil.impl_lines id (rest :: cur)
       | [] -> ()
     done
   with End_of_file -> ());
  close_in ic;
  Hashtbl.filter_map_inplace (fun _ v -> Some (Stdlib.List.rev v)) Kutil.impl_lines
(* model_input = "impl": the input is the harness output, not a case file *)
let () = if Array.length Sys.argv > 2 && Sys.argv.(1) = "C04" then (Drv_c04.main Sys.argv.(2); exit 0)

let () =
  let prop = Sys.argv.(1) and file = Sys.argv.(2) in
  if Array.length Sys.argv > 3 then load_impl Sys.argv.(3);
  if prop = "C12" then (Drv_c12.run_impl file (fun s -> print_string s; print_char '\n'); exit 0);
  let run = try Stdlib.List.assoc prop runners with Not_found -> (prerr_endline ("no model runner for " ^ prop); exit 2) in
  if Stdlib.List.mem prop impl_runners && Array.length Sys.argv = 3 then begin
    run_on_impl run file (fun s -> print_string s; print_char '\n'); exit 0
  end;
  let ic = open_in file in
  let out s = print_string s; print_char '\n' in
  let cur = ref None and acc = ref [] in
  let flush_case () =
    match !cur with
    | None -> ()
    | Some (id, hdr) ->
      (try run id hdr (Stdlib.List.rev !acc) out
       with Failure m -> out (id ^ " MODEL-ERROR " ^ m));
      cur := None; acc := [] in
  (try
     while true do
       let l = input_line ic in
       match Kutil.split_ws l with
       | [] -> ()
       | "case" :: id :: hdr -> flush_case (); cur := Some (id, hdr)
       | ["end"] -> flush_case ()
       | toks -> if String.length l > 0 && l.[0] = '#' then () else acc := toks :: !acc
     done
   with End_of_file -> ());
  flush_case ()
