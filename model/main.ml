(* kevo_model <prop> <casefile>: run the extracted Coq model on a case file; one
   canonical observation per output line, prefixed by the case id. *)
let runners : (string * (string -> string list -> string list list -> (string -> unit) -> unit)) list = [
  ("C09", Drv_c09.run);
  ("C01", Drv_c01.run);
  ("C08", Drv_c01.run);
  ("C20", Drv_c20.run);
]

let () =
  let prop = Sys.argv.(1) and file = Sys.argv.(2) in
  let run = try Stdlib.List.assoc prop runners with Not_found -> (prerr_endline ("no model runner for " ^ prop); exit 2) in
  let ic = open_in file in
  let out s = print_string s; print_char '\n' in
  let cur = ref None and acc = ref [] in
  let flush_case () =
    match !cur with
    | None -> ()
    | Some (id, hdr) ->
      (try run id hdr (Stdlib.List.rev !acc) out
       with Failure m -> out (id ^ " MODEL-ERROR " ^ m));
      cur := None; acc := [] in
  (try
     while true do
       let l = input_line ic in
       match Kutil.split_ws l with
       | [] -> ()
       | "case" :: id :: hdr -> flush_case (); cur := Some (id, hdr)
       | ["end"] -> flush_case ()
       | toks -> if String.length l > 0 && l.[0] = '#' then () else acc := toks :: !acc
     done
   with End_of_file -> ());
  flush_case ()
