(* kevo_model <prop> <casefile>: run the extracted Coq model on a case file; one
   canonical observation per output line, prefixed by the case id. *)
let runners : (string * (string -> string list -> string list list -> (string -> unit) -> unit)) list = [
  ("C09", Drv_c09.run);
  ("C01", Drv_c01.run);
  ("C08", Drv_c01.run);
  ("C18", Drv_c18.run);
  ("C10", Drv_c10.run);
  ("C02", Drv_c02.run);
  ("C16", Drv_c16.run);
  ("C14", Drv_c14.run);
  ("C15", Drv_c15.run);
]

(* optional third argument: the harness output for the same cases (for models that need
   run-time facts such as surviving file lengths); indexed by case id in Kutil.impl_lines *)
let load_impl path =
  let ic = open_in path in
  (try
     while true do
       let l = input_line ic in
       match Kutil.split_ws l with
       | id :: rest ->
         let cur = try Hashtbl.find Kutil.impl_lines id with Not_found -> [] in
         Hashtbl.replace Kutil.impl_lines id (rest :: cur)
       | [] -> ()
     done
   with End_of_file -> ());
  close_in ic;
  Hashtbl.filter_map_inplace (fun _ v -> Some (Stdlib.List.rev v)) Kutil.impl_lines

let () =
  let prop = Sys.argv.(1) and file = Sys.argv.(2) in
  if Array.length Sys.argv > 3 then load_impl Sys.argv.(3);
  let run = try Stdlib.List.assoc prop runners with Not_found -> (prerr_endline ("no model runner for " ^ prop); exit 2) in
  let ic = open_in file in
  let out s = print_string s; print_char '\n' in
  let cur = ref None and acc = ref [] in
  let flush_case () =
    match !cur with
    | None -> ()
    | Some (id, hdr) ->
      (try run id hdr (Stdlib.List.rev !acc) out
       with Failure m -> out (id ^ " MODEL-ERROR " ^ m));
      cur := None; acc := [] in
  (try
     while true do
       let l = input_line ic in
       match Kutil.split_ws l with
       | [] -> ()
       | "case" :: id :: hdr -> flush_case (); cur := Some (id, hdr)
       | ["end"] -> flush_case ()
       | toks -> if String.length l > 0 && l.[0] = '#' then () else acc := toks :: !acc
     done
   with End_of_file -> ());
  flush_case ()
