(* C05: drive the iterator model (Iter.v) over the Engine model with the harness's case:
   a C01-style program builds the data, iterator sections position/scan it.
   Lines (see harness/c05.go): put/del/batch/commit/rollback/flush/reopen |
   iter full | iter range LO HI | txiter full N (+N p/d lines) | txiter range LO HI N (+N) |
   filt P S | first | seek T | next | last | scan LIMIT.   LO/HI/P/S: token or "nil". *)
open Kutil
open Engine
open Iter

type packed = P : 'a coq_Iter * 'a -> packed

let opt_tok t = if t = "nil" then None else Some (bytes_of_token t)

let parse_txops n lines =
  let rec take k l acc = if k = 0 then (Stdlib.List.rev acc, l) else
      match l with x :: t -> take (k-1) t (x :: acc) | [] -> failwith "short tx section" in
  let (ops, rest) = take n lines [] in
  (Stdlib.List.map (fun l -> match l with
       (* a put of a nil value stores an empty value (Buffer.Put; defect D26 before its repair) *)
       | ["p"; k; "nil"] -> (bytes_of_token k, Some [])
       | ["p"; k; v] -> (bytes_of_token k, Some (bytes_of_token v))
       | ["d"; k] -> (bytes_of_token k, None)
       | _ -> failwith "bad tx op") ops, rest)

let run (id : string) (hdr : string list) (lines : string list list) (out : string -> unit) =
  let c = { c_memsize = n_of_string (Drv_c01.kv_of hdr "memsize" "4096");
            c_maxmem = n_of_string (Drv_c01.kv_of hdr "maxmem" "1000") } in
  let s = ref (init c) in
  let cur : packed option ref = ref None in
  let pr x = out (id ^ " " ^ x) in
  let wr (s', r) = s := s'; cur := None;
    (match r with WrOk _ -> pr "W ok" | WrOverflow -> pr "W err:overflow") in
  let show op ret =
    match !cur with
    | None -> failwith "no iterator"
    | Some (P (it, st)) ->
      let r = match ret with None -> "-" | Some true -> "1" | Some false -> "0" in
      if it.i_valid st then
        pr (Printf.sprintf "P %s r=%s v=1 k=%s x=%s t=%d" op r (render (it.i_key st))
              (match it.i_value st with None -> "nil" | Some v -> render v)
              (if it.i_tomb st then 1 else 0))
      else pr (Printf.sprintf "P %s r=%s v=0" op r) in
  let rec go ls =
    match ls with
    | [] -> ()
    | _ when !s.lost_log -> ()
    | ["put"; k; v] :: r -> wr (put !s (bytes_of_token k) (bytes_of_token v)); go r
    | ["del"; k] :: r -> wr (del !s (bytes_of_token k)); go r
    | ["batch"; n] :: r -> let (ops, rest) = Drv_c01.parse_bops (int_of_string n) r in wr (apply_batch !s ops); go rest
    | ["commit"; n] :: r -> let (ops, rest) = Drv_c01.parse_bops (int_of_string n) r in wr (tx_commit !s ops); go rest
    | ["rollback"; n] :: r -> let (_, rest) = Drv_c01.parse_bops (int_of_string n) r in cur := None; go rest
    | ["flush"] :: r -> s := flush !s; cur := None; go r
    | ["reopen"] :: r -> s := reopen !s; cur := None;
      if !s.lost_log then pr "X lostlog"; go r
    | ["iter"; "full"] :: r -> cur := Some (P (eng_it, eng_iter !s)); go r
    | ["iter"; "range"; lo; hi] :: r ->
      cur := Some (P (eng_range_it (opt_tok lo) (opt_tok hi), eng_iter !s)); go r
    | ["txiter"; "full"; n] :: r ->
      let (ops, rest) = parse_txops (int_of_string n) r in
      cur := Some (P (tx_it, tx_full !s ops)); go rest
    | ["txiter"; "range"; lo; hi; n] :: r ->
      let (ops, rest) = parse_txops (int_of_string n) r in
      cur := Some (P (tx_range_it (opt_tok lo) (opt_tok hi), tx_range !s ops)); go rest
    | ["filt"; p; sfx] :: r ->
      (match !cur with
       | None -> failwith "filt without iterator"
       | Some (P (it, st)) ->
         let it1 = match opt_tok p with Some b when b <> [] -> filtered_iter it (prefix_filter b) | _ -> it in
         let it2 = match opt_tok sfx with Some b when b <> [] -> filtered_iter it1 (suffix_filter b) | _ -> it1 in
         cur := Some (P (it2, st)));
      go r
    | ["first"] :: r ->
      (match !cur with Some (P (it, st)) -> cur := Some (P (it, it.i_first st)) | None -> failwith "no iterator");
      show "first" None; go r
    | ["last"] :: r ->
      (match !cur with Some (P (it, st)) -> cur := Some (P (it, it.i_last st)) | None -> failwith "no iterator");
      show "last" None; go r
    | ["seek"; t] :: r ->
      let ret = (match !cur with
          | Some (P (it, st)) -> let (st', b) = it.i_seek (bytes_of_token t) st in cur := Some (P (it, st')); b
          | None -> failwith "no iterator") in
      show "seek" (Some ret); go r
    | ["next"] :: r ->
      let ret = (match !cur with
          | Some (P (it, st)) -> let (st', b) = it.i_next st in cur := Some (P (it, st')); b
          | None -> failwith "no iterator") in
      show "next" (Some ret); go r
    | ["scan"; l] :: r ->
      (match !cur with
       | Some (P (it, st)) ->
         let res = scan it (n_of_string l) st in
         Stdlib.List.iter (fun (k, v) -> pr ("s " ^ render k ^ " " ^ render v)) res;
         (* the harness scans with a fresh iterator of the same kind; the scripted one keeps its position *)
         pr (Printf.sprintf "S n=%d" (Stdlib.List.length res))
       | None -> failwith "no iterator");
      go r
    | l :: _ -> failwith ("C05: bad line: " ^ Stdlib.String.concat " " l) in
  (* header stack=1: explicit layers; the state is built directly (not by a program) *)
  let build_stack ls =
    let mems = ref [] and ssts = ref [] in
    let cur_mem = ref None and cur_sst = ref None in
    let close () =
      (match !cur_mem with Some m -> mems := m :: !mems | None -> ());
      (match !cur_sst with Some es -> ssts := Stdlib.List.rev es :: !ssts | None -> ());
      cur_mem := None; cur_sst := None in
    let rec loop ls =
      match ls with
      | ("iter" :: _) :: _ | [] -> close (); ls
      | ["mem"] :: r -> close (); cur_mem := Some Memtable.mt_empty; loop r
      | ["sst"] :: r -> close (); cur_sst := Some []; loop r
      | ["e"; k; v; q] :: r when !cur_mem <> None ->
        (match !cur_mem with Some m -> cur_mem := Some (Memtable.mt_put m (bytes_of_token k) (bytes_of_token v) (n_of_string q)) | None -> ()); loop r
      | ["t"; k; q] :: r when !cur_mem <> None ->
        (match !cur_mem with Some m -> cur_mem := Some (Memtable.mt_del m (bytes_of_token k) (n_of_string q)) | None -> ()); loop r
      | ["e"; k; v] :: r ->
        (match !cur_sst with Some es -> cur_sst := Some ({ sk = bytes_of_token k; sseq = n_of_int 0; sval = Some (bytes_of_token v) } :: es) | None -> failwith "entry before a layer"); loop r
      | ["t"; k] :: r ->
        (match !cur_sst with Some es -> cur_sst := Some ({ sk = bytes_of_token k; sseq = n_of_int 0; sval = None } :: es) | None -> failwith "entry before a layer"); loop r
      | l :: _ -> failwith ("C05 stack: bad line: " ^ Stdlib.String.concat " " l) in
    let rest = loop ls in
    let mems = Stdlib.List.rev !mems and ssts = Stdlib.List.rev !ssts in
    let active, imms = match mems with
      | a :: older -> a, Stdlib.List.rev (Stdlib.List.map Memtable.mt_set_imm older)   (* imms: oldest first *)
      | [] -> Memtable.mt_empty, [] in
    let tables = Stdlib.List.mapi (fun i es -> { s_level = n_of_int 0; s_num = n_of_int i; s_ts = n_of_int i; s_entries = es }) ssts in
    s := { !s with active = active; imms = imms; ssts = tables };
    rest in
  if Drv_c01.kv_of hdr "conc" "0" = "1" then pr "C conc"
  else if Drv_c01.kv_of hdr "stack" "0" = "1" then go (build_stack lines)
  else go lines
