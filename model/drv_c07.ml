(* C07: the "model" of a stress run is the lock table generated from the Go source
   (Locks.gen_accesses) together with the extracted decision procedure: a data race that the
   race detector reports between two functions the table covers must be a race the table
   predicts (one of the two functions has a row of a location without a common lock).  The
   runner therefore re-prints the harness' finding lines, marking the races the table cannot
   explain; any difference from the harness output is a model/implementation divergence (the
   static analysis missed something).  Crashes and hangs are echoed: the table says nothing
   about them. *)
let char_of_ascii (a : Ascii.ascii) : char =
  match a with
  | Ascii.Ascii (b0, b1, b2, b3, b4, b5, b6, b7) ->
    let v b k = if b then 1 lsl k else 0 in
    Char.chr (v b0 0 lor v b1 1 lor v b2 2 lor v b3 3 lor v b4 4 lor v b5 5 lor v b6 6 lor v b7 7)

let ocaml_of_coq (s : String0.string) : string =
  let b = Buffer.create 64 in
  let rec go = function
    | String0.EmptyString -> ()
    | String0.String (a, r) -> Buffer.add_char b (char_of_ascii a); go r in
  go s; Buffer.contents b

(* "pkg/engine/storage.(*Manager).Put.func1" and "engine/storage.(*Manager).Put$157" -> the same *)
let norm (f : string) : string =
  let f = if Stdlib.String.length f > 4 && Stdlib.String.sub f 0 4 = "pkg/" then Stdlib.String.sub f 4 (Stdlib.String.length f - 4) else f in
  let f = match Stdlib.String.index_opt f '$' with Some i -> Stdlib.String.sub f 0 i | None -> f in
  (* strip .funcN(.M)* and .gowrapN *)
  let cut_at pat f =
    let n = Stdlib.String.length pat and m = Stdlib.String.length f in
    let rec find i = if i + n > m then None else if Stdlib.String.sub f i n = pat then Some i else find (i + 1) in
    match find 0 with Some i -> Stdlib.String.sub f 0 i | None -> f in
  cut_at ".gowrap" (cut_at ".func" f)

let tables = lazy (
  let fns rows = Stdlib.List.map (fun r -> norm (ocaml_of_coq r.LockDiscipline.a_fn)) rows in
  let covered = Hashtbl.create 256 and flagged = Hashtbl.create 16 in
  Stdlib.List.iter (fun f -> Hashtbl.replace covered f ()) (fns Locks.gen_accesses);
  Stdlib.List.iter (fun f -> Hashtbl.replace flagged f ()) (fns (LockDiscipline.flagged_rows Locks.gen_accesses));
  (covered, flagged))

let run (id : string) (_hdr : string list) (_lines : string list list) (out : string -> unit) =
  let impl = try Hashtbl.find Kutil.impl_lines id with Not_found -> [] in
  let (covered, flagged) = Lazy.force tables in
  Stdlib.List.iter (fun toks ->
      match toks with
      | ("ORACLE" | "META" | "KF" | "NOTE" | "IMPL-ERROR" | "IMPL-PANIC") :: _ -> ()
      | "RACE" :: _ka :: fa :: _la :: "|" :: _kb :: fb :: _ ->
        let fa' = norm fa and fb' = norm fb in
        let cov f = Hashtbl.mem covered f and flg f = Hashtbl.mem flagged f in
        let explained = (not (cov fa') && not (cov fb')) || flg fa' || flg fb' in
        let line = Stdlib.String.concat " " toks in
        out (id ^ " " ^ (if explained then line else "UNEXPLAINED-BY-LOCK-TABLE " ^ line))
      | _ -> out (id ^ " " ^ Stdlib.String.concat " " toks)) impl
