(* C20: drive the extracted Config model (coq/Config.v) with the harness's case file; prints the
   observation lines of harness/c20.go.  The only logic outside the extracted model is the
   bookkeeping of the case (which WAL directories have been used, a key/value map per WAL
   directory so that "data written under another configuration is invisible" shows up in G). *)
open Kutil
open Config

let str_of_bytes = string_of_bytes
let z_to_string (z : BinNums.coq_Z) : string = str_of_bytes (enc_int z)

let z_of_string (s : string) : BinNums.coq_Z =
  let neg = String.length s > 0 && s.[0] = '-' in
  let digits = if neg then Stdlib.String.sub s 1 (Stdlib.String.length s - 1) else s in
  match coq_N_of_dec (bytes_of_string digits) with
  | BinNums.N0 -> BinNums.Z0
  | BinNums.Npos p -> if neg then BinNums.Zneg p else BinNums.Zpos p

let fval_of_text (t : string) : fval =
  match t with
  | "nan" -> FNaN
  | "+inf" -> FInf false
  | "-inf" -> FInf true
  | _ ->
    (match pnum (bytes_of_string t) with
     | Some (n, []) -> (match float_of_num n with Some f -> f | None -> failwith ("ratio out of range: " ^ t))
     | _ -> failwith ("bad ratio " ^ t))

let fcanon (f : fval) : string =
  match f with
  | FNaN -> "nan"
  | FInf neg -> if neg then "-inf" else "+inf"
  | FNum (neg, m, e) ->
    (if neg then "-" else "") ^ str_of_bytes (dec_of_N m) ^ "e" ^ z_to_string e

let dump (c : config) : string =
  Stdlib.String.concat " "
    (Stdlib.List.map (fun f ->
         str_of_bytes (name_of f) ^ "=" ^
         (match kind_of f with
          | KInt -> z_to_string (get_int f c)
          | KStr -> render (get_str f c)
          | KFloat -> fcanon c.c_compaction_ratio)) all_fields)

let fld_name f = str_of_bytes (name_of f)

let err_str (e : cerr) : string =
  match e with
  | ENotFound -> "err:notfound"
  | ENotFoundNonEmpty -> "err:nonempty"
  | EInvalidManifest -> "err:manifest"
  | EInvalidConfig f -> "err:config:" ^ fld_name f
  | EMarshal -> "err:marshal"

let outcome (r : config result) : string =
  match r with
  | Ok c -> "ok " ^ dump c
  | Err e -> err_str e

(* CRC-32 (IEEE) over OCaml strings, for the flipall digest *)
let crc_table = lazy (Array.init 256 (fun n ->
    let c = ref n in
    for _ = 0 to 7 do
      if !c land 1 = 1 then c := (!c lsr 1) lxor 0xEDB88320 else c := !c lsr 1
    done; !c))
let crc_update (crc : int) (s : string) : int =
  let t = Lazy.force crc_table in
  let c = ref crc in
  Stdlib.String.iter (fun ch -> c := t.((!c lxor Char.code ch) land 0xff) lxor (!c lsr 8)) s;
  !c

let field_of_name (n : string) : fld =
  match field_lookup (bytes_of_string n) with
  | Some f -> f
  | None -> failwith ("unknown field " ^ n)

let run (id : string) (_hdr : string list) (lines : string list list) (out : string -> unit) =
  let pr s = out (id ^ " " ^ s) in
  let dflt = default_config (bytes_of_string "$R/db/wal") (bytes_of_string "$R/db/sst") in
  let cfg = ref dflt in
  let dir = ref no_dir in
  let eng : config option ref = ref None in
  let used : string list ref = ref [] in
  let stores : (string, (string * string) list) Hashtbl.t = Hashtbl.create 4 in
  let print_dir () =
    let d = !dir in
    pr (Printf.sprintf "D exists=%d manifest=%s tmp=%d" (if d.d_exists then 1 else 0)
          (match d.d_manifest with None -> "none" | Some t -> render t)
          (match d.d_tmp with None -> 0 | Some _ -> 1)) in
  let set_manifest (m : BinNums.coq_N list option) =
    let d = !dir in
    dir := { d with d_manifest = m } in
  let with_manifest (f : BinNums.coq_N list -> unit) =
    match !dir.d_manifest with Some t -> f t | None -> () in
  let rec go ls =
    match ls with
    | [] -> ()
    | l :: r ->
      (match l with
       | ["default"] -> cfg := dflt
       | ["zero"] -> cfg := zero_config
       | ["int"; n; v] -> cfg := set_int (field_of_name n) (z_of_string v) !cfg
       | ["str"; n; t] -> cfg := set_str (field_of_name n) (bytes_of_token t) !cfg
       | ["ratio"; t] -> cfg := set_ratio (fval_of_text t) !cfg
       | ["validate"] ->
         pr ("V " ^ (match validate !cfg with None -> "ok" | Some f -> "err:" ^ fld_name f))
       | ["save"] ->
         let (res, d') = save !cfg !dir in
         dir := d';
         pr ("S " ^ (match res with Ok _ -> "ok" | Err e -> err_str e));
         print_dir ()
       | ["load"] -> pr ("L " ^ outcome (load !dir))
       | ["write"; t] ->
         dir := { (mkdir !dir) with d_manifest = Some (bytes_of_token t) };
         print_dir ()
       | ["writetmp"; t] ->
         dir := { (mkdir !dir) with d_tmp = Some (bytes_of_token t) };
         print_dir ()
       | ["trunc"; n] ->
         dir := truncate_manifest (nat_of_int (int_of_string n)) !dir;
         print_dir ()
       | ["flip"; off; bit] ->
         with_manifest (fun t ->
             set_manifest (Some (flip_bit (nat_of_int (int_of_string off)) (n_of_int (int_of_string bit)) t)));
         print_dir ()
       | ["rmmanifest"] -> set_manifest None; print_dir ()
       | ["truncall"] ->
         (match !dir.d_manifest with
          | None -> pr "T none"
          | Some t ->
            let n = Stdlib.List.length t in
            let ok = ref 0 in
            for k = 0 to n - 1 do
              match load_bytes (List.firstn (nat_of_int k) t) with
              | Ok _ -> incr ok
              | Err _ -> ()
            done;
            pr (Printf.sprintf "T n=%d ok=%d" n !ok))
       | ["flipall"] ->
         (match !dir.d_manifest with
          | None -> pr "F none"
          | Some t ->
            let n = Stdlib.List.length t in
            let crc = ref 0xFFFFFFFF in
            let n_ok = ref 0 and n_man = ref 0 and n_cfg = ref 0 in
            for i = 0 to n - 1 do
              for bit = 0 to 7 do
                let o = outcome (load_bytes (flip_bit (nat_of_int i) (n_of_int bit) t)) in
                (if Stdlib.String.length o >= 2 && Stdlib.String.sub o 0 2 = "ok" then incr n_ok
                 else if o = "err:manifest" then incr n_man
                 else if Stdlib.String.length o >= 10 && Stdlib.String.sub o 0 10 = "err:config" then incr n_cfg);
                crc := crc_update !crc (o ^ "\n")
              done
            done;
            pr (Printf.sprintf "F n=%d ok=%d manifest=%d config=%d digest=%08x" (8 * n) !n_ok !n_man !n_cfg
                  (!crc lxor 0xFFFFFFFF)))
       | ["open"] when (match load !dir with
                        | Ok c ->
                          let inside b =
                            let t = str_of_bytes b in
                            Stdlib.String.length t >= 3 && Stdlib.String.sub t 0 3 = "$R/" in
                          not (inside c.c_wal_dir && inside c.c_sst_dir)
                        | Err _ -> false) ->
         (* harness safety rule: an engine whose stored directories lie outside the scratch
            root (a tampered path) is never opened *)
         eng := None;
         pr "O unsafe-dirs"
       | ["open"] ->
         let (res, d') = open_db dflt !dir in
         dir := d';
         (match res with
          | Ok c ->
            pr "O ok";
            pr ("C " ^ dump c);
            eng := Some c;
            (* the storage manager creates its WAL/SSTable directories inside the database directory *)
            dir := { !dir with d_other = [ (c.c_wal_dir, []) ] };
            let w = str_of_bytes c.c_wal_dir in
            if not (Stdlib.List.mem w !used) then used := Stdlib.List.sort compare (w :: !used)
          | Err ENotFoundNonEmpty -> pr "O err:nonempty"; eng := None
          | Err EInvalidManifest -> pr "O err:manifest"; eng := None
          | Err (EInvalidConfig _) -> pr "O err:config"; eng := None
          | Err _ -> pr "O err:other"; eng := None);
         print_dir ();
         pr ("W " ^ Stdlib.String.concat "," !used)
       | ["put"; k; v] ->
         (match !eng with
          | None -> ()
          | Some c ->
            let w = str_of_bytes c.c_wal_dir in
            let st = try Hashtbl.find stores w with Not_found -> [] in
            let k = raw_of_token k in
            Hashtbl.replace stores w ((k, raw_of_token v) :: Stdlib.List.remove_assoc k st))
       | ["get"; k] ->
         (match !eng with
          | None -> pr "G noengine"
          | Some c ->
            let w = str_of_bytes c.c_wal_dir in
            let st = try Hashtbl.find stores w with Not_found -> [] in
            (match Stdlib.List.assoc_opt (raw_of_token k) st with
             | Some v -> pr ("G v:" ^ render (bytes_of_string v))
             | None -> pr "G notfound"))
       | ["close"] -> eng := None
       | "m2" :: _ -> ()
       | _ -> failwith ("C20: bad line: " ^ Stdlib.String.concat " " l));
      go r
  in
  pr "BEGIN";
  go lines
