(* C04: the model runner reads the harness OUTPUT (model_input = "impl"): recorded histories
   of the real transactions, one event per line
     <case> R <rep>
     <case> H <tx> <inv> <ret> begin ro|rw ok
     <case> H <tx> <inv> <ret> get K v:<hex>|notfound|closed
     <case> H <tx> <inv> <ret> put K V ok|readonly|closed
     <case> H <tx> <inv> <ret> del K ok|readonly|closed
     <case> H <tx> <inv> <ret> scan LO|* HI|* rows|closed n k1 v1 ... kn vn
     <case> H <tx> <inv> <ret> commit|rollback ok|closed
   and prints one verdict per case: ACCEPT n=<histories> | REJECT rep=<i> <why>, computed by the
   extracted, proved-sound Txn.ser_check (Txn.ser_why only words the rejection). *)
open Kutil
open Txn

let bound t = if t = "*" then None else Some (bytes_of_token t)

let rec rows n l = if n = 0 then [] else
    match l with k :: v :: r -> (bytes_of_token k, bytes_of_token v) :: rows (n - 1) r
               | _ -> failwith "C04: short scan row list"

let status = function
  | "ok" -> ROk | "readonly" -> RReadOnly | "closed" -> RClosed
  | s -> failwith ("C04: unknown status " ^ s)

let parse_call (l : string list) : call * result =
  match l with
  | ["begin"; "ro"; st] -> (CBegin RO, status st)
  | ["begin"; "rw"; st] -> (CBegin RW, status st)
  | ["get"; k; r] ->
    let res = if r = "notfound" then RVal None else if r = "closed" then RClosed
      else if Stdlib.String.length r >= 2 && Stdlib.String.sub r 0 2 = "v:" then
        RVal (Some (bytes_of_token (Stdlib.String.sub r 2 (Stdlib.String.length r - 2))))
      else failwith ("C04: bad get result " ^ r) in
    (CGet (bytes_of_token k), res)
  | ["put"; k; v; st] -> (CPut (bytes_of_token k, bytes_of_token v), status st)
  | ["del"; k; st] -> (CDel (bytes_of_token k), status st)
  | "scan" :: lo :: hi :: "rows" :: n :: rest -> (CScan (bound lo, bound hi), RRows (rows (int_of_string n) rest))
  | ["commit"; st] -> (CCommit, status st)
  | ["rollback"; st] -> (CRollback, status st)
  | _ -> failwith ("C04: bad event: " ^ Stdlib.String.concat " " l)

let parse_ev (l : string list) : hev =
  match l with
  | tx :: inv :: ret :: rest ->
    let (c, r) = parse_call rest in
    { h_tx = nat_of_int (int_of_string tx); h_call = c; h_res = r;
      h_inv = n_of_string inv; h_ret = n_of_string ret }
  | _ -> failwith "C04: short event"

let show_result = function
  | ROk -> "ok" | RClosed -> "closed" | RReadOnly -> "readonly"
  | RVal None -> "notfound" | RVal (Some v) -> "v:" ^ render v
  | RRows l -> "rows " ^ string_of_int (Stdlib.List.length l) ^
               Stdlib.String.concat "" (Stdlib.List.map (fun (k, v) -> " " ^ render k ^ " " ^ render v) l)

let show_why = function
  | WAccept -> "accept"
  | WDupBegin -> "a transaction id begins twice"
  | WNoBegin t -> Printf.sprintf "tx %d has calls but no begin" (int_of_nat t)
  | WClock t -> Printf.sprintf "tx %d: calls not sequential in time" (int_of_nat t)
  | WRealTime (a, b) -> Printf.sprintf "tx %d finished before tx %d began but acquired the lock later" (int_of_nat a) (int_of_nat b)
  | WRead (t, i, ex) -> Printf.sprintf "tx %d call #%d: serial execution in lock order returns %s" (int_of_nat t) (int_of_nat i)
                          (match ex with Some r -> show_result r | None -> "nothing (illegal call)")

(* lines of one case (without the case id) -> verdict *)
let verdict (lines : string list list) : string =
  let hists = ref [] and cur = ref None in
  let close () = match !cur with Some (rep, evs) -> hists := (rep, Stdlib.List.rev evs) :: !hists; cur := None | None -> () in
  Stdlib.List.iter (fun l ->
      match l with
      | ["R"; rep] -> close (); cur := Some (rep, [])
      | "H" :: rest -> (match !cur with
          | Some (rep, evs) -> cur := Some (rep, parse_ev rest :: evs)
          | None -> cur := Some ("0", [parse_ev rest]))
      | _ -> ()) lines;
  close ();
  let hs = Stdlib.List.rev !hists in
  if hs = [] then "REJECT no history recorded"
  else
    match Stdlib.List.find_opt (fun (_, h) -> not (ser_check [] h)) hs with
    | None -> Printf.sprintf "ACCEPT n=%d" (Stdlib.List.length hs)
    | Some (rep, h) -> Printf.sprintf "REJECT rep=%s %s" rep (show_why (ser_why [] h))

(* standard runner signature (case file = a history written as a case: used by --replay of a
   recorded history) *)
let run (id : string) (_hdr : string list) (lines : string list list) (out : string -> unit) =
  out (id ^ " " ^ verdict lines)

(* harness-output format: "<case id> <tokens>"; group by case id in order of appearance *)
let main (file : string) =
  let ic = open_in file in
  let order = ref [] and tbl = Hashtbl.create 64 in
  (try
     while true do
       match split_ws (input_line ic) with
       | id :: rest ->
         if not (Hashtbl.mem tbl id) then (order := id :: !order; Hashtbl.add tbl id (ref []));
         let r = Hashtbl.find tbl id in r := rest :: !r
       | [] -> ()
     done
   with End_of_file -> ());
  Stdlib.List.iter (fun id ->
      let lines = Stdlib.List.rev !(Hashtbl.find tbl id) in
      let v = try verdict lines with Failure m -> "MODEL-ERROR " ^ m in
      print_string (id ^ " " ^ v ^ "\n")) (Stdlib.List.rev !order)
