(* C11, byte level: layout / xxh / footer / corrupt (Block.v, SSTFile.v) *)
open Kutil

let xxh (_t : string) : string = "unimplemented"
let footer (_args : string list) : string = "unimplemented"
let layout (pr : string -> unit) (_bloom : bool) (_es : Engine.sentry list) : unit = pr "R unimplemented"
let corrupt (pr : string -> unit) (_bloom : bool) (_es : Engine.sentry list) (_args : string list) : unit = pr "C unimplemented"
