(* C11, byte level: layout / xxh / footer / block scripts / corruption (Xxhash.v, Block.v, SSTFile.v) *)
open Kutil
open BinNums
open Engine
open SSTable

let b01 b = if b then 1 else 0
let blen l = Stdlib.List.length l

let xxh (t : string) : string = n_to_string (Xxhash.xxh64 (bytes_of_token t))

let footer (args : string list) : string =
  match Stdlib.List.map n_of_string args with
  | [ts; io; is; ne; bo; bs] -> hex_of_raw (string_of_bytes (SSTFile.enc_footer ts io is ne bo bs))
  | _ -> failwith "footer: 6 numbers expected"

(* CRC-32 of a string, for the digests of rendered observations (same polynomial as Go's
   hash/crc32 IEEE; computed natively here, the proof-relevant hashing is in the model) *)
let crc_table = lazy (Array.init 256 (fun n ->
    let c = ref n in
    for _ = 0 to 7 do
      if !c land 1 = 1 then c := 0xEDB88320 lxor (!c lsr 1) else c := !c lsr 1
    done; !c))
let crc_string (s : string) : int =
  let t = Lazy.force crc_table in
  let c = ref 0xFFFFFFFF in
  Stdlib.String.iter (fun ch -> c := t.((!c lxor Char.code ch) land 0xff) lxor (!c lsr 8)) s;
  !c lxor 0xFFFFFFFF

let crc_hex (l : coq_N list) = Printf.sprintf "%08x" (crc_string (string_of_bytes l))

(* Kutil.render with the native CRC: "-" | hex (<= 48 bytes) | #len:crc32 *)
let render (l : coq_N list) : string =
  let n = Stdlib.List.length l in
  if n = 0 then "-"
  else if n <= 48 then hex_of_raw (string_of_bytes l)
  else Printf.sprintf "#%d:%08x" n (crc_string (string_of_bytes l))

let val_str v = match v with None -> "~" | Some b -> render b
let entry_str (e : sentry) = Printf.sprintf "%s %s %s" (render e.sk) (n_to_string e.sseq) (val_str e.sval)

(* ---- the pristine file, computed once per case ---- *)
type pristine = { parts : SSTFile.fparts; bytes : coq_N list }
let cache : (string, pristine option) Hashtbl.t = Hashtbl.create 4

let pristine id bloom (es : sentry list) : pristine option =
  match Hashtbl.find_opt cache id with
  | Some p -> p
  | None ->
    let p = match SSTFile.file_parts bloom N0 es with
      | Some parts -> Some { parts; bytes = SSTFile.parts_bytes parts }
      | None -> None in
    Hashtbl.reset cache; Hashtbl.replace cache id p; p

let layout (id : string) (pr : string -> unit) (bloom : bool) (es : sentry list) : unit =
  match pristine id bloom es with
  | None -> pr "R err"
  | Some { parts; _ } ->
    let off = ref 0 in
    (* like the harness: the data regions are found through the index block (every entry whose key
       is not nil, valid or not), then cut out of the file bytes *)
    let file = SSTFile.parts_bytes parts in
    (match Block.new_reader parts.fp_index with
     | Datatypes.Coq_inr _ -> ()
     | Datatypes.Coq_inl r ->
       let it = ref (Block.it_seek_first r Block.it_new) in
       let j = ref 0 in
       let continue = ref true in
       while !continue do
         match Block.it_entry !it with
         | None -> continue := false
         | Some e ->
           (match SSTFile.parse_locator e.sval with
            | Some (o, sz) ->
              let b = Block.slice file o sz in
              pr (Printf.sprintf "R data%d %d %d %s" !j (int_of_n o) (int_of_n sz) (crc_hex b));
              off := int_of_n o + int_of_n sz
            | None -> continue := false);
           incr j;
           it := fst (Block.it_next r !it)
       done);
    off := Stdlib.List.fold_left (fun a (_, b) -> a + blen b) 0 parts.fp_blocks;
    if parts.fp_filters <> [] then begin
      let fb = SSTFile.filters_bytes parts.fp_filters in
      pr (Printf.sprintf "R filters %d %d %s" !off (blen fb) (crc_hex fb));
      Stdlib.List.iter (fun (o, b) ->
          pr (Printf.sprintf "R filter blockoffset=%d size=%d" (int_of_n o) (blen b))) parts.fp_filters;
      off := !off + blen fb
    end;
    pr (Printf.sprintf "R index %d %d %s" !off (blen parts.fp_index) (crc_hex parts.fp_index));
    off := !off + blen parts.fp_index;
    let f = Stdlib.Bytes.of_string (string_of_bytes parts.fp_footer) in
    for i = 12 to 19 do Stdlib.Bytes.set f i '\000' done;
    for i = 60 to 67 do Stdlib.Bytes.set f i '\000' done;
    pr (Printf.sprintf "R footer %d %d %s" !off (Stdlib.Bytes.length f) (hex_of_raw (Stdlib.Bytes.to_string f)))

(* ---- block scripts: an iterator over data block j or the index block ("i") ---- *)
type blk_state = { rd : Block.breader; mutable it : Block.bit }
let blk : blk_state option ref = ref None

let bit_str (it : Block.bit) =
  if Block.it_valid it then (match Block.it_entry it with Some e -> entry_str e | None -> "-") else "-"

let block_op (id : string) (pr : string -> unit) (bloom : bool) (es : sentry list) (l : string list) : unit =
  match l with
  | ["bit"; j] ->
    (match pristine id bloom es with
     | None -> pr "Q err"
     | Some { parts; _ } ->
       let bytes = if j = "i" then parts.fp_index
         else snd (Stdlib.List.nth parts.fp_blocks (int_of_string j)) in
       (match Block.new_reader bytes with
        | Datatypes.Coq_inl r -> blk := Some { rd = r; it = Block.it_new }; pr ("Q bit " ^ j ^ " ok")
        | Datatypes.Coq_inr _ -> blk := None; pr ("Q bit " ^ j ^ " err")))
  | op :: rest ->
    (match !blk with
     | None -> pr ("Q " ^ op ^ " noblock")
     | Some st ->
       let ret =
         match op, rest with
         | "bfirst", [] -> st.it <- Block.it_seek_first st.rd st.it; "-"
         | "blast", [] -> st.it <- Block.it_seek_last st.rd st.it; "-"
         | "bnext", [] -> let (i, ok) = Block.it_next st.rd st.it in st.it <- i; string_of_int (b01 ok)
         | "bseek", [t] -> let (i, ok) = Block.it_seek st.rd st.it (bytes_of_token t) in st.it <- i; string_of_int (b01 ok)
         | "bprev", [t] -> let (i, ok) = Block.it_seek_prev st.rd st.it (bytes_of_token t) in st.it <- i; string_of_int (b01 ok)
         | _ -> failwith ("C11: bad block op " ^ op) in
       pr (Printf.sprintf "Q %s ret=%s valid=%d %s" op ret (b01 (Block.it_valid st.it)) (bit_str st.it)))
  | [] -> ()

(* ---- corruption ---- *)

let oerr_str (e : SSTFile.oerr) =
  match e with
  | SSTFile.ETooSmall -> "err:toosmall"
  | SSTFile.EMagic -> "err:magic"
  | SSTFile.EFooterSum -> "err:checksum"
  | SSTFile.EStructure -> "err:structure"
  | SSTFile.EIndex Block.BChecksum -> "err:checksum"
  | SSTFile.EIndex Block.BTooSmall -> "err:toosmall"
  | SSTFile.EIndex Block.BRestarts -> "err:restarts"
  | SSTFile.EBloomSize -> "err:bloomsize"

let mode_byte (mode : string) (off : int) (old : int) : int =
  match mode with
  | "x" -> old lxor (1 lsl ((off * 7 + 3) mod 8))
  | "z" -> 0
  | "o" -> 255
  | "i" -> (old + 1) land 255
  | "n" -> old
  | _ -> failwith ("C11: bad corruption mode " ^ mode)

(* observations of one opened (possibly altered) file: full scan, then for every probe a Get
   and a Seek *)
let observe (tb : table) (nes : int) (probes : coq_N list list) : string =
  let buf = Buffer.create 256 in
  let i = ref (ti_seek_first tb) in
  let n = ref 0 in
  let acc = Buffer.create 1024 in
  while ti_valid tb !i && !n <= nes + 8 do
    (match ti_cur tb !i with Some e -> Buffer.add_string acc (entry_str e); Buffer.add_char acc '\n' | None -> ());
    incr n;
    i := fst (ti_next tb !i)
  done;
  Buffer.add_string buf (Printf.sprintf "scan=%d:%08x:%d" !n (crc_string (Buffer.contents acc)) (b01 !i.ti_err));
  Stdlib.List.iter (fun k ->
      let g = match t_get tb k with
        | GNotFound -> "n" | GTomb -> "t" | GErr -> "e"
        | GVal v -> Printf.sprintf "v%08x" (crc_string (render v)) in
      let (it, ok) = ti_seek tb k in
      let s = match ti_cur tb it with
        | Some e -> Printf.sprintf "%08x" (crc_string (entry_str e))
        | None -> "-" in
      Buffer.add_string buf (Printf.sprintf " g=%s s=%d%s:%d" g (b01 ok) s (b01 it.ti_err))) probes;
  Buffer.contents buf

let corrupt_one pr (p : pristine) (nes : int) (probes : coq_N list list) (off : int) (mode : string) : unit =
  let old = int_of_n (Stdlib.List.nth p.bytes off) in
  let nb = mode_byte mode off old in
  if nb = old && mode <> "n" then pr (Printf.sprintf "C %d %s same" off mode)
  else begin
    let d = SSTFile.upd p.bytes (nat_of_int off) (n_of_int nb) in
    match SSTFile.read_file d with
    | Datatypes.Coq_inr e -> pr (Printf.sprintf "C %d %s open=%s" off mode (oerr_str e))
    | Datatypes.Coq_inl tb -> pr (Printf.sprintf "C %d %s open=ok %s" off mode (observe tb nes probes))
  end

let probes_of (lines : string list list) : coq_N list list =
  Stdlib.List.filter_map (fun l -> match l with ["probe"; k] -> Some (bytes_of_token k) | _ -> None) lines

let corrupt (id : string) (pr : string -> unit) (bloom : bool) (es : sentry list) (probes : coq_N list list) (args : string list) : unit =
  match pristine id bloom es with
  | None -> pr "C err"
  | Some p ->
    let nes = Stdlib.List.length es in
    let size = blen p.bytes in
    (match args with
     | ["at"; off; mode] -> if int_of_string off < size then corrupt_one pr p nes probes (int_of_string off) mode
     | ["frac"; f; mode] -> corrupt_one pr p nes probes (size * int_of_string f / 10000) mode
     | ["all"; start; stride; modes] ->
       let off = ref (int_of_string start) in
       while !off < size do
         Stdlib.String.iter (fun m -> corrupt_one pr p nes probes !off (Stdlib.String.make 1 m)) modes;
         off := !off + int_of_string stride
       done
     | _ -> failwith "C11: bad corrupt line")
