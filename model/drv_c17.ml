(* C17: drive the Registry model (transaction lock, registry, begin hand-off, cleanup over a
   logical clock) with the harness's program; see harness/c17.go for the case format. *)
open Kutil
open Registry

let kv_of = Drv_c01.kv_of

let res_str (r : res) = match r with
  | ROk -> "ok" | RWait -> "wait" | RClosed -> "closed" | RNotFound -> "txnotfound"
  | RTimeout -> "timeout" | RReadOnly -> "readonly" | RInvalid -> "invalid" | RFail -> "fail"
  | RNoHandle -> "nohandle" | RBusy -> "busy" | RPanic -> "panic"

let probe_client = 99
let probe_key = 9

let run (id : string) (hdr : string list) (lines : string list list) (out : string -> unit) =
  let pr x = out (id ^ " " ^ x) in
  let impl0 = try Hashtbl.find impl_lines id with Not_found -> [] in
  if kv_of hdr "kind" "prog" = "race" then pr "X race"
  else if Stdlib.List.exists (function "NOTE" :: "ambiguous-timing" :: _ -> true | _ -> false) impl0 then
    pr "X skipped"   (* the harness found no run of this case free of timing ambiguity *)
  else begin
    (* the times the harness noted for this run (NOTE scale / NOTE t lines of its output): the
       model's clock is moved to the noted instant before each line; limits are in scaled units *)
    let impl = try Hashtbl.find impl_lines id with Not_found -> [] in
    let scale = Stdlib.List.fold_left (fun a l -> match l with ["NOTE"; "scale"; x] -> int_of_string x | _ -> a) 1 impl in
    let times = ref (Stdlib.List.filter_map (fun l -> match l with ["NOTE"; "t"; x] -> Some (int_of_string x) | _ -> None) impl) in
    let num k d = n_of_int (scale * int_of_string (kv_of hdr k d)) in
    let cfg = { c_idle = num "idle" "150"; c_ttl_ro = num "ttlro" "650"; c_ttl_rw = num "ttlrw" "450";
                c_btimeout = (match kv_of hdr "bt" "" with
                              | "" -> RegFacts.registry_begin_timeout_ms   (* the literal in the source *)
                              | x -> n_of_int (int_of_string x));
                c_svc = (kv_of hdr "svc" "0" = "1"); c_peer = (kv_of hdr "peer" "1" = "1") } in
    let s = ref init in
    let ni x = n_of_int (int_of_string x) in
    let nd x = n_of_int (scale * int_of_string x) in
    let print_out (o : out) = match o with
      | OBegin (c, r) -> pr (Printf.sprintf "B %d %s" (int_of_n c) (res_str r))
      | OAsync (c, r) -> pr (Printf.sprintf "A %d %s" (int_of_n c) (res_str r))
      | ORes (c, r) -> pr (Printf.sprintf "R %d %s" (int_of_n c) (res_str r))
      | OGet (c, ROk, Some v) -> pr (Printf.sprintf "G %d v:%d" (int_of_n c) (int_of_n v))
      | OGet (c, ROk, None) -> pr (Printf.sprintf "G %d notfound" (int_of_n c))
      | OGet (c, r, _) -> pr (Printf.sprintf "G %d %s" (int_of_n c) (res_str r))
      | OMaint r -> pr ("M " ^ res_str r) in
    (* the answer to the call first, then the Begins it let through, by client *)
    let emit (outs : out list) =
      let is_async = function OAsync _ -> true | _ -> false in
      let own = Stdlib.List.filter (fun o -> not (is_async o)) outs in
      let asy = Stdlib.List.filter is_async outs in
      let key = function OAsync (c, _) -> int_of_n c | _ -> 0 in
      let asy = Stdlib.List.stable_sort (fun a b -> compare (key a) (key b)) asy in
      Stdlib.List.iter print_out own; Stdlib.List.iter print_out asy in
    let ev e = let (s', o) = step cfg !s e in s := s'; o in
    let state_line () =
      pr (Printf.sprintf "S reg=%d lock=%s" (int_of_n (reg_size !s))
            (match lock_state !s with LFree -> "free" | LRead -> "read" | LWrite -> "write")) in
    (* move the clock to the noted time (without notes: `sleep N` advances by N) *)
    let advance () =
      match !times with
      | t :: rest ->
        times := rest;
        let cur = int_of_n !s.now in
        if t > cur then ev (ETick (n_of_int (t - cur))) else []
      | [] -> [] in
    let noted = !times <> [] in
    let do_ev e = let o0 = advance () in emit (o0 @ ev e); state_line () in
    (* before a Begin through the service the harness runs CleanupStaleTransactions itself and
       lets the goroutines it wakes run (then the service runs it again inside the call) *)
    let pre_begin c =
      if cfg.c_svc && not (has_pending c !s) then begin
        (* repeated until the set of registered transactions no longer changes *)
        let acc = ref [] in
        let continue = ref true and rounds = ref 0 in
        while !continue && !rounds < 50 do
          let before = Stdlib.List.map (fun (r : rent) -> r.r_id) !s.reg in
          let o = ev EStale in
          acc := !acc @ Stdlib.List.filter (function OMaint _ -> false | _ -> true) o;
          incr rounds;
          if Stdlib.List.map (fun (r : rent) -> r.r_id) !s.reg = before then continue := false
        done;
        !acc
      end else [] in
    let rec go ls =
      match ls with
      | [] -> ()
      | ["begin"; c; m; d] :: r ->
        let o0 = advance () in
        let o1 = pre_begin (ni c) in
        let o2 = ev (EBegin (ni c, (m = "ro"), nd d)) in
        emit (o0 @ o1 @ o2); state_line (); go r
      | ["get"; c; k] :: r -> do_ev (EGet (ni c, ni k)); go r
      | ["scan"; c] :: r -> do_ev (EGet (ni c, n_of_int 99)); go r   (* by handle, no rows: activity like a get *)
      | ["put"; c; k; v] :: r -> do_ev (EPut (ni c, ni k, ni v)); go r
      | ["del"; c; k] :: r -> do_ev (EDel (ni c, ni k)); go r
      | ["commit"; c] :: r -> do_ev (ECommit (ni c)); go r
      | ["rollback"; c] :: r -> do_ev (ERollback (ni c)); go r
      | ["oget"; c; k] :: r -> do_ev (EOGet (ni c, ni k)); go r
      | ["oput"; c; k; v] :: r -> do_ev (EOPut (ni c, ni k, ni v)); go r
      | ["odel"; c; k] :: r -> do_ev (EODel (ni c, ni k)); go r
      | ["ocommit"; c] :: r -> do_ev (EOCommit (ni c)); go r
      | ["orollback"; c] :: r -> do_ev (EORollback (ni c)); go r
      | ["remove"; c] :: r -> do_ev (ERemove (ni c)); go r
      | ["abandon"; _] :: r -> go r
      | ["sleep"; n] :: r ->
        if noted then (let o0 = advance () in emit o0; state_line ()) else do_ev (ETick (nd n)); go r
      | ["stale"] :: r -> do_ev EStale; go r
      | ["cleanconn"; c] :: r -> do_ev (ECleanConn (ni c)); go r
      | ["shutdown"] :: r -> do_ev EShutdown; go r
      | ["shutdown"; "expired"] :: r -> do_ev EShutdown; go r   (* the context does not matter for the outcome *)
      | ["failnext"] :: r -> do_ev EFailNext; go r
      | ["oneshot"; c; kind; k; v] :: r ->
        (* a BatchWrite of the service: ok / del carry the one operation put K V / delete K (with the
           empty key, K = 0, that operation itself is the one the service rejects); the other kinds
           carry put K V and then an operation the service rejects *)
        let valid = int_of_string k <> 0 in
        let e = match kind with
          | "ok" -> EOneShot (ni c, valid, ni k, Some (ni v))
          | "del" -> EOneShot (ni c, valid, ni k, None)
          | "emptykey" | "longkey" | "badtype" | "bigvalue" | "scanabort" | "compactfail" -> EOneShot (ni c, false, ni k, Some (ni v))
          | _ -> failwith ("C17: bad oneshot kind: " ^ kind) in
        do_ev e; go r
      | ["probe"] :: r ->
        let c = n_of_int probe_client in
        let o0 = advance () in
        let o1 = pre_begin c in
        let o2 = ev (EBegin (c, false, n_of_int 0)) in
        let o = o0 @ o1 @ o2 in
        let granted = Stdlib.List.exists (function OBegin (_, ROk) -> true | _ -> false) o in
        let rest = Stdlib.List.filter (function OBegin _ -> false | _ -> true) o in
        if granted then begin
          let o2 = ev (EPut (c, n_of_int probe_key, n_of_int 1)) in
          let o3 = ev (ECommit c) in
          let ok = Stdlib.List.for_all (function ORes (_, ROk) -> true | ORes _ -> false | _ -> true) (o2 @ o3) in
          pr (if ok then "P ok" else "P failed");
          emit (rest @ Stdlib.List.filter (function ORes _ -> false | _ -> true) (o2 @ o3))
        end else begin
          pr "P blocked"; emit rest
        end;
        state_line (); go r
      | ["dump"] :: r ->
        let keys = Stdlib.List.init 10 (fun i -> i) in
        let kvs = Stdlib.List.filter_map (fun k ->
            match db_get (n_of_int k) !s.db with Some v -> Some (k, int_of_n v) | None -> None) keys in
        pr (Printf.sprintf "D n=%d" (Stdlib.List.length kvs));
        Stdlib.List.iter (fun (k, v) -> pr (Printf.sprintf "d %d %d" k v)) kvs;
        go r
      | l :: _ -> failwith ("C17: bad line: " ^ Stdlib.String.concat " " l) in
    go lines
  end
