(* C01/C08: drive the Engine model with the harness's program *)
open Kutil
open Engine
open Memtable

let kv_of hdr key dflt =
  let pre = key ^ "=" in
  let n = Stdlib.String.length pre in
  match Stdlib.List.find_opt (fun t -> Stdlib.String.length t > n && Stdlib.String.sub t 0 n = pre) hdr with
  | Some t -> Stdlib.String.sub t n (Stdlib.String.length t - n)
  | None -> dflt

let render_opt v = match v with None -> "notfound" | Some b -> "v:" ^ render b

let compacted = ref false

let layer_lines pr (s : st) =
  let mem kind (m : memtable) =
    let es = mt_iter_entries m in
    pr (Printf.sprintf "L %s n=%d" kind (Stdlib.List.length es));
    Stdlib.List.iter (fun (e : mentry) ->
        pr (Printf.sprintf "l %s %s %s %s" (render e.mk) (n_to_string e.mseq)
              (match e.mkind with KDel -> "del" | KVal -> "val") (render e.mval))) es in
  mem "active" s.active;
  Stdlib.List.iter (mem "immutable") (Stdlib.List.rev s.imms);
  if not !compacted then
  Stdlib.List.iter (fun (t : sst) ->
      pr (Printf.sprintf "L sst n=%d" (Stdlib.List.length t.s_entries));
      Stdlib.List.iter (fun (e : sentry) ->
          pr (Printf.sprintf "l %s %s %s %s" (render e.sk) (n_to_string e.sseq)
                (match e.sval with None -> "del" | Some _ -> "val")
                (match e.sval with None -> "-" | Some v -> render v))) t.s_entries)
    (Stdlib.List.rev s.ssts)

let parse_bops n lines =
  let rec take k l acc = if k = 0 then (Stdlib.List.rev acc, l) else
      match l with x :: t -> take (k-1) t (x :: acc) | [] -> failwith "short batch" in
  let (ops, rest) = take n lines [] in
  (Stdlib.List.map (fun l -> match l with
       | ["p"; k; v] -> (bytes_of_token k, Some (bytes_of_token v))
       | ["d"; k] -> (bytes_of_token k, None)
       | _ -> failwith "bad batch op") ops, rest)

(* the entries of an mbatch line: at most n of the directly following m/p/d lines (as the harness) *)
let parse_mops n lines =
  let rec take k l acc =
    if k = 0 then (Stdlib.List.rev acc, l) else
      match l with
      | ["m"; key; v] :: t -> take (k-1) t ((bytes_of_token key, EMerge (bytes_of_token v)) :: acc)
      | ["p"; key; v] :: t -> take (k-1) t ((bytes_of_token key, EPut (bytes_of_token v)) :: acc)
      | ["d"; key] :: t -> take (k-1) t ((bytes_of_token key, EDel) :: acc)
      | _ -> (Stdlib.List.rev acc, l) in
  take n lines []

(* Some pairs when every entry is a merge operand *)
let merge_pairs ops =
  if Stdlib.List.for_all (fun (_, kd) -> match kd with EMerge _ -> true | _ -> false) ops
  then Some (Stdlib.List.map (fun (k, kd) -> match kd with EMerge v -> (k, v) | _ -> (k, [])) ops)
  else None

let run (id : string) (hdr : string list) (lines : string list list) (out : string -> unit) =
  if kv_of hdr "mode" "seq" = "sched" then () else
  let c = { c_memsize = n_of_string (kv_of hdr "memsize" "4096"); c_maxmem = n_of_string (kv_of hdr "maxmem" "1000") } in
  let s = ref (init c) in
  compacted := false;
  let pr x = out (id ^ " " ^ x) in
  let wr (s', r) = s := s';
    (match r with
     | WrOk _ -> pr ("W ok last=" ^ n_to_string !s.last_seq)
     | WrOverflow -> pr "W err:overflow") in
  let rec go ls =
    match ls with
    | [] -> ()
    | _ when !s.lost_log -> ()
    | ["put"; k; v] :: r -> wr (put !s (bytes_of_token k) (bytes_of_token v)); go r
    | ["del"; k] :: r -> wr (del !s (bytes_of_token k)); go r
    | ["get"; k] :: r -> pr ("G " ^ render_opt (get !s (bytes_of_token k))); go r
    | ["batch"; n] :: r -> let (ops, rest) = parse_bops (int_of_string n) r in wr (apply_batch !s ops); go rest
    | ["mbatch"; n] :: r -> let (ops, rest) = parse_mops (int_of_string n) r in
      (match merge_pairs ops with
       | Some es -> wr (merge_batch !s es)
       | None -> wr (mixed_batch !s ops));
      go rest
    | ["commit"; n] :: r -> let (ops, rest) = parse_bops (int_of_string n) r in wr (tx_commit !s ops); go rest
    | ["rollback"; n] :: r -> let (_, rest) = parse_bops (int_of_string n) r in pr "T rolledback"; go rest
    | ["flush"] :: r -> s := flush !s; go r
    | ["reopen"] :: r -> s := reopen !s;
      if !s.lost_log then pr "X lostlog" else pr ("O last=" ^ n_to_string !s.last_seq); go r
    | ("compact" :: _) :: r -> compacted := true; go r
    | ["layers"] :: r -> layer_lines pr !s; go r
    | l :: _ -> failwith ("C01: bad line: " ^ Stdlib.String.concat " " l) in
  go lines;
  if not !s.lost_log then pr ("N " ^ n_to_string !s.wal_next)
