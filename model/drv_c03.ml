(* C03: transactions are all-or-nothing.
   mode=seq   the Engine model runs the program (transactions = tx_commit of the body's
              put/delete operations; rollback / abandoned / failed commit = nothing) and prints
              the same observation lines as the harness;
   mode=conc  the recorded history (NOTE H / NOTE O lines of the harness output) is judged by the
              extracted checker TxnAtomic.atomic_check: "V accept" / "V reject ...";
   mode=crash as C02 (log files cut at the surviving lengths reported by the harness);
   mode=torn  the encoded newest log file is cut at every offset the harness tried (T lines),
              replayed (WalCodec) and recovered (Engine.reopen);
   mode=gate  oracle only. *)
open Kutil
open Engine

let rec firstn n l = if n = 0 then [] else match l with [] -> [] | x :: r -> x :: firstn (n - 1) r

let parse_body n lines =
  let rec take k l acc = if k = 0 then (Stdlib.List.rev acc, l) else
      match l with x :: t -> take (k-1) t (x :: acc) | [] -> failwith "short tx body" in
  take n lines []

let run_seq id hdr lines out =
  let c = { c_memsize = n_of_string (Drv_c01.kv_of hdr "memsize" "4096"); c_maxmem = n_of_int 1000 } in
  let s = ref (init c) in
  let pr x = out (id ^ " " ^ x) in
  let keys = Hashtbl.create 16 in
  let addk k = Hashtbl.replace keys (string_of_bytes k) () in
  let wr (s', r) = s := s';
    (match r with
     | WrOk _ -> pr ("W ok last=" ^ n_to_string !s.last_seq)
     | WrOverflow -> pr "W err:overflow") in
  let reopen_ () = s := reopen !s; pr ("O last=" ^ n_to_string !s.last_seq) in
  let rec go ls =
    match ls with
    | [] -> ()
    | ["put"; k; v] :: r -> let k = bytes_of_token k in addk k; wr (put !s k (bytes_of_token v)); go r
    | ["del"; k] :: r -> let k = bytes_of_token k in addk k; wr (del !s k); go r
    | ["get"; k] :: r -> pr ("G " ^ Drv_c01.render_opt (get !s (bytes_of_token k))); go r
    | ["batch"; n] :: r ->
      let (ops, rest) = Drv_c01.parse_bops (int_of_string n) r in
      Stdlib.List.iter (fun (k, _) -> addk k) ops;
      wr (apply_batch !s ops); go rest
    | ["flush"] :: r -> s := flush !s; go r
    | ["reopen"] :: r -> reopen_ (); go r
    | ["tx"; n; how] :: r ->
      let (body, rest) = parse_body (int_of_string n) r in
      (* the body, with reads answered from the transaction's own writes first *)
      let ops = ref [] in
      Stdlib.List.iter (fun l ->
          match l with
          | ["p"; k; v] -> let k = bytes_of_token k in addk k; ops := !ops @ [(k, Some (bytes_of_token v))]
          | ["d"; k] -> let k = bytes_of_token k in addk k; ops := !ops @ [(k, None)]
          | ["g"; k] ->
            let k = bytes_of_token k in
            let own = Stdlib.List.fold_left (fun acc (k', v) -> if k' = k then Some v else acc) None !ops in
            let v = (match own with Some v -> v | None -> get !s k) in
            pr ("TG " ^ Drv_c01.render_opt v)
          | _ -> failwith "C03: bad tx body line") body;
      (match how with
       | "commit" -> wr (tx_commit !s !ops)
       | "rollback" -> pr "T rolledback"
       | "rollback_commit" -> pr "T rolledback again=closed"
       | "abandon" -> pr "T abandoned"; reopen_ ()
       | "commit_closed" ->
         (match buffer_ops !ops with
          | [] -> pr "T commitempty"
          | _ -> pr "T commitfailed");
         reopen_ ()
       | _ -> failwith "C03: bad tx end");
      go rest
    | l :: _ -> failwith ("C03: bad line: " ^ Stdlib.String.concat " " l) in
  go lines;
  pr ("N " ^ n_to_string !s.wal_next);
  let keylist = Stdlib.List.sort compare (Hashtbl.fold (fun k () acc -> k :: acc) keys []) in
  pr ("S" ^ Stdlib.String.concat "" (Stdlib.List.filter_map (fun k ->
      match get !s (bytes_of_string k) with
      | Some v -> Some (" " ^ render (bytes_of_string k) ^ "=" ^ render v)
      | None -> None) keylist))

(* ---- mode=conc: the history checker ---- *)
let split_commas s = Stdlib.List.filter (fun x -> x <> "") (Stdlib.String.split_on_char ',' s)
let conc_key i = bytes_of_string (Printf.sprintf "k%04d" i)
let conc_val st = bytes_of_string (Printf.sprintf "s%07d" st)

let run_conc id out =
  let pr x = out (id ^ " " ^ x) in
  let impl = try Hashtbl.find impl_lines id with Not_found -> [] in
  let hist = ref [] and obs = ref [] in
  Stdlib.List.iter (fun l ->
      match l with
      | "NOTE" :: "H" :: stamp :: via :: kind :: rest ->
        let keys = match rest with [ks] -> split_commas ks | _ -> [] in
        let st = int_of_string stamp in
        let ops = Stdlib.List.map (fun k ->
            (conc_key (int_of_string k), if kind = "del" then None else Some (conc_val st))) keys in
        hist := ((if via = "tx" then TxnAtomic.KTx else TxnAtomic.KDirect), ops) :: !hist
      | ["NOTE"; "O"; mode; lo; hi; reads] ->
        let md = (match mode with
            | "section" -> TxnAtomic.MSection | "rotx" -> TxnAtomic.MRoTx
            | "each" -> TxnAtomic.MEach | _ -> TxnAtomic.MFree) in
        let rs = Stdlib.List.map (fun kv ->
            match Stdlib.String.split_on_char '=' kv with
            | [k; st] ->
              let st = int_of_string st in
              (conc_key (int_of_string k),
               if st = 0 then None else if st < 0 then Some (bytes_of_string "?") else Some (conc_val st))
            | _ -> failwith "C03: bad read") (split_commas reads) in
        obs := { TxnAtomic.o_mode = md; o_lo = nat_of_int (int_of_string lo);
                 o_hi = nat_of_int (int_of_string hi); o_reads = rs } :: !obs
      | _ -> ()) impl;
  let h = Stdlib.List.rev !hist and os = Stdlib.List.rev !obs in
  match TxnAtomic.first_reject h os Datatypes.O with
  | None -> pr "V accept"
  | Some i ->
    let o = Stdlib.List.nth os (int_of_nat i) in
    pr (Printf.sprintf "V reject observation %d (window %d..%d, %d reads): no write-granular prefix of the %d recorded batches explains it"
          (int_of_nat i) (int_of_nat o.TxnAtomic.o_lo) (int_of_nat o.TxnAtomic.o_hi)
          (Stdlib.List.length o.TxnAtomic.o_reads) (Stdlib.List.length h))

(* ---- mode=torn ---- *)
let run_torn id hdr lines out =
  let c = { c_memsize = n_of_int (1 lsl 24); c_maxmem = n_of_int 1000 } in
  let pr x = out (id ^ " " ^ x) in
  let s = ref (init c) in
  let keys = Hashtbl.create 16 in
  let addk k = Hashtbl.replace keys (string_of_bytes k) () in
  let nlast = ref 0 in
  let rec go ls =
    match ls with
    | [] -> ()
    | ["put"; k; v] :: r -> let k = bytes_of_token k in addk k; s := fst (put !s k (bytes_of_token v)); nlast := 1; go r
    | ["del"; k] :: r -> let k = bytes_of_token k in addk k; s := fst (del !s k); nlast := 1; go r
    | [("batch" | "commit") as kind; n] :: r ->
      let (ops, rest) = Drv_c01.parse_bops (int_of_string n) r in
      Stdlib.List.iter (fun (k, _) -> addk k) ops;
      let eff = if kind = "batch" then ops else buffer_ops ops in
      if eff <> [] then nlast := Stdlib.List.length eff;
      s := fst (if kind = "batch" then apply_batch !s ops else tx_commit !s ops); go rest
    | _ :: r -> go r in
  go lines;
  let keylist = Stdlib.List.sort compare (Hashtbl.fold (fun k () acc -> k :: acc) keys []) in
  let files = !s.wal_files in
  let nfiles = Stdlib.List.length files in
  let older = firstn (nfiles - 1) files in
  let lastf = Stdlib.List.nth files (nfiles - 1) in
  let enc = WalCodec.encode_log lastf in
  let total = Stdlib.List.length enc in
  let nents = Stdlib.List.length lastf in
  let batch = Stdlib.List.filteri (fun i _ -> i >= nents - !nlast) lastf in
  let sizes = Stdlib.List.map (fun e -> Stdlib.List.length (WalCodec.encode_entry e)) batch in
  let start = total - Stdlib.List.fold_left (+) 0 sizes in
  pr (Printf.sprintf "B %d %d %d" start (start + (match sizes with x :: _ -> x | [] -> 0)) total);
  let reads st =
    Stdlib.String.concat "" (Stdlib.List.map (fun k ->
        " " ^ render (bytes_of_string k) ^ "=" ^ Drv_c01.render_opt (get st (bytes_of_string k))) keylist) in
  let impl = try Hashtbl.find impl_lines id with Not_found -> [] in
  Stdlib.List.iter (fun l ->
      match l with
      | "T" :: off :: _ ->
        let cut = firstn (int_of_string off) enc in
        let replayed = fst (WalCodec.replay_file cut) in
        let disk = { (init c) with wal_files = older @ [replayed] } in
        pr (Printf.sprintf "T %s%s" off (reads (reopen disk)))
      | _ -> ()) impl

let run (id : string) (hdr : string list) (lines : string list list) (out : string -> unit) =
  match Drv_c01.kv_of hdr "mode" "seq" with
  | "seq" -> run_seq id hdr lines out
  | "conc" -> run_conc id out
  | "crash" -> Drv_c02.run id hdr lines out
  | "torn" -> run_torn id hdr lines out
  | _ -> ()
