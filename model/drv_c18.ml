(* C18: drive the Memtable model *)
open Kutil
open Memtable

let estr (e : mentry) =
  Printf.sprintf "%s %s %s %s" (render e.mk) (n_to_string e.mseq)
    (match e.mkind with KDel -> "del" | KVal -> "val") (render e.mval)

(* mode=pool: the memtable pool (MemPool.v) *)
let run_pool (id : string) (lines : string list list) (out : string -> unit) =
  let open MemPool in
  let p = ref pl_empty in
  let pr x = out (id ^ " " ^ x) in
  Stdlib.List.iter (fun l ->
      match l with
      | ["put"; k; v; s] -> p := pl_put !p (bytes_of_token k) (bytes_of_token v) (n_of_string s)
      | ["del"; k; s] -> p := pl_del !p (bytes_of_token k) (n_of_string s)
      | ["switch"] -> p := pl_switch !p
      | ["get"; k] ->
        pr ("G " ^ (match pl_get !p (bytes_of_token k) with
            | None -> "absent" | Some None -> "deleted" | Some (Some v) -> "v:" ^ render v))
      | ["tables"] ->
        let ts = pl_tables !p in
        pr (Printf.sprintf "T n=%d %s" (Stdlib.List.length ts)
              (Stdlib.String.concat "," (Stdlib.List.map (fun t ->
                   Printf.sprintf "%d%s" (Stdlib.List.length t.mt_entries) (if t.mt_imm then "i" else "a")) ts)))
      | _ -> failwith ("C18 pool: bad line " ^ Stdlib.String.concat " " l)) lines

let run (id : string) (hdr : string list) (lines : string list list) (out : string -> unit) =
  if Stdlib.List.mem "mode=pool" hdr then run_pool id lines out else
  let m = ref mt_empty in
  let pr x = out (id ^ " " ^ x) in
  let h = ref (h_new mt_empty) in
  let cur () = pr (match !h.h_cur with None -> "H invalid" | Some e -> "H " ^ estr e) in
  Stdlib.List.iter (fun l ->
      match l with
      | ["put"; k; v; s] -> m := mt_put !m (bytes_of_token k) (bytes_of_token v) (n_of_string s)
      | ["del"; k; s] -> m := mt_del !m (bytes_of_token k) (n_of_string s)
      | ["imm"] -> m := mt_set_imm !m
      | ["hnew"] -> h := h_new !m
      | ["hfirst"] -> h := h_first !m !h; cur ()
      | ["hseek"; t] -> h := h_seek (bytes_of_token t) !m !h; cur ()
      | ["hnext"] -> (match !h.h_cur with None -> pr "H invalid" | Some _ -> h := h_next !m !h; cur ())
      | ["hdrain"] ->
        let n = ref 0 in
        while !h.h_cur <> None && !n < 100000 do h := h_next !m !h; cur (); incr n done
      | ["get"; k] ->
        pr ("G " ^ (match mt_get !m (bytes_of_token k) with
            | None -> "absent" | Some None -> "deleted" | Some (Some v) -> "v:" ^ render v))
      | ["iter"] ->
        let es = mt_iter_entries !m in
        pr (Printf.sprintf "I n=%d" (Stdlib.List.length es));
        Stdlib.List.iter (fun e -> pr ("i " ^ estr e)) es
      | ["seek"; t] ->
        (match seek_ge (bytes_of_token t) (mt_iter_entries !m) with
         | [] -> pr "K invalid"
         | e :: _ -> pr ("K " ^ estr e))
      | ["size"] -> pr ("Z " ^ n_to_string !m.mt_size)
      | _ -> failwith ("C18: bad line " ^ Stdlib.String.concat " " l)) lines
