(* C13: drive the replica-side model (Repl.v) with the harness's case file.
   The primary log L is produced by the WAL writer/reader model of C09 (WalCodec), the same
   way the harness produces it with the real pkg/wal. *)
open Kutil
open WalCodec
open Repl

let op_of s = match s with "put" -> 1 | "del" -> 2 | "merge" -> 3 | _ -> int_of_string s

let derr_str c =
  match c with
  | DSmall -> "small" | DOpType -> "optype" | DKeyBig -> "keybig" | DKeyLen -> "keylen"
  | DValHdr -> "valhdr" | DValBig -> "valbig" | DValLen -> "vallen"

let rclass_str r =
  match r with
  | ROk -> "ok" | RGap -> "gap" | RApply -> "apply" | RDeser c -> "deser:" ^ derr_str c

let entry_str (e : wentry) =
  Printf.sprintf "%s %d %s %s" (n_to_string e.w_seq) (int_of_n e.w_op) (render e.w_key) (render e.w_val)

let hdr_val hdr key dflt =
  let p = key ^ "=" in
  let pl = Stdlib.String.length p in
  let rec go l = match l with
    | [] -> dflt
    | t :: r -> if Stdlib.String.length t >= pl && Stdlib.String.sub t 0 pl = p
      then Stdlib.String.sub t pl (Stdlib.String.length t - pl) else go r in
  go hdr

let failat_of toks =
  let rec go l = match l with
    | [] -> None
    | t :: r -> if Stdlib.String.length t > 2 && Stdlib.String.sub t 0 2 = "f="
      then Some (nat_of_int (int_of_string (Stdlib.String.sub t 2 (Stdlib.String.length t - 2)))) else go r in
  go toks

(* up to k following lines that start with pref (a shrunk case may have lost lines of a block) *)
let rec take pref k l acc = if k = 0 then (Stdlib.List.rev acc, l) else
    match l with
    | ((p :: _) as x) :: t when p = pref -> take pref (k-1) t (x :: acc)
    | _ -> (Stdlib.List.rev acc, l)

let went_of l = match l with
  | ["o"; o; k; v] -> { w_op = n_of_int (op_of o); w_seq = N0; w_key = bytes_of_token k; w_val = bytes_of_token v }
  | ["o"; o; k] -> { w_op = n_of_int (op_of o); w_seq = N0; w_key = bytes_of_token k; w_val = [] }
  | _ -> failwith "bad batch op"

let run (id : string) (hdr : string list) (lines : string list list) (out : string -> unit) =
  let pr s = out (id ^ " " ^ s) in
  let kind = hdr_val hdr "kind" "sched" in
  let start = n_of_string (hdr_val hdr "start" "0") in
  if kind = "replica" || kind = "emit" then () else begin
  (* 1. the primary's log *)
  let w = ref { wl_next = n_of_int 1; wl_files = [ [] ] } in
  let rec build ls =
    match ls with
    | ("w" :: (("put" | "merge") as o) :: k :: v :: []) :: r ->
      let (w', _) = wal_append !w (n_of_int (op_of o)) (bytes_of_token k) (bytes_of_token v) in
      w := w'; build r
    | ("w" :: "del" :: k :: []) :: r ->
      let (w', _) = wal_append !w (n_of_int 2) (bytes_of_token k) [] in
      w := w'; build r
    | ("w" :: "batch" :: [n]) :: r ->
      let (ops, rest) = take "o" (int_of_string n) r [] in
      let (w', _) = wal_append_batch !w (Stdlib.List.map went_of ops) in
      w := w'; build rest
    | ("o" :: _) :: r -> build r
    | rest -> rest in
  let evs = build lines in
  let log = entries_from (n_of_int 1) !w.wl_files in
  pr (Printf.sprintf "L %d" (Stdlib.List.length log));
  Stdlib.List.iter (fun e -> pr ("l " ^ entry_str e)) log;
  (* 2. the delivery schedule *)
  let rep = ref (new_replica start) in
  let applied = ref [] in
  let deliver es f =
    let ((r', app), oc) = process !rep es f in
    rep := r'; applied := !applied @ app;
    let res = match oc with
      | OAck _ -> "ok" | ONack _ -> "gap" | OErr c -> rclass_str c in
    let tail = match oc with
      | OAck u -> " ack=" ^ n_to_string u | ONack m -> " nack=" ^ n_to_string m | OErr _ -> "" in
    pr (Printf.sprintf "D res=%s cur=%s exp=%s n=%d%s" res
          (n_to_string r'.r_ap.a_max) (n_to_string r'.r_ap.a_exp)
          (Stdlib.List.length app) tail);
    Stdlib.List.iter (fun e -> pr ("a " ^ entry_str e)) app in
  let rec go ls =
    match ls with
    | [] -> ()
    | ("seg" :: i :: j :: opts) :: r ->
      deliver (seg log (nat_of_int (int_of_string i)) (nat_of_int (int_of_string j))) (failat_of opts); go r
    | ("idx" :: l :: opts) :: r ->
      let idx = if l = "-" then [] else
          Stdlib.List.map (fun s -> nat_of_int (int_of_string s)) (Stdlib.String.split_on_char ',' l) in
      deliver (pick log idx) (failat_of opts); go r
    | ("poll" :: from :: opts) :: r ->
      deliver (poll log (n_of_string from)) (failat_of opts); go r
    | ("raw" :: n :: opts) :: r ->
      let (es, rest) = take "e" (int_of_string n) r [] in
      let es = Stdlib.List.map (fun l -> match l with
          | ["e"; s; p] -> { p_seq = n_of_string s; p_payload = bytes_of_token p }
          | _ -> failwith "bad raw entry") es in
      deliver es (failat_of opts); go rest
    | (("o" | "e") :: _) :: r -> go r
    | ["reset"] :: r ->
      pr ("X reset " ^ n_to_string (stream_start !rep)); go r
    | ["restart"] :: r ->
      rep := new_replica N0; pr "X restart"; go r
    | ["ack"] :: r ->
      let a = acknowledge_up_to !rep.r_ap !rep.r_ap.a_max in
      rep := { !rep with r_ap = a }; pr ("K " ^ n_to_string a.a_ack); go r
    | l :: _ -> failwith ("C13: bad line: " ^ Stdlib.String.concat " " l) in
  go evs;
  if kind = "engine" then begin
    Stdlib.List.iter (fun (k, v) -> pr (Printf.sprintf "s %s %s" (render k) (render v))) (view !applied);
    Stdlib.List.iter (fun (k, v) -> pr (Printf.sprintf "p %s %s" (render k) (render v))) (primary_view log)
  end
  end
