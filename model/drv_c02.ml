(* C02: crash recovery. The program is run on the Engine model to obtain the complete log
   files; the harness output tells how many bytes of each log file survived the child's
   death (W line after each K line); the model cuts its encoded log files at exactly those
   lengths, replays them (WalCodec), recovers (Engine.reopen) and reads every key. *)
open Kutil
open Engine

let rec firstn n l = if n = 0 then [] else match l with [] -> [] | x :: r -> x :: firstn (n - 1) r

let bop_of_line l = match l with
  | ["p"; k; v] -> (bytes_of_token k, Some (bytes_of_token v))
  | ["d"; k] -> (bytes_of_token k, None)
  | _ -> failwith "bad batch op"

let run (id : string) (hdr : string list) (lines : string list list) (out : string -> unit) =
  let c = { c_memsize = n_of_string (Drv_c01.kv_of hdr "memsize" "4096"); c_maxmem = n_of_string (Drv_c01.kv_of hdr "maxmem" "1000") } in
  let pr x = out (id ^ " " ^ x) in
  (* run the whole program; collect keys *)
  let s = ref (init c) in
  let keys = Hashtbl.create 16 in
  let addk k = Hashtbl.replace keys k () in
  let rec go ls =
    match ls with
    | [] -> ()
    | ["put"; k; v] :: r -> addk (raw_of_token k); s := fst (put !s (bytes_of_token k) (bytes_of_token v)); go r
    | ["del"; k] :: r -> addk (raw_of_token k); s := fst (del !s (bytes_of_token k)); go r
    | [("batch" | "commit") as kind; n] :: r ->
      let (ops, rest) = Drv_c01.parse_bops (int_of_string n) r in
      Stdlib.List.iter (fun (k, _) -> addk (string_of_bytes k)) ops;
      s := fst (if kind = "batch" then apply_batch !s ops else tx_commit !s ops); go rest
    | ["flush"] :: r -> s := flush !s; go r
    | ["reopen"] :: r -> s := reopen !s; go r
    | ("crash" :: _) :: r -> go r
    | l :: _ -> failwith ("C02: bad line: " ^ Stdlib.String.concat " " l) in
  go lines;
  addk "post1"; addk "post2";
  let keylist = Stdlib.List.sort compare (Hashtbl.fold (fun k () acc -> k :: acc) keys []) in
  let full_files = Stdlib.List.map WalCodec.encode_log !s.wal_files in
  let reads st =
    Stdlib.String.concat "" (Stdlib.List.map (fun k ->
        " " ^ render (bytes_of_string k) ^ "=" ^ Drv_c01.render_opt (get st (bytes_of_string k))) keylist) in
  (* walk over the harness output: every K line is followed by its W line *)
  let impl = try Hashtbl.find impl_lines id with Not_found -> [] in
  let rec walk ls =
    match ls with
    | ("K" :: site :: hit :: crashed :: []) :: ("W" :: lens) :: r ->
      pr (Printf.sprintf "K %s %s %s" site hit crashed);
      pr ("W " ^ Stdlib.String.concat " " lens);
      let rec zip fs ls = match fs, ls with
        | f :: fr, l :: lr -> firstn (int_of_string l) f :: zip fr lr
        | _, _ -> [] in
      let cut = zip full_files lens in
      let replayed = Stdlib.List.map (fun f -> fst (WalCodec.replay_file f)) cut in
      let disk = { (init c) with wal_files = (match replayed with [] -> [[]] | _ -> replayed) } in
      let rec_st = reopen disk in
      pr ("R" ^ reads rec_st);
      let b = bytes_of_string in
      let s1 = fst (put rec_st (b "post1") (b "x")) in
      let s2 = fst (put s1 (b "post2") (b "y")) in
      let s3 = fst (del s2 (b "post1")) in
      pr ("R2" ^ reads (reopen s3));
      walk r
    | _ :: r -> walk r
    | [] -> () in
  walk impl
