(* C09/C10/C08(wal level): drive the WAL writer/reader model with the harness's case file *)
open Kutil
open WalCodec

let wres_str r =
  match r with
  | WOk s -> n_to_string s
  | WErrInvalidOp -> "err:invalidop"
  | WErrOverflow -> "err:overflow"
  | WErrTooLarge -> "err:toolarge"

let status_str s =
  match s with
  | Clean -> "clean" | TornTail -> "torn" | Damaged -> "damaged"
  | OutOfFuel -> "fuel"

let entry_str (e : wentry) =
  Printf.sprintf "%s %d %s %s" (n_to_string e.w_seq) (int_of_n e.w_op) (render e.w_key) (render e.w_val)

let op_of s = match s with "put" | "p" -> 1 | "del" | "d" -> 2 | "merge" | "m" -> 3 | _ -> int_of_string s

let run (id : string) (_hdr : string list) (lines : string list list) (out : string -> unit) =
  let w = ref { wl_next = n_of_int 1; wl_files = [ [] ] } in
  let pr s = out (id ^ " " ^ s) in
  let rec go ls =
    match ls with
    | [] -> ()
    | ("start" :: [n]) :: r -> w := { !w with wl_next = n_of_string n }; go r
    | ((("put" | "merge") as o) :: k :: v :: []) :: r ->
      let (w', res) = wal_append !w (n_of_int (op_of o)) (bytes_of_token k) (bytes_of_token v) in
      w := w'; pr ("A " ^ wres_str res); go r
    | ("del" :: k :: []) :: r ->
      let (w', res) = wal_append !w (n_of_int 2) (bytes_of_token k) [] in
      w := w'; pr ("A " ^ wres_str res); go r
    | ("raw" :: o :: k :: v :: []) :: r ->
      let (w', res) = wal_append !w (n_of_int (int_of_string o)) (bytes_of_token k) (bytes_of_token v) in
      w := w'; pr ("A " ^ wres_str res); go r
    | ("seq" :: o :: s :: k :: v :: []) :: r ->
      let nxt = !w.wl_next in
      let sq =
        if s = "=" then nxt
        else if Stdlib.String.length s > 1 && s.[0] = '+' then BinNat.N.add nxt (n_of_string (Stdlib.String.sub s 1 (Stdlib.String.length s - 1)))
        else if Stdlib.String.length s > 1 && s.[0] = '-' then
          (let d = n_of_string (Stdlib.String.sub s 1 (Stdlib.String.length s - 1)) in
           if BinNat.N.leb d nxt then BinNat.N.sub nxt d else BinNums.N0)
        else n_of_string s in
      let (w', res) = wal_append_seq !w (n_of_int (op_of o)) (bytes_of_token k) (bytes_of_token v) sq in
      w := w'; pr ("A " ^ wres_str res); go r
    | ("batch" :: [n]) :: r ->
      let n = int_of_string n in
      let rec take k l acc = if k = 0 then (Stdlib.List.rev acc, l) else
          match l with x :: t -> take (k-1) t (x :: acc) | [] -> failwith "short batch" in
      let (ops, rest) = take n r [] in
      let ents = Stdlib.List.map (fun l -> match l with
          | [o; k; v] -> { w_op = n_of_int (op_of o); w_seq = N0; w_key = bytes_of_token k; w_val = bytes_of_token v }
          | [o; k] -> { w_op = n_of_int (op_of o); w_seq = N0; w_key = bytes_of_token k; w_val = [] }
          | _ -> failwith "bad batch op") ops in
      let (w', res) = wal_append_batch !w ents in
      w := w'; pr ("B " ^ wres_str res); go rest
    | ["rotate"] :: r -> w := wal_new_file !w; go r
    | ["reopen"] :: r -> go r
    | ["closerace"; _; _] :: r -> go r   (* the append that races with the close is refused *)
    | ("from" :: [s]) :: r ->
      let es = entries_from (n_of_string s) !w.wl_files in
      pr (Printf.sprintf "G %s n=%d" s (Stdlib.List.length es));
      Stdlib.List.iter (fun e -> pr ("g " ^ entry_str e)) es; go r
    | l :: _ -> failwith ("C09: bad line: " ^ Stdlib.String.concat " " l)
  in
  go lines;
  Stdlib.List.iter (fun f ->
      pr (Printf.sprintf "F %d %08x" (Stdlib.List.length f) (int_of_n (Bytes.crc32 f)))) !w.wl_files;
  Stdlib.List.iter (fun f ->
      let (es, st) = replay_file f in
      Stdlib.List.iter (fun e -> pr ("R " ^ entry_str e)) es;
      pr ("S " ^ status_str st)) !w.wl_files;
  pr ("N " ^ n_to_string !w.wl_next)
